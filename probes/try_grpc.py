import sys; sys.path.insert(0, '/tmp/probe')
import shim, grpc
from vizier._src.service import vizier_server, vizier_client, clients, constants
from vizier.service import pyvizier as vz
vizier_client.environment_variables.servicer_use_sql_ram()   # never the default file inside /repo
srv = vizier_server.DefaultVizierServer(database_url=None)
print('server at', srv.endpoint)
sc = vz.StudyConfig(algorithm='RANDOM_SEARCH'); sc.search_space.root.add_float_param('w', 0.0, 1.0)
sc.metric_information.append(vz.MetricInformation('m', goal=vz.ObjectiveMetricGoal.MAXIMIZE))
def run(label):
    study = clients.Study.from_study_config(sc, owner='o', study_id='s_' + label)
    try: study.get_trial(99); print(label, 'get_trial(99): no error')
    except Exception as e: print(label, 'get_trial(99) ->', type(e).__mro__[0].__name__, '| bases:', [c.__name__ for c in type(e).__mro__[1:4]], '| code:', getattr(e, 'code', lambda: None)())
    try: clients.Study.from_resource_name('owners/o/studies/nope'); print(label, 'from_resource_name: no error')
    except Exception as e: print(label, 'from_resource_name(missing) ->', type(e).__name__)
    t = study.suggest(count=1)[0]; study.set_state(vz.StudyState.ABORTED); print(label, 'suggest on aborted study ->', study.suggest(count=1))
run('local')
vizier_client.environment_variables.server_endpoint = srv.endpoint
run('grpc')
