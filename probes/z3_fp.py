import time
from z3 import *
F = Float64(); rm = RNE()
def T(name, s, expect=None, to=30000):
    s.set('timeout', to); t = time.time(); r = s.check(); print('%-52s %-8s %.2fs' % (name, r, time.time() - t)); return r
# (1) clip: lo<=hi finite, v finite => lo <= clip(v) <= hi
lo, hi, v = FPs('lo hi v', F)
clip = If(fpLT(v, lo), lo, If(fpGT(v, hi), hi, v))
s = Solver(); s.add(Not(fpIsNaN(lo)), Not(fpIsNaN(hi)), Not(fpIsInf(lo)), Not(fpIsInf(hi)), fpLEQ(lo, hi), Not(fpIsNaN(v)), Not(fpIsInf(v)))
s.add(Not(And(fpLEQ(lo, clip), fpLEQ(clip, hi)))); T('clip in bounds (FP64)', s)
# (2) midpoint (lo+hi)/2 in [lo,hi] unless overflow
mid = fpDiv(rm, fpAdd(rm, lo, hi), FPVal(2.0, F))
s = Solver(); s.add(Not(fpIsNaN(lo)), Not(fpIsNaN(hi)), Not(fpIsInf(lo)), Not(fpIsInf(hi)), fpLEQ(lo, hi))
s.add(Not(And(fpLEQ(lo, mid), fpLEQ(mid, hi)))); r = T('midpoint in bounds, no overflow guard (expect sat)', s)
if r == sat: m = s.model(); print('    model lo=%s hi=%s' % (m[lo], m[hi]))
s = Solver(); s.add(Not(fpIsNaN(lo)), Not(fpIsNaN(hi)), Not(fpIsInf(lo)), Not(fpIsInf(hi)), fpLEQ(lo, hi), Not(fpIsInf(fpAdd(rm, lo, hi))))
s.add(Not(And(fpLEQ(lo, mid), fpLEQ(mid, hi)))); T('midpoint in bounds, sum finite (expect unsat)', s, to=120000)
# (3) assert_correct_type on int value i: float(i) != i  <=> i not exactly representable; with |i|<=2^53 always equal
i = Int('i'); fi = fpRealToFP(rm, ToReal(i), F)
s = Solver(); s.add(i >= -2**53, i <= 2**53, fpToReal(fi) != ToReal(i)); T('float(i)==i for |i|<=2^53 (expect unsat)', s, to=120000)
# (4) INTEGER membership: value float x, int(x)==x and lo<=int(x)<=hi  vs spec: x integral and lo<=x<=hi (reals)
x = FP('x', F); L, H = Ints('L H')
# (5) negation involution
s = Solver(); s.add(Not(fpIsNaN(x)), Not(fpEQ(fpNeg(fpNeg(x)), x))); T('-(-x)==x (FP64)', s)
s = Solver(); m1 = FPVal(-1.0, F); s.add(Not(fpIsNaN(x)), Not(fpEQ(fpMul(rm, m1, fpMul(rm, m1, x)), x))); T('-1*(-1*x)==x (FP64 mul)', s, to=120000)
# (6) mixed radix step (NIA)
t, t2, Lr, d, W, val, idx = Ints('t t2 Lr d W val idx')
s = Solver(); s.add(Lr >= 1, W >= 1, t >= 0, idx == t * W + val, 0 <= val, val < W, t2 == t / Lr, d == t % Lr)
s.add(Not(And(idx == t2 * (Lr * W) + (d * W + val), 0 <= d * W + val, d * W + val < Lr * W))); T('mixed-radix invariant step (NIA)', s, to=60000)
