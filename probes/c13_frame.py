"""Probe P14: dump/load state-frame obligations (C13b) on the real designer classes."""
import ast, os
FILES = {'GridSearchDesigner': 'vizier/_src/algorithms/designers/grid.py', 'QuasiRandomDesigner': 'vizier/_src/algorithms/designers/quasi_random.py',
         'EagleStrategyDesigner': 'vizier/_src/algorithms/designers/eagle_strategy/eagle_strategy.py', 'CanonicalEvolutionDesigner': 'vizier/_src/algorithms/evolution/templates.py',
         'CMAESDesigner': 'vizier/_src/algorithms/designers/cmaes.py', 'IdDeduplicatingTrialLoader': 'vizier/_src/algorithms/policies/trial_caches.py'}
MUTATORS = {'append','extend','add','update','pop','remove','clear','insert','put','get_nowait','random','fast_forward','shuffle','tell','ask','integers','uniform','normal','choice','permutation','random_sample','rand','randn','randint'}
def self_attr(e):
    """returns attr name if e is self.<attr> (possibly subscripted / deeper attribute of it)."""
    while isinstance(e, (ast.Subscript, ast.Attribute)):
        if isinstance(e, ast.Attribute) and isinstance(e.value, ast.Name) and e.value.id == 'self': return e.attr
        e = e.value
    return None
def W_R(fn, methods, seen=None):
    seen = seen or set(); W, R, unresolved = set(), set(), set()
    if fn.name in seen: return W, R, unresolved
    seen.add(fn.name)
    for n in ast.walk(fn):
        if isinstance(n, (ast.Assign, ast.AugAssign, ast.AnnAssign)):
            for t in (n.targets if isinstance(n, ast.Assign) else [n.target]):
                for tt in (t.elts if isinstance(t, ast.Tuple) else [t]):
                    a = self_attr(tt)
                    if a: W.add(a)
        if isinstance(n, ast.Attribute) and isinstance(n.value, ast.Name) and n.value.id == 'self' and isinstance(n.ctx, ast.Load): R.add(n.attr)
        if isinstance(n, ast.Call) and isinstance(n.func, ast.Attribute):
            recv = n.func.value
            if isinstance(recv, ast.Name) and recv.id == 'self' and n.func.attr in methods:
                w, r, u = W_R(methods[n.func.attr], methods, seen); W |= w; R |= r; unresolved |= u
            else:
                a = self_attr(recv)
                if a:
                    if n.func.attr in MUTATORS: W.add(a)
                    elif n.func.attr not in ('get','items','keys','values','copy','ns','abs_ns','dump','to_parameters','to_features','to_trials','to_labels','convert','output_specs','item','of_type','to_population','to_suggestions'):
                        unresolved.add('self.%s.%s()' % (a, n.func.attr))
    return W, R, unresolved
for cn, f in FILES.items():
    t = ast.parse(open(os.path.join('/repo', f)).read())
    c = [n for n in t.body if isinstance(n, ast.ClassDef) and n.name == cn][0]
    ms = {m.name: m for m in c.body if isinstance(m, ast.FunctionDef)}
    MUT, unres = set(), set()
    for mn, m in ms.items():
        if mn in ('__init__', 'load', 'recover', 'dump', '__attrs_post_init__', 'from_problem'): continue
        w, r, u = W_R(m, ms); MUT |= w; unres |= u
    Wl, _, _ = W_R(ms['load'], ms) if 'load' in ms else (set(), set(), set())
    _, Rd, _ = W_R(ms['dump'], ms) if 'dump' in ms else (set(), set(), set())
    print('%-28s MUT=%s' % (cn, sorted(MUT)))
    print('%-28s   not restored by load: %s   not read by dump: %s' % ('', sorted(MUT - Wl), sorted(MUT - Rd)))
    print('%-28s   assumptions (calls on owned objects not classified): %s' % ('', sorted(unres)))
