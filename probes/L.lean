import Mathlib.Data.Finset.Card
import Mathlib.Tactic.Ring
import Mathlib.Tactic.Linarith

-- C16/C12: a subset of equal cardinality is the whole set
theorem eq_of_subset_card {α : Type} [DecidableEq α] (A B : Finset α)
    (h : A ⊆ B) (hc : B.card ≤ A.card) : A = B :=
  Finset.eq_of_subset_of_card_le h hc

-- C13: mixed radix step
theorem mixed_radix_step (t L W val : Nat) (hL : 0 < L) (hv : val < W) :
    t * W + val = (t / L) * (L * W) + ((t % L) * W + val) ∧ (t % L) * W + val < L * W := by
  constructor
  · have := Nat.div_add_mod t L
    calc t * W + val = (L * (t / L) + t % L) * W + val := by rw [this]
      _ = (t / L) * (L * W) + ((t % L) * W + val) := by ring
  · have h1 : t % L < L := Nat.mod_lt t hL
    have h2 : t % L + 1 ≤ L := h1
    calc (t % L) * W + val < (t % L) * W + W := by omega
      _ = (t % L + 1) * W := by ring
      _ ≤ L * W := Nat.mul_le_mul_right W h2
