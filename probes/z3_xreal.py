"""Probe P10b: finite floats as the reals they denote (+inf/-inf/nan as extra constructors)."""
import time
from z3 import *
XR = Datatype('XReal'); XR.declare('fin', ('r', RealSort())); XR.declare('pinf'); XR.declare('ninf'); XR.declare('nan'); XR = XR.create()
x = Const('x', XR); lo, hi = Ints('lo hi'); r = XR.r(x)
trunc = If(r >= 0, ToInt(r), -ToInt(-r))
# code: float(x)!=x -> nan only ; int(x): inf->OverflowError, nan->ValueError ; int(x)!=x -> TypeError ; bounds on int(x)
type_err1 = XR.is_nan(x)                                  # float(nan) != nan
overflow = Or(XR.is_pinf(x), XR.is_ninf(x))
int_ne = And(XR.is_fin(x), ToReal(trunc) != r)
returns_true = And(Not(type_err1), Not(overflow), XR.is_fin(x), Not(int_ne), lo <= trunc, trunc <= hi)
member = And(XR.is_fin(x), r == ToReal(ToInt(r)), ToReal(lo) <= r, r <= ToReal(hi))
for name, c in (('iff INTEGER tag=float (XReal)', returns_true != member), ('raises_nothing (expect sat)', And(Not(type_err1), overflow))):
    s = Solver(); s.set('timeout', 60000); s.add(lo <= hi, c); t = time.time(); res = s.check(); print('%-40s %-7s %.2fs' % (name, res, time.time() - t), s.model()[x] if res == sat else '')
