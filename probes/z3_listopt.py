"""Probe P11: hand VCs for ListOptimalTrials (filter loop with append provenance, definitional numpy block, final spec)."""
import time
from z3 import *
T = DeclareSort('Trial'); Mid = DeclareSort('MetricId')
XR = Datatype('XReal'); XR.declare('fin', ('r', RealSort())); XR.declare('pinf'); XR.declare('ninf'); XR.declare('nan'); XR = XR.create()
def rank(x): return If(XR.is_ninf(x), 0, If(XR.is_fin(x), 1, 2))
def le(x, y): return And(Not(XR.is_nan(x)), Not(XR.is_nan(y)), Or(rank(x) < rank(y), And(rank(x) == rank(y), Or(Not(XR.is_fin(x)), XR.r(x) <= XR.r(y)))))
def gt(x, y): return And(Not(XR.is_nan(x)), Not(XR.is_nan(y)), Not(le(x, y)))
def neg(x): return If(XR.is_fin(x), XR.fin(-XR.r(x)), If(XR.is_pinf(x), XR.ninf, If(XR.is_ninf(x), XR.pinf, XR.nan)))
state = Function('state', T, IntSort()); has = Function('has', T, Mid, BoolSort()); val = Function('val', T, Mid, XR)
d = Int('d'); M = Array('M', IntSort(), Mid); minimize = Function('minimize', IntSort(), BoolSort())
nR = Int('nR'); R = Array('R', IntSort(), T)
k, k2, j, j2, a, b, i2 = Ints('k k2 j j2 a b i2')
def cons(t): return And(state(t) == 4, ForAll([k], Implies(And(0 <= k, k < d), has(t, M[k]))))
def vec(t, kk): return If(minimize(kk), neg(val(t, M[kk])), val(t, M[kk]))
def dom(p, q): return And(ForAll([k], Implies(And(0 <= k, k < d), le(vec(q, k), vec(p, k)))), Exists([k2], And(0 <= k2, k2 < d, gt(vec(p, k2), vec(q, k2)))))
def inv1(i, nc, C, src):
    return And(0 <= nc, nc <= i, i <= nR,
        ForAll([j], Implies(And(0 <= j, j < nc), And(C[j] == R[src[j]], cons(R[src[j]]), 0 <= src[j], src[j] < i))),
        ForAll([j, j2], Implies(And(0 <= j, j < j2, j2 < nc), src[j] < src[j2])),
        ForAll([i2], Implies(And(0 <= i2, i2 < i, cons(R[i2])), Exists([j], And(0 <= j, j < nc, src[j] == i2)))))
def check(name, hyps, goal, to=60000):
    s = Solver(); s.set('timeout', to); s.add(*hyps); s.add(Not(goal)); t = time.time(); r = s.check(); print('%-52s %-7s %.2fs' % (name, r, time.time() - t)); return r
i, nc = Ints('i nc'); C = Array('C', IntSort(), T); src = Array('src', IntSort(), IntSort())
base = [d >= 0, nR >= 0]
check('L1 init', base, inv1(IntVal(0), IntVal(0), C, src))
t = R[i]
check('L1 step, trial considered (append)', base + [inv1(i, nc, C, src), i < nR, cons(t)], inv1(i + 1, nc + 1, Store(C, nc, t), Store(src, nc, i)))
check('L1 step, trial skipped', base + [inv1(i, nc, C, src), i < nR, Not(cons(t))], inv1(i + 1, nc, C, src))
# after the loop: numpy block (definitional) + loop 3 (second filter with provenance src3) + final spec
opt = Function('opt', IntSort(), BoolSort())
no = Int('no'); O = Array('O', IntSort(), T); src3 = Array('src3', IntSort(), IntSort())
defs = [ForAll([a], Implies(And(0 <= a, a < nc), opt(a) == Not(Exists([b], And(0 <= b, b < nc, dom(C[b], C[a])))))),
        0 <= no, no <= nc,
        ForAll([j], Implies(And(0 <= j, j < no), And(O[j] == C[src3[j]], opt(src3[j]), 0 <= src3[j], src3[j] < nc))),
        ForAll([j, j2], Implies(And(0 <= j, j < j2, j2 < no), src3[j] < src3[j2])),
        ForAll([a], Implies(And(0 <= a, a < nc, opt(a)), Exists([j], And(0 <= j, j < no, src3[j] == a))))]
def P(ix): return And(cons(R[ix]), Not(Exists([i2], And(0 <= i2, i2 < nR, cons(R[i2]), dom(R[i2], R[ix])))))
g = lambda jj: src[src3[jj]]     # witness: composed provenance
hy = base + [inv1(nR, nc, C, src)] + defs
jj = Int('jj'); ii = Int('ii')
check('post: every reported trial satisfies the spec', hy, Implies(And(0 <= jj, jj < no), And(O[jj] == R[g(jj)], 0 <= g(jj), g(jj) < nR, P(g(jj)))))
check('post: every trial satisfying the spec is reported', hy, Implies(And(0 <= ii, ii < nR, P(ii)), Exists([j], And(0 <= j, j < no, g(j) == ii))))
check('post: storage order preserved', hy, ForAll([j, j2], Implies(And(0 <= j, j < j2, j2 < no), g(j) < g(j2))))
# the property's extra clause: reported trials have no NaN objective  (expect NOT provable -> model query)
s = Solver(); s.set('timeout', 20000); s.add(*hy); s.add(0 <= jj, jj < no, d == 1, XR.is_nan(val(O[jj], M[0]))); t0 = time.time(); r = s.check(); print('%-52s %-7s %.2fs' % ('NaN clause refutable (expect sat/unknown)', r, time.time() - t0))
