"""Probe P9: minimal symbolic executor over the REAL vizier_service.py AST.

Exploration = stateless DFS over decision vectors: each run is an ordinary recursive
interpreter; every symbolic branch asks `choose`, which consults a decision list and
records unexplored alternatives.  Python exceptions model control flow.
"""
import ast, os, sys, time, itertools
from z3 import *

REPO = os.environ.get('SPIKE_REPO', '/repo')

# ----------------------------------------------------------------------------- modules
class ClassInfo:
    def __init__(self, mod, node):
        self.mod, self.node, self.name = mod, node, node.name
        self.bases = [ast.unparse(b) for b in node.bases]
        self.methods = {n.name: n for n in node.body if isinstance(n, ast.FunctionDef)}
        self.assigns = {}
        for n in node.body:
            if isinstance(n, ast.Assign) and len(n.targets) == 1 and isinstance(n.targets[0], ast.Name):
                self.assigns[n.targets[0].id] = n.value
            if isinstance(n, ast.AnnAssign) and isinstance(n.target, ast.Name) and n.value is not None:
                self.assigns[n.target.id] = n.value
    def __repr__(self): return '<class %s>' % self.name

class ModuleInfo:
    cache = {}
    def __init__(self, dotted):
        self.dotted = dotted
        path = os.path.join(REPO, dotted.replace('.', '/') + '.py')
        self.path = path
        self.tree = ast.parse(open(path).read())
        self.funcs, self.classes, self.imports, self.assigns = {}, {}, {}, {}
        for n in self.tree.body:
            if isinstance(n, ast.FunctionDef): self.funcs[n.name] = n
            elif isinstance(n, ast.ClassDef): self.classes[n.name] = ClassInfo(self, n)
            elif isinstance(n, ast.ImportFrom):
                for a in n.names: self.imports[a.asname or a.name] = (n.module or '') + '.' + a.name
            elif isinstance(n, ast.Import):
                for a in n.names: self.imports[a.asname or a.name] = a.name
            elif isinstance(n, ast.Assign) and len(n.targets) == 1 and isinstance(n.targets[0], ast.Name):
                self.assigns[n.targets[0].id] = n.value
    @classmethod
    def get(cls, dotted):
        if dotted not in cls.cache: cls.cache[dotted] = ModuleInfo(dotted)
        return cls.cache[dotted]

class ModRef:
    def __init__(self, dotted): self.dotted = dotted
    def __repr__(self): return '<mod %s>' % self.dotted

# ----------------------------------------------------------------------------- values
class Obj:            # instance of a repo class
    def __init__(self, cls, attrs=None): self.cls, self.attrs = cls, dict(attrs or {})
class Exc(Obj): pass  # exception instance (cls may be ClassInfo or a builtin name string)
class Bound:
    def __init__(self, obj, fn, cls): self.obj, self.fn, self.cls = obj, fn, cls
class Builtin:
    def __init__(self, name, fn): self.name, self.fn = name, fn
class Opaque:         # opaque python value carrying a z3 term of an uninterpreted sort
    def __init__(self, term): self.term = term
class ArrList:
    def __init__(self, n, arr): self.n, self.arr = n, arr
class Rec:            # proto message, python-side mutable record
    def __init__(self, schema, fields): self.schema, self.f = schema, dict(fields)

class PyRaise(Exception):
    def __init__(self, exc): self.exc = exc
class PyReturn(Exception):
    def __init__(self, v): self.v = v
class Unsupported(Exception): pass

BUILTIN_EXC_BASES = {'ValueError': ['Exception'], 'KeyError': ['LookupError'], 'LookupError': ['Exception'],
                     'TypeError': ['Exception'], 'Exception': ['BaseException'], 'grpc.RpcError': ['Exception'],
                     'RuntimeError': ['Exception'], 'IndexError': ['LookupError']}
def class_name(c): return c.name if isinstance(c, ClassInfo) else c
def mro_names(c):
    out, todo = [], [c]
    while todo:
        x = todo.pop(0); n = class_name(x)
        if n in out: continue
        out.append(n)
        if isinstance(x, ClassInfo):
            for b in x.bases:
                short = b.split('.')[-1]
                if b in ('grpc.RpcError',): todo.append('grpc.RpcError')
                elif short in x.mod.classes: todo.append(x.mod.classes[short])
                else: todo.append(short)
        else: todo.extend(BUILTIN_EXC_BASES.get(n, []))
    return out
def is_subclass(c, names): return any(n in mro_names(c) for n in names)

# ----------------------------------------------------------------------------- sorts (spike: Trial/Study views)
Name = Datatype('Name'); Name.declare('study', ('s', IntSort())); Name.declare('trial', ('ts', IntSort()), ('tid', IntSort())); Name.declare('bad', ('raw', IntSort())); Name = Name.create()
Str = DeclareSort('Str'); Meas = DeclareSort('Measurement'); TS = DeclareSort('Timestamp'); Params = DeclareSort('Params'); Spec = DeclareSort('StudySpec')
TRIAL_FIELDS = [('name', Name), ('id', Str), ('state', IntSort()), ('parameters', Params), ('has_final_measurement', BoolSort()), ('final_measurement', Meas),
                ('measurements__len', IntSort()), ('measurements__arr', ArraySort(IntSort(), Meas)), ('start_time', TS), ('end_time', TS),
                ('client_id', Str), ('infeasible_reason', Str), ('metadata', Params)]
TrialDT = Datatype('Trial'); TrialDT.declare('mk', *TRIAL_FIELDS); TrialDT = TrialDT.create()
OptTrial = Datatype('OptTrial'); OptTrial.declare('none'); OptTrial.declare('some', ('v', TrialDT)); OptTrial = OptTrial.create()
STUDY_FIELDS = [('name', Name), ('display_name', Str), ('study_spec', Spec), ('state', IntSort())]
StudyDT = Datatype('Study'); StudyDT.declare('mk', *STUDY_FIELDS); StudyDT = StudyDT.create()
OptStudy = Datatype('OptStudy'); OptStudy.declare('none'); OptStudy.declare('some', ('v', StudyDT)); OptStudy = OptStudy.create()
metrics_len = Function('metrics_len', Meas, IntSort())

def unpack_trial(t):
    f = {n: getattr(TrialDT, n)(t) for n, _ in TRIAL_FIELDS}
    f['measurements'] = ArrList(f.pop('measurements__len'), f.pop('measurements__arr'))
    return Rec('Trial', f)
def pack_trial(r):
    f = dict(r.f); m = f.pop('measurements'); f['measurements__len'], f['measurements__arr'] = m.n, m.arr
    return TrialDT.mk(*[unwrap(f[n]) for n, _ in TRIAL_FIELDS])
def unpack_study(t): return Rec('Study', {n: getattr(StudyDT, n)(t) for n, _ in STUDY_FIELDS})
def pack_study(r): return StudyDT.mk(*[unwrap(r.f[n]) for n, _ in STUDY_FIELDS])
def unwrap(v): return v.term if isinstance(v, Opaque) else v

ENUMS = {'study_pb2.Trial.State': dict(STATE_UNSPECIFIED=0, REQUESTED=1, ACTIVE=2, STOPPING=3, SUCCEEDED=4, INFEASIBLE=5),
         'study_pb2.Study.State': dict(STATE_UNSPECIFIED=0, ACTIVE=1, INACTIVE=2, COMPLETED=3)}
ENUMS['study_pb2.Trial'] = ENUMS['study_pb2.Trial.State']; ENUMS['study_pb2.Study'] = ENUMS['study_pb2.Study.State']

# ----------------------------------------------------------------------------- executor
class Run:
    def __init__(self, decisions):
        self.decisions, self.cursor, self.pending = list(decisions), 0, []
        self.pc, self.events, self.fresh_n = [], [], 0
        self.solver = Solver(); self.solver.set('timeout', 2000)
        self.D = {'trial': Const('D_trial', ArraySort(Name, OptTrial)), 'study': Const('D_study', ArraySort(Name, OptStudy))}
        self.D0 = dict(self.D); self.locks = []
        self.inv_keys = set()
    def fresh(self, base, sort):
        self.fresh_n += 1; return Const('%s!%d' % (base, self.fresh_n), sort)
    def assume(self, c): self.pc.append(c); self.solver.add(c)
    def inst_inv(self, n):
        """Instantiate Inv(D0) at key n (trial and study maps)."""
        key = n.sexpr()
        if key in self.inv_keys: return
        self.inv_keys.add(key); T, St = self.D0['trial'], self.D0['study']
        self.assume(Implies(OptTrial.is_some(T[n]), And(Name.is_trial(n), TrialDT.name(OptTrial.v(T[n])) == n)))
        self.assume(Implies(OptStudy.is_some(St[n]), And(Name.is_study(n), StudyDT.name(OptStudy.v(St[n])) == n)))
    def feasible(self, c):
        self.solver.push(); self.solver.add(c); r = self.solver.check(); self.solver.pop(); return r != unsat
    def choose(self, cond):
        """Branch on a z3 Bool; returns python bool."""
        cond = simplify(cond)
        if is_true(cond): return True
        if is_false(cond): return False
        t, f = self.feasible(cond), self.feasible(Not(cond))
        if t and not f: self.assume(cond); return True
        if f and not t: self.assume(Not(cond)); return False
        if not t and not f: raise Unsupported('infeasible path')
        if self.cursor < len(self.decisions): d = self.decisions[self.cursor]
        else:
            d = True; self.decisions.append(True); self.pending.append(self.decisions[:-1] + [False])
        self.cursor += 1
        self.assume(cond if d else Not(cond)); return d

def truth(run, v):
    if isinstance(v, bool): return v
    if v is None: return False
    if isinstance(v, (int, str, tuple, list)): return bool(v)
    if isinstance(v, ArrList): return run.choose(v.n > 0)
    if is_expr(v):
        if is_bool(v): return run.choose(v)
        if is_int(v): return run.choose(v != 0)
    if isinstance(v, Opaque) and v.term.sort() == Meas: raise Unsupported('truth of Measurement')
    raise Unsupported('truth of %r' % (v,))

class Frame:
    def __init__(self, mod, env): self.mod, self.env = mod, env

class Interp:
    def __init__(self, run): self.run = run
    # ---- name resolution
    def lookup(self, fr, name):
        if name in fr.env: return fr.env[name]
        m = fr.mod
        if name in m.funcs: return Bound(None, m.funcs[name], None) if False else ('func', m, m.funcs[name])
        if name in m.classes: return m.classes[name]
        if name in m.assigns: return self.eval(Frame(m, {}), m.assigns[name])
        if name in m.imports: return self.modref(m.imports[name])
        if name in BUILTINS: return BUILTINS[name]
        if name in BUILTIN_EXC_BASES: return name
        raise Unsupported('name %s' % name)
    def modref(self, dotted):
        if dotted.startswith('vizier.') and os.path.exists(os.path.join(REPO, dotted.replace('.', '/') + '.py')) and not dotted.endswith('_pb2'):
            return ModRef(dotted)
        return ModRef(dotted)
    # ---- expressions
    def eval(self, fr, e):
        run = self.run
        if isinstance(e, ast.Constant): return e.value
        if isinstance(e, ast.Name): return self.lookup(fr, e.id)
        if isinstance(e, ast.Tuple): return tuple(self.eval(fr, x) for x in e.elts)
        if isinstance(e, ast.List): return [self.eval(fr, x) for x in e.elts]
        if isinstance(e, ast.JoinedStr):
            for v in e.values:
                if isinstance(v, ast.FormattedValue): self.eval(fr, v.value)
            return Opaque(run.fresh('fstr', Str))
        if isinstance(e, ast.Attribute): return self.getattr(fr, self.eval(fr, e.value), e.attr)
        if isinstance(e, ast.Subscript):
            base = self.eval(fr, e.value)
            if isinstance(e.slice, ast.UnaryOp) and isinstance(e.slice.op, ast.USub): idx = -self.eval(fr, e.slice.operand)
            else: idx = self.eval(fr, e.slice)
            return self.subscript(base, idx)
        if isinstance(e, ast.Call): return self.call(fr, e)
        if isinstance(e, ast.UnaryOp) and isinstance(e.op, ast.Not): return not truth(run, self.eval(fr, e.operand))
        if isinstance(e, ast.BoolOp):
            if isinstance(e.op, ast.And):
                v = True
                for x in e.values:
                    v = self.eval(fr, x)
                    if not truth(run, v): return v
                return v
            else:
                v = False
                for x in e.values:
                    v = self.eval(fr, x)
                    if truth(run, v): return v
                return v
        if isinstance(e, ast.Compare):
            left = self.eval(fr, e.left); res = True
            for op, rhs in zip(e.ops, e.comparators):
                right = self.eval(fr, rhs); c = self.compare(op, left, right)
                if not truth(run, c): return False
                left = right
            return True
        if isinstance(e, ast.BinOp):
            l, r = unwrap(self.eval(fr, e.left)), unwrap(self.eval(fr, e.right))
            if isinstance(e.op, ast.Add): return l + r
            if isinstance(e.op, ast.Sub): return l - r
        raise Unsupported('expr %s' % ast.dump(e)[:80])
    def compare(self, op, l, r):
        l, r = unwrap(l), unwrap(r)
        if isinstance(op, (ast.In, ast.NotIn)):
            c = Or([self.eq(l, unwrap(x)) for x in r]) if len(r) else BoolVal(False)
            return Not(c) if isinstance(op, ast.NotIn) else c
        if isinstance(op, ast.Eq): return self.eq(l, r)
        if isinstance(op, ast.NotEq): return Not(self.eq(l, r))
        if isinstance(op, ast.Is): return l is r
        if isinstance(op, ast.IsNot): return l is not r
        raise Unsupported('compare')
    def eq(self, l, r):
        if is_expr(l) or is_expr(r): return l == r
        return BoolVal(l == r)
    def subscript(self, base, idx):
        if isinstance(base, LockTable): return ('lock', base.name, unwrap(idx))
        if isinstance(base, ArrList):
            if isinstance(idx, int) and idx < 0:
                if not self.run.choose(base.n >= -idx): raise PyRaise(Exc('IndexError'))
                return Opaque(base.arr[base.n + idx])
        raise Unsupported('subscript %r' % (base,))
    def getattr(self, fr, v, a):
        if isinstance(v, ModRef):
            full = v.dotted + '.' + a; short = '.'.join(full.split('.')[-3:]) if False else None
            key = '.'.join(full.split('.')[3:]) if full.startswith('vizier._src.service.') else full
            for en in ENUMS:
                if key == en: return ModRef(full)
                if key.startswith(en + '.') and key[len(en) + 1:] in ENUMS[en]: return ENUMS[en][key[len(en) + 1:]]
            if key in ('study_pb2.Trial.State.Name',): return Builtin('State.Name', lambda it, args, kw: Opaque(it.run.fresh('enumname', Str)))
            if full == 'grpc.RpcError': return 'grpc.RpcError'
            if full.startswith('grpc.StatusCode.'): return a
            if full.startswith('absl.logging.') or full.startswith('logging.'): return Builtin('log', lambda it, args, kw: None)
            try:
                m = ModuleInfo.get(v.dotted)
                if a in m.classes: return m.classes[a]
                if a in m.funcs: return ('func', m, m.funcs[a])
            except FileNotFoundError: pass
            return ModRef(full)
        if isinstance(v, Rec):
            if a in v.f: return v.f[a]
            if a == 'CopyFrom': raise Unsupported('CopyFrom on whole message')
            if a in ENUMS.get('study_pb2.' + v.schema, {}): return ENUMS['study_pb2.' + v.schema][a]
            raise Unsupported('field %s.%s' % (v.schema, a))
        if isinstance(v, SubMsg):
            if a == 'CopyFrom': return Builtin('CopyFrom', lambda it, args, kw: v.set(unwrap(args[0])))
            if a == 'metrics': return ArrList(metrics_len(v.get()), None)
        if isinstance(v, Opaque) and v.term.sort() == Meas and a == 'metrics': return ArrList(metrics_len(v.term), None)
        if isinstance(v, ArrList) and a == 'extend':
            def ext(it, args, kw, v=v):
                for x in args[0]: v.arr = Store(v.arr, v.n, unwrap(x)); v.n = v.n + 1
            return Builtin('extend', ext)
        if isinstance(v, Obj):
            if a in v.attrs: return v.attrs[a]
            c = v.cls
            if isinstance(c, ClassInfo):
                if a in c.methods: return Bound(v, c.methods[a], c)
                if a in c.assigns: return self.eval(Frame(c.mod, {}), c.assigns[a])
            raise Unsupported('attr %s of %r' % (a, v.cls))
        if isinstance(v, ClassInfo):
            if a in v.methods: return Bound(v, v.methods[a], v)
        if isinstance(v, DatastoreRef): return Builtin('ds.' + a, getattr(v, a))
        raise Unsupported('getattr %r.%s' % (v, a))
    # ---- calls
    def call(self, fr, e):
        if isinstance(e.func, ast.Attribute) and e.func.attr == 'format':
            for a in e.args: self.eval(fr, a)
            return Opaque(self.run.fresh('fmt', Str))
        f = self.eval(fr, e.func)
        args = [self.eval(fr, a) for a in e.args]; kw = {k.arg: self.eval(fr, k.value) for k in e.keywords}
        if isinstance(f, Builtin): return f.fn(self, args, kw)
        if isinstance(f, Bound):
            if isinstance(f.obj, ClassInfo): return self.invoke(f.cls.mod, f.fn, [f.obj] + args, kw)   # classmethod
            return self.invoke(f.cls.mod, f.fn, [f.obj] + args, kw)
        if isinstance(f, tuple) and f[0] == 'func': return self.invoke(f[1], f[2], args, kw)
        if isinstance(f, ClassInfo):
            if is_subclass(f, ['Exception', 'BaseException']): return Exc(f, {'args': tuple(args)})
            o = Obj(f)
            if '__init__' in f.methods: self.invoke(f.mod, f.methods['__init__'], [o] + args, kw)
            return o
        if isinstance(f, str) and f in BUILTIN_EXC_BASES: return Exc(f, {'args': tuple(args)})
        raise Unsupported('call %s' % ast.unparse(e.func))
    def invoke(self, mod, fn, args, kw):
        params = [a.arg for a in fn.args.args]; env = {}
        defaults = fn.args.defaults; nd = len(defaults)
        for i, p in enumerate(params):
            if i < len(args): env[p] = args[i]
            elif p in kw: env[p] = kw[p]
            else:
                j = i - (len(params) - nd)
                if j < 0: raise Unsupported('missing arg %s of %s' % (p, fn.name))
                env[p] = self.eval(Frame(mod, {}), defaults[j])
        fr = Frame(mod, env)
        try: self.block(fr, fn.body)
        except PyReturn as r: return r.v
        return None
    # ---- statements
    def block(self, fr, stmts):
        for s in stmts: self.stmt(fr, s)
    def stmt(self, fr, s):
        run = self.run
        if isinstance(s, ast.Expr):
            if isinstance(s.value, ast.Constant): return
            self.eval(fr, s.value); return
        if isinstance(s, ast.Assign):
            v = self.eval(fr, s.value)
            for t in s.targets: self.assign(fr, t, v)
            return
        if isinstance(s, ast.AnnAssign):
            if s.value is not None: self.assign(fr, s.target, self.eval(fr, s.value))
            return
        if isinstance(s, ast.If):
            self.block(fr, s.body if truth(run, self.eval(fr, s.test)) else s.orelse); return
        if isinstance(s, ast.Return): raise PyReturn(self.eval(fr, s.value) if s.value else None)
        if isinstance(s, ast.Raise): raise PyRaise(self.eval(fr, s.exc))
        if isinstance(s, ast.With):
            lk = self.eval(fr, s.items[0].context_expr)
            assert isinstance(lk, tuple) and lk[0] == 'lock', lk
            run.events.append(('acq',) + lk[1:]); run.locks.append(lk[1:])
            try: self.block(fr, s.body)
            finally: run.locks.pop(); run.events.append(('rel',) + lk[1:])
            return
        if isinstance(s, ast.Try):
            try: self.block(fr, s.body)
            except PyRaise as pr:
                for h in s.handlers:
                    names = [ast.unparse(h.type).split('.')[-1]] if not isinstance(h.type, ast.Tuple) else [ast.unparse(x).split('.')[-1] for x in h.type.elts]
                    if is_subclass(pr.exc.cls, names):
                        if h.name: fr.env[h.name] = pr.exc
                        self.block(fr, h.body); return
                raise
            return
        if isinstance(s, ast.Pass): return
        raise Unsupported('stmt %s' % type(s).__name__)
    def assign(self, fr, t, v):
        if isinstance(t, ast.Name): fr.env[t.id] = v; return
        if isinstance(t, ast.Attribute):
            o = self.eval(fr, t.value)
            if isinstance(o, Rec): o.f[t.attr] = unwrap(v) if not isinstance(v, ArrList) else v; return
            if isinstance(o, Obj): o.attrs[t.attr] = v; return
        raise Unsupported('assign target %s' % ast.unparse(t))

class SubMsg:   # view of a message-typed field of a Rec (presence + value)
    def __init__(self, rec, field): self.rec, self.field = rec, field
    def get(self): return self.rec.f[self.field]
    def set(self, v): self.rec.f[self.field] = v; self.rec.f['has_' + self.field] = BoolVal(True)

class LockTable:
    def __init__(self, name): self.name = name

# datastore contracts (Appendix A, the three methods these RPCs use) ------------------------
class DatastoreRef:
    def load_study(self, it, args, kw):
        run = it.run; n = unwrap(args[0]); run.inst_inv(n); run.events.append(('ds', 'load_study', tuple(run.locks)))
        if run.choose(And(Name.is_study(n), OptStudy.is_some(run.D['study'][n]))): return unpack_study(OptStudy.v(run.D['study'][n]))
        raise PyRaise(Exc(ModuleInfo.get('vizier._src.service.custom_errors').classes['NotFoundError']))
    def get_trial(self, it, args, kw):
        run = it.run; n = unwrap(args[0]); run.inst_inv(n); run.events.append(('ds', 'get_trial', tuple(run.locks)))
        if run.choose(And(Name.is_trial(n), OptTrial.is_some(run.D['trial'][n]))):
            r = unpack_trial(OptTrial.v(run.D['trial'][n]))
            for f in ('final_measurement',): pass
            return TrialView(r)
        raise PyRaise(Exc(ModuleInfo.get('vizier._src.service.custom_errors').classes['NotFoundError']))
    def update_trial(self, it, args, kw):
        run = it.run; t = args[0]; n = t.f['name']; run.inst_inv(n); run.events.append(('ds', 'update_trial', tuple(run.locks)))
        if run.choose(OptTrial.is_some(run.D['trial'][n])):
            run.D['trial'] = Store(run.D['trial'], n, OptTrial.some(pack_trial(t))); return None
        raise PyRaise(Exc(ModuleInfo.get('vizier._src.service.custom_errors').classes['NotFoundError']))

class TrialView(Rec):   # Trial Rec whose message-typed field is accessed through SubMsg
    def __init__(self, r): Rec.__init__(self, r.schema, r.f)
_orig_getattr = Interp.getattr
def _getattr(self, fr, v, a):
    if isinstance(v, TrialView) and a == 'final_measurement': return SubMsg(v, 'final_measurement')
    if isinstance(v, TrialView) and a == 'measurements': return v.f['measurements']
    return _orig_getattr(self, fr, v, a)
Interp.getattr = _getattr

def b_isinstance(it, args, kw):
    o, cs = args; cs = cs if isinstance(cs, tuple) else (cs,)
    if isinstance(o, Obj): return is_subclass(o.cls, [class_name(c) for c in cs])
    raise Unsupported('isinstance %r' % (o,))
BUILTINS = {'isinstance': Builtin('isinstance', b_isinstance), 'str': Builtin('str', lambda it, a, k: Opaque(it.run.fresh('str', Str))),
            'len': Builtin('len', lambda it, a, k: a[0].n)}

# resources: contract-level model of names (assumption: canonical names, DESIGN §4.3) ---------
class TrialResourceModel:
    @staticmethod
    def from_name(it, args, kw):
        n = unwrap(args[0])
        if it.run.choose(Name.is_trial(n)): return Obj('TrialResource', {'study_resource': Obj('StudyResource', {'name': Name.study(Name.ts(n))})})
        raise PyRaise(Exc('ValueError'))

def explore(modname, clsname, meth, make_args):
    mod = ModuleInfo.get(modname); cls = mod.classes[clsname]; fn = cls.methods[meth]
    results, todo = [], [[]]
    while todo:
        dec = todo.pop(); run = Run(dec); it = Interp(run)
        selfobj = Obj(cls, {'datastore': DatastoreRef(), '_study_name_to_lock': LockTable('study'), '_operation_lock': LockTable('op'), '_owner_name_to_lock': LockTable('owner')})
        args = make_args(run)
        env_patch = {'TrialResource': Obj('TR', {}),}
        try:
            # patch: resources via contract model
            mod.cache_patch = True
            fr_env = dict(self=selfobj, context=None, **args)
            fr = Frame(mod, fr_env)
            fr.env['TrialResource'] = type('X', (), {})  # placeholder, replaced below
            fr.env['TrialResource'] = ResourceNS()
            try: it.block(fr, fn.body); out = ('return', None)
            except PyReturn as r: out = ('return', r.v)
            except PyRaise as r: out = ('raise', r.exc)
            results.append((run, out, args))
        except Unsupported as u:
            results.append((run, ('unsupported', str(u)), args))
        todo.extend(run.pending)
    return results

class ResourceNS:  # stands for the class object `TrialResource` in the servicer module's namespace
    pass
_g2 = Interp.getattr
def _getattr2(self, fr, v, a):
    if isinstance(v, ResourceNS) and a == 'from_name': return Builtin('TrialResource.from_name', TrialResourceModel.from_name)
    if isinstance(v, Obj) and isinstance(v.cls, str) and a in v.attrs: return v.attrs[a]
    return _g2(self, fr, v, a)
Interp.getattr = _getattr2

# ----------------------------------------------------------------------------- obligations
S = ENUMS['study_pb2.Trial.State']
def describe(out):
    if out[0] == 'raise':
        e = out[1]; code = e.attrs.get('_code') if isinstance(e, Obj) else None
        return 'raise %s%s' % (class_name(e.cls), ('(%s)' % code) if code else '')
    return out[0] if out[0] != 'unsupported' else 'UNSUPPORTED: ' + out[1]

def check_rpc(meth, make_args, name_of, obligations):
    t0 = time.time(); res = explore('vizier._src.service.vizier_service', 'VizierServicer', meth, make_args)
    nob = 0; bad = []
    for run, out, args in res:
        k = name_of(args); D0, D1 = run.D0, run.D
        old = OptTrial.v(D0['trial'][k]); present = And(Name.is_trial(k), OptTrial.is_some(D0['trial'][k]))
        for oname, ob in obligations(run, out, args, k, D0, D1, old, present):
            s = Solver(); s.set('timeout', 10000); s.add(run.pc); s.add(Not(ob)); r = s.check(); nob += 1
            if r != unsat: bad.append((oname, describe(out), r, s.model() if r == sat else None))
    print('%-22s paths=%d obligations=%d failed=%d  %.2fs' % (meth, len(res), nob, len(bad), time.time() - t0))
    for run, out, args in res: print('    path: %-40s events=%s' % (describe(out), [e[:2] + (('locked' if e[2] else 'UNLOCKED'),) if e[0] == 'ds' else e[:2] for e in run.events]))
    for b in bad[:3]: print('    FAILED', b[0], 'on', b[1], b[2], ('state=%s' % b[3].eval(TrialDT.state(OptTrial.v(b[3].eval(Const('D_trial', ArraySort(Name, OptTrial)))[Const('req_name', Name)])) ) if False else ''))
    return res, bad

def generic_obligations(run, out, args, k, D0, D1, old, present):
    j = Const('j', Name); obs = []
    obs.append(('frame', ForAll([j], Implies(j != k, D1['trial'][j] == D0['trial'][j]))))
    obs.append(('study_untouched', D1['study'] == D0['study']))
    completed = And(present, Or(TrialDT.state(old) == S['SUCCEEDED'], TrialDT.state(old) == S['INFEASIBLE']))
    obs.append(('completed_immutable', Implies(completed, D1['trial'] == D0['trial'])))
    new = OptTrial.v(D1['trial'][k])
    obs.append(('params_unchanged', Implies(And(present, OptTrial.is_some(D1['trial'][k])), TrialDT.parameters(new) == TrialDT.parameters(old))))
    legal = Or(D1['trial'][k] == D0['trial'][k],
               And(TrialDT.state(old) == S['ACTIVE'], Or(TrialDT.state(new) == S['STOPPING'], TrialDT.state(new) == S['SUCCEEDED'], TrialDT.state(new) == S['INFEASIBLE'], TrialDT.state(new) == S['ACTIVE'])),
               And(TrialDT.state(old) == S['STOPPING'], Or(TrialDT.state(new) == S['SUCCEEDED'], TrialDT.state(new) == S['INFEASIBLE'], TrialDT.state(new) == S['STOPPING'])))
    obs.append(('legal_transition', Implies(present, legal)))
    if out[0] == 'raise': obs.append(('error_leaves_data_unchanged', And(D1['trial'] == D0['trial'], D1['study'] == D0['study'])))
    sk = Name.study(Name.ts(k)); st = StudyDT.state(OptStudy.v(D0['study'][sk]))
    immutable = And(Name.is_trial(k), OptStudy.is_some(D0['study'][sk]), st != 1, st != 0)
    if out[0] == 'return': obs.append(('immutable_study_must_fail', Not(immutable)))
    # RMW under the study lock (C04): get_trial and update_trial events both carry a lock
    ds = [e for e in run.events if e[0] == 'ds' and e[1] in ('get_trial', 'update_trial')]
    if any(e[1] == 'update_trial' for e in ds): obs.append(('rmw_under_lock', BoolVal(all(('study',) == l[:1] for e in ds for l in [e[2][0] if e[2] else ('none',)]))))
    return obs

if __name__ == '__main__':
    def stop_args(run): return {'request': Rec('StopTrialRequest', {'name': Const('req_name', Name)})}
    def complete_args(run):
        return {'request': Rec('CompleteTrialRequest', {'name': Const('req_name', Name), 'final_measurement': Opaque(Const('req_fm', Meas)),
                'trial_infeasible': Bool('req_infeasible'), 'infeasible_reason': Const('req_reason', Str)})}
    def add_args(run):
        return {'request': Rec('AddTrialMeasurementRequest', {'trial_name': Const('req_name', Name), 'measurement': Opaque(Const('req_m', Meas))})}
    nm = lambda a: a['request'].f.get('name', a['request'].f.get('trial_name'))
    check_rpc('StopTrial', stop_args, nm, generic_obligations)
    check_rpc('CompleteTrial', complete_args, nm, generic_obligations)
    check_rpc('AddTrialMeasurement', add_args, nm, generic_obligations)
