import sys; sys.path.insert(0, '/tmp/probe')
import shim, traceback
import numpy as np
from vizier._src.service import vizier_service, vizier_service_pb2 as vs, study_pb2, key_value_pb2
from vizier.service import pyvizier as vz
from vizier import pythia
from vizier._src.pyvizier.shared import common
from vizier._src.pyvizier.oss import proto_converters as pc
def sec(t): print('\n==', t)
sec('1 namespace')
for tup in [('a\\',), ('a\\','b'), ('a:b',), ('',), ('\\',)]:
    ns = common.Namespace(tup); print(tup, repr(ns.encode()), tuple(common.Namespace.decode(ns.encode())) == tup)
sec('2 default 0.0')
ss = vz.SearchSpace(); ss.root.add_float_param('x', -1.0, 1.0, default_value=0.0)
p = ss.get('x'); q = pc.ParameterConfigConverter.from_proto(pc.ParameterConfigConverter.to_proto(p)); print(p.default_value, q.default_value)
sec('3 elapsed 1.5')
m = vz.Measurement({'a':1.0}, elapsed_secs=1.5); print(pc.MeasurementConverter.from_proto(pc.MeasurementConverter.to_proto(m)).elapsed_secs)
sec('4 grandchild')
ss = vz.SearchSpace(); r = ss.root; r.add_categorical_param('m', ['a','b'])
c = r.select('m', ['a']); c.add_int_param('k', 1, 3); g = c.select('k', [2]); g.add_float_param('lr', 0.0, 1.0)
P = ss.get('m'); Q = pc.ParameterConfigConverter.from_proto(pc.ParameterConfigConverter.to_proto(P))
names = lambda pcfg: [x.name for x in pcfg.traverse()]
print(names(P), names(Q))
def mkstudy(s, algo='RANDOM_SEARCH', name='s'):
    sc = vz.StudyConfig(algorithm=algo)
    sc.search_space.root.add_float_param('w', 0.0, 5.0)
    sc.metric_information.append(vz.MetricInformation('m', goal=vz.ObjectiveMetricGoal.MAXIMIZE))
    return s.CreateStudy(vs.CreateStudyRequest(parent='owners/o', study=study_pb2.Study(display_name=name, study_spec=sc.to_proto())))
sec('5 RAM/SQL update_metadata naming a missing trial')
for url in (None, 'sqlite:///:memory:'):
    s = vizier_service.VizierServicer(database_url=url); st = mkstudy(s)
    req = vs.UpdateMetadataRequest(name=st.name)
    req.delta.add(metadatum=key_value_pb2.KeyValue(key='k', ns='', value='v'))
    req.delta.add(trial_id='7', metadatum=key_value_pb2.KeyValue(key='k', ns='', value='v'))
    try: resp = s.UpdateMetadata(req); print(url, 'resp', repr(resp.error_details))
    except Exception as e: print(url, 'raised', type(e).__name__, e)
    print(url, 'study metadata after failed update:', [(kv.key, kv.value) for kv in s.GetStudy(vs.GetStudyRequest(name=st.name)).study_spec.metadata])
    req = vs.UpdateMetadataRequest(name=st.name)
    req.delta.add(metadatum=key_value_pb2.KeyValue(key='k2', ns='', value='v'))
    req.delta.add(trial_id='0', metadatum=key_value_pb2.KeyValue(key='k', ns='', value='v'))
    try: resp = s.UpdateMetadata(req); print(url, 'resp', repr(resp.error_details))
    except Exception as e: print(url, 'raised', type(e).__name__, e)
    s.SetStudyState(vs.SetStudyStateRequest(parent=st.name, state=study_pb2.Study.ACTIVE))
    print(url, 'study metadata after id-0 update + another commit:', [(kv.key, kv.value) for kv in s.GetStudy(vs.GetStudyRequest(name=st.name)).study_spec.metadata])
sec('6/7 failing / short policy')
class Fac(pythia.PolicyFactory):
    def __init__(self, mode): self.mode = mode
    def __call__(self, problem, algorithm, supporter, study_name):
        mode = self.mode
        class Pol(pythia.Policy):
            def suggest(self, request):
                if mode == 'raise': raise ValueError('boom')
                n = {'short': request.count - 1, 'over': request.count + 2}[mode]
                return pythia.SuggestDecision([vz.TrialSuggestion({'w': 1.0}) for _ in range(n)])
            def early_stop(self, request): raise ValueError('boom')
        return Pol()
from vizier._src.service import pythia_service
for mode in ('raise', 'short', 'over'):
    s = vizier_service.VizierServicer(database_url=None)
    s.default_pythia_service = pythia_service.PythiaServicer(s, Fac(mode)); st = mkstudy(s)
    for k in range(2):
        try:
            op = s.SuggestTrials(vs.SuggestTrialsRequest(parent=st.name, suggestion_count=2, client_id='c'))
            print(mode, k, 'op', op.name, 'done', op.done, 'error', op.error.message[:60])
        except Exception as e: print(mode, k, 'raised', type(e).__name__, str(e)[:80])
    print(mode, 'trials', [(t.id, study_pb2.Trial.State.Name(t.state), t.client_id) for t in s.ListTrials(vs.ListTrialsRequest(parent=st.name)).trials])
sec('8 fast pareto ties')
from vizier._src.pyvizier.multimetric import pareto_optimal as po
pts = np.array([[1.,5.],[1.,3.]])
print(po.NaiveParetoOptimalAlgorithm().is_pareto_optimal(pts), po.FastParetoOptimalAlgorithm(recursive_threshold=1).is_pareto_optimal(pts))
sec('9 contains inf')
ss = vz.SearchSpace(); ss.root.add_int_param('i', 0, 3)
for v in (float('inf'), float('nan'), 2.0, 2.5, '2', True, 2**53+1):
    try: print(repr(v), ss.get('i').contains(v))
    except Exception as e: print(repr(v), 'raised', type(e).__name__, e)
sec('10 shuffled grid')
s = vizier_service.VizierServicer(database_url=None); st = mkstudy(s, 'SHUFFLED_GRID_SEARCH')
try:
    op = s.SuggestTrials(vs.SuggestTrialsRequest(parent=st.name, suggestion_count=1, client_id='c')); print('done', op.done, op.error.message[:100])
except Exception as e: print('raised', type(e).__name__, str(e)[:160])
sec('11 delete+recreate op numbering')
for url in (None, 'sqlite:///:memory:'):
    s = vizier_service.VizierServicer(database_url=url); st = mkstudy(s)
    op = s.SuggestTrials(vs.SuggestTrialsRequest(parent=st.name, suggestion_count=1, client_id='c'))
    s.DeleteStudy(vs.DeleteStudyRequest(name=st.name)); st = mkstudy(s)
    op2 = s.SuggestTrials(vs.SuggestTrialsRequest(parent=st.name, suggestion_count=1, client_id='c'))
    print(url, op.name, '->', op2.name, [t.id for t in vs.SuggestTrialsResponse.FromString(op2.response.value).trials])
sec('12 NaN objective optimal')
s = vizier_service.VizierServicer(database_url=None); st = mkstudy(s)
for val in (1.0, float('nan')):
    t = s.CreateTrial(vs.CreateTrialRequest(parent=st.name, trial=study_pb2.Trial(state=study_pb2.Trial.SUCCEEDED, final_measurement=study_pb2.Measurement(metrics=[study_pb2.Measurement.Metric(metric_id='m', value=val)]))))
print([ (t.id, t.final_measurement.metrics[0].value) for t in s.ListOptimalTrials(vs.ListOptimalTrialsRequest(parent=st.name)).optimal_trials])
