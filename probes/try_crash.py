"""Probe P17: kill the server process right after SuggestTrials committed its not-done operation; restart on the same SQLite file (finding 15)."""
import sys, os, subprocess; sys.path.insert(0, '/tmp/probe')
DB = 'sqlite:////tmp/probe/crash/v.db'
if len(sys.argv) > 1 and sys.argv[1] == 'child':
    import shim
    from vizier._src.service import vizier_service, vizier_service_pb2 as vs, study_pb2
    from vizier.service import pyvizier as vz
    s = vizier_service.VizierServicer(database_url=DB)
    sc = vz.StudyConfig(algorithm='RANDOM_SEARCH'); sc.search_space.root.add_float_param('w', 0.0, 1.0)
    sc.metric_information.append(vz.MetricInformation('m', goal=vz.ObjectiveMetricGoal.MAXIMIZE))
    st = s.CreateStudy(vs.CreateStudyRequest(parent='owners/o', study=study_pb2.Study(display_name='s', study_spec=sc.to_proto())))
    real = s.datastore.create_suggestion_operation
    def crash_after(op):
        r = real(op); sys.stdout.write('child: operation committed, dying now\n'); sys.stdout.flush(); os._exit(9)
    s.datastore.create_suggestion_operation = crash_after
    s.SuggestTrials(vs.SuggestTrialsRequest(parent=st.name, suggestion_count=1, client_id='c'))
else:
    if os.path.exists('/tmp/probe/crash/v.db'): os.remove('/tmp/probe/crash/v.db')
    p = subprocess.run([sys.executable, __file__, 'child'], capture_output=True, text=True, cwd='/repo'); print([l for l in p.stdout.splitlines() if l.startswith('child')], 'exit', p.returncode)
    import shim
    from vizier._src.service import vizier_service, vizier_service_pb2 as vs, study_pb2
    s = vizier_service.VizierServicer(database_url=DB)   # restarted server on the same file
    name = 'owners/o/studies/s'
    print('after restart: study readable:', s.GetStudy(vs.GetStudyRequest(name=name)).display_name, '| trials:', len(s.ListTrials(vs.ListTrialsRequest(parent=name)).trials))
    for k in range(2):
        op = s.SuggestTrials(vs.SuggestTrialsRequest(parent=name, suggestion_count=1, client_id='c')); print('  same client suggests again -> op', op.name, 'done =', op.done)
    op = s.SuggestTrials(vs.SuggestTrialsRequest(parent=name, suggestion_count=1, client_id='other')); print('  another client            -> op', op.name, 'done =', op.done)
