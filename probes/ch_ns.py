from typing import Tuple
from vizier._src.pyvizier.shared import common
def roundtrip(a: str, b: str) -> bool:
    """
    post: __return__
    """
    ns = common.Namespace((a, b))
    return tuple(common.Namespace.decode(ns.encode())) == (a, b)
