import time
from z3 import *
# Sorts generated (by hand here) from study.proto
Meas = DeclareSort('Measurement')
Trial = Datatype('Trial')
Trial.declare('mk', ('id', IntSort()), ('state', IntSort()), ('client', StringSort()), ('has_final', BoolSort()),
              ('final', Meas), ('nmeas', IntSort()), ('meas', ArraySort(IntSort(), Meas)), ('params', IntSort()), ('infeasible_reason', StringSort()))
Trial = Trial.create()
OptT = Datatype('OptT'); OptT.declare('none'); OptT.declare('some', ('v', Trial)); OptT = OptT.create()
Key = IntSort()   # (study,id) abstracted to trial id within one study for the probe
D = Const('D', ArraySort(Key, OptT))
REQ, ACT, STOPPING, SUCC, INF = 1, 2, 3, 4, 5
metrics_nonempty = Function('metrics_nonempty', Meas, BoolSort())
# CompleteTrial(request: name->k, final_measurement fm, trial_infeasible ti, reason r), study mutable
k = Int('k'); fm = Const('fm', Meas); ti = Bool('ti'); r = String('r')
t = OptT.v(D[k])
def sym_exec():
    """Hand-transcribed paths of CompleteTrial -> list of (path_cond, outcome, D')"""
    paths = []
    present = OptT.is_some(D[k])
    paths.append((Not(present), 'NotFound', D))
    mutable = Or(Trial.state(t) == ACT, Trial.state(t) == STOPPING)
    paths.append((And(present, Not(mutable)), 'FAILED_PRECONDITION', D))
    base = And(present, mutable)
    def upd(state, has_final, final, reason):
        return Trial.mk(Trial.id(t), state, Trial.client(t), has_final, final, Trial.nmeas(t), Trial.meas(t), Trial.params(t), reason)
    last = Trial.meas(t)[Trial.nmeas(t) - 1]
    # branch 1: request has metrics
    for cond, hf, fin in [(metrics_nonempty(fm), BoolVal(True), fm),
                          (And(Not(metrics_nonempty(fm)), Not(ti), Trial.nmeas(t) > 0), BoolVal(True), last),
                          (And(Not(metrics_nonempty(fm)), ti), Trial.has_final(t), Trial.final(t))]:
        st = If(ti, INF, SUCC); rs = If(ti, r, Trial.infeasible_reason(t))
        t2 = upd(st, hf, fin, rs)
        paths.append((And(base, cond), ('OK', t2), Store(D, k, OptT.some(t2))))
    paths.append((And(base, Not(metrics_nonempty(fm)), Not(ti), Trial.nmeas(t) <= 0), 'UNKNOWN', D))
    return paths
paths = sym_exec()
s = Solver()
t0 = time.time(); n = 0
for pc, out, D2 in paths:
    obligations = []
    # O1 frame: all other keys untouched
    j = Int('j'); obligations.append(('frame', ForAll([j], Implies(j != k, D2[j] == D[j]))))
    # O2 completed trials immutable
    obligations.append(('completed_immutable', Implies(And(OptT.is_some(D[k]), Or(Trial.state(t) == SUCC, Trial.state(t) == INF)), D2 == D)))
    # O3 params unchanged
    obligations.append(('params', Implies(And(OptT.is_some(D[k]), OptT.is_some(D2[k])), Trial.params(OptT.v(D2[k])) == Trial.params(t))))
    # O4 legal transition
    obligations.append(('legal', Implies(And(OptT.is_some(D[k]), OptT.is_some(D2[k]), D2[k] != D[k]),
                        And(Or(Trial.state(t) == ACT, Trial.state(t) == STOPPING), Or(Trial.state(OptT.v(D2[k])) == SUCC, Trial.state(OptT.v(D2[k])) == INF)))))
    if isinstance(out, str) and out != 'OK': obligations.append(('error_leaves_unchanged', D2 == D))
    for name, ob in obligations:
        s.push(); s.add(pc, Not(ob)); res = s.check(); s.pop(); n += 1
        assert res == unsat, (name, out, res)
    s.push(); s.add(pc); assert s.check() == sat; s.pop()   # path reachable (vacuity guard)
print('CompleteTrial: %d obligations unsat, %d paths reachable, %.2fs' % (n, len(paths), time.time() - t0))
# mutation: drop the mutable-state guard => completed_immutable must fail with a model
s.push(); present = OptT.is_some(D[k]); t2 = Trial.mk(Trial.id(t), SUCC, Trial.client(t), True, fm, Trial.nmeas(t), Trial.meas(t), Trial.params(t), Trial.infeasible_reason(t))
s.add(present, metrics_nonempty(fm), Not(ti), Not(Implies(Or(Trial.state(t) == SUCC, Trial.state(t) == INF), Store(D, k, OptT.some(t2)) == D)))
print('mutant (guard removed):', s.check(), 'state =', s.model().eval(Trial.state(t))); s.pop()

# Loop-invariant probe (SuggestTrials loop b) with array-list model
out = Array('out', IntSort(), Trial); nout = Int('nout'); reqs = Array('reqs', IntSort(), Trial); nreq = Int('nreq')
c = String('c'); count = Int('count'); i = Int('i')
Dl = Const('Dl', ArraySort(Key, OptT))
def inv(out, nout, nreq, Dl):
    return And(0 <= nout, 0 <= nreq,
               ForAll([i], Implies(And(0 <= i, i < nout), And(Trial.state(out[i]) == ACT, Trial.client(out[i]) == c, Dl[Trial.id(out[i])] == OptT.some(out[i])))),
               ForAll([i], Implies(And(0 <= i, i < nreq), And(Trial.state(reqs[i]) == REQ))),
               # requested trials have pairwise distinct ids, distinct from ids already in out
               ForAll([i, j], Implies(And(0 <= i, i < nreq, 0 <= j, j < nreq, i != j), Trial.id(reqs[i]) != Trial.id(reqs[j]))),
               ForAll([i, j], Implies(And(0 <= i, i < nreq, 0 <= j, j < nout), Trial.id(reqs[i]) != Trial.id(out[j]))))
a = reqs[nreq - 1]
a2 = Trial.mk(Trial.id(a), ACT, c, Trial.has_final(a), Trial.final(a), Trial.nmeas(a), Trial.meas(a), Trial.params(a), Trial.infeasible_reason(a))
body_pre = And(inv(out, nout, nreq, Dl), nreq > 0, count > nout)
post = inv(Store(out, nout, a2), nout + 1, nreq - 1, Store(Dl, Trial.id(a), OptT.some(a2)))
s2 = Solver(); s2.set('timeout', 30000); s2.add(body_pre, Not(post)); t0 = time.time(); print('loop-b invariant preservation:', s2.check(), '%.2fs' % (time.time() - t0))
