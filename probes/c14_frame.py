"""Probe P13: read-frame (ambient nondeterminism) closure for designer classes -- how noisy is name-based resolution?"""
import ast, os, sys, collections
ROOT = '/repo/vizier'
AMBIENT = {('time','time'),('time','time_ns'),('datetime','now'),('datetime','utcnow'),('uuid','uuid1'),('uuid','uuid4'),('os','urandom')}
NP_GLOBAL = {'rand','randn','randint','random','uniform','normal','choice','shuffle','permutation','seed','random_sample','binomial','lognormal'}
mods = {}
for dp, dn, fn in os.walk(ROOT):
    for f in fn:
        if f.endswith('.py') and not f.endswith('_test.py'):
            p = os.path.join(dp, f); mods[p] = ast.parse(open(p).read())
# index: classes -> methods, attr types from __init__ (self._x = Name(...) / mod.Name(...))
classes = {}; funcs = collections.defaultdict(list); meth_by_name = collections.defaultdict(list)
for p, t in mods.items():
    for n in t.body:
        if isinstance(n, ast.ClassDef):
            ms = {m.name: m for m in n.body if isinstance(m, ast.FunctionDef)}
            classes[(p, n.name)] = (n, ms)
            for mn, m in ms.items(): meth_by_name[mn].append((p, n.name, m))
        elif isinstance(n, ast.FunctionDef): funcs[n.name].append((p, n))
def dotted(e):
    if isinstance(e, ast.Name): return [e.id]
    if isinstance(e, ast.Attribute):
        b = dotted(e.value); return b + [e.attr] if b else None
    return None
def ambient_calls(fn):
    out = []
    for c in ast.walk(fn):
        if isinstance(c, ast.Call):
            d = dotted(c.func)
            if not d: continue
            if len(d) >= 2 and (d[-2], d[-1]) in AMBIENT: out.append(('.'.join(d), c.lineno))
            if len(d) == 3 and d[0] in ('np','numpy') and d[1] == 'random' and d[2] in NP_GLOBAL: out.append(('.'.join(d), c.lineno))
            if len(d) == 2 and d[0] == 'random' and d[1] in NP_GLOBAL: out.append(('.'.join(d), c.lineno))
            if d[-1] in ('default_rng','RandomState','Random') and not c.args and not c.keywords: out.append(('.'.join(d) + '()', c.lineno))
    return out
def attr_types(cls_node):
    """self._x -> class name, from assignments self._x = [mod.]Cls(...) anywhere in the class."""
    ty = {}
    for n in ast.walk(cls_node):
        if isinstance(n, ast.Assign) and isinstance(n.value, ast.Call):
            d = dotted(n.value.func)
            for t in n.targets:
                if isinstance(t, ast.Attribute) and isinstance(t.value, ast.Name) and t.value.id == 'self' and d and d[-1][:1].isupper():
                    ty[t.attr] = d[-1]
    return ty
cls_by_name = collections.defaultdict(list)
for (p, cn), v in classes.items(): cls_by_name[cn].append((p, cn))
def closure(p, cn, precise):
    seen, todo, hits, unresolved = set(), [], [], set()
    node, ms = classes[(p, cn)]; ty = attr_types(node)
    for mn in ms: todo.append((p, cn, mn))
    while todo:
        key = todo.pop()
        if key in seen: continue
        seen.add(key); pp, cc, mn = key
        if cc is None: fn = [f for (q, f) in funcs[mn] if q == pp][0]; cnode = None
        else:
            cnode, cms = classes[(pp, cc)]
            if mn not in cms: continue
            fn = cms[mn]
        for a, ln in ambient_calls(fn): hits.append((os.path.relpath(pp, ROOT), cc, mn, a, ln))
        for c in ast.walk(fn):
            if not isinstance(c, ast.Call): continue
            d = dotted(c.func)
            if not d: unresolved.add('<dynamic>'); continue
            if d[0] == 'self' and len(d) == 2 and cc is not None: todo.append((pp, cc, d[1])); continue
            if d[0] == 'self' and len(d) == 3 and cc is not None and precise:
                tn = attr_types(classes[(pp, cc)][0]).get(d[1])
                if tn and tn in cls_by_name:
                    for (q, cn2) in cls_by_name[tn]: todo.append((q, cn2, d[2]))
                    continue
            if len(d) == 1 and d[0] in funcs:
                for (q, f) in funcs[d[0]]:
                    if q == pp: todo.append((q, None, d[0]))
                continue
            name = d[-1]
            if name in meth_by_name and name not in ('append','get','items','update','values','keys','copy','format','join','add','pop','extend','index','count','sort','item','all','any','sum','max','min','mean','reshape','astype','flatten','tolist','squeeze','dump','load'):
                if len(meth_by_name[name]) <= (3 if precise else 10**9):
                    for (q, cn2, m) in meth_by_name[name]: todo.append((q, cn2, name))
                else: unresolved.add(name)
    return hits, unresolved, len(seen)
targets = ['RandomDesigner','QuasiRandomDesigner','GridSearchDesigner','EagleStrategyDesigner','NSGA2Designer','CanonicalEvolutionDesigner','CMAESDesigner','BOCSDesigner','HarmonicaDesigner','VizierGPBandit','VizierGPUCBPEBandit','InRamDesignerPolicy','EnsembleDesigner']
for precise in (False, True):
    print('=== resolution:', 'typed self-attributes + name (<=3 candidates)' if precise else 'by attribute name over the whole repo')
    for tn in targets:
        for (p, cn) in cls_by_name.get(tn, []):
            hits, unres, n = closure(p, cn, precise)
            hs = sorted(set((h[0].split('/')[-1], h[1], h[2], h[3]) for h in hits))
            print('%-26s methods=%-4d ambient=%-3d unresolved=%-3d %s' % (tn, n, len(hs), len(unres), [('%s:%s.%s:%s' % h) for h in hs][:4]))
