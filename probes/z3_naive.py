"""Probe P12: Naive is_pareto_optimal loop invariant J(i) with the transitivity lemma (points as (Int,Int)->Real, no NaN)."""
import time
from z3 import *
P = Function('P', IntSort(), IntSort(), RealSort()); n, d, i = Ints('n d i')
k, k2, j, t, u = Ints('k k2 j t u')
def dom(p, q): return And(ForAll([k], Implies(And(0 <= k, k < d), P(p, k) >= P(q, k))), Exists([k2], And(0 <= k2, k2 < d, P(p, k2) > P(q, k2))))
isopt = Function('isopt', IntSort(), BoolSort()); isopt2 = Function('isopt2', IntSort(), BoolSort())
def J(f, ii): return ForAll([j], Implies(And(0 <= j, j < n), f(j) == Not(Exists([t], And(0 <= t, t < ii, dom(t, j))))))
def check(name, hyps, goal, to=60000):
    s = Solver(); s.set('timeout', to); s.add(*hyps); s.add(Not(goal)); t0 = time.time(); r = s.check(); print('%-56s %-7s %.2fs' % (name, r, time.time() - t0))
base = [n >= 0, d >= 1, 0 <= i, i < n]
# masked assignment semantics: surviving j keeps iff any(P[j]>P[i]) | all(P[j]==P[i])
keep = lambda jj: Or(Exists([k2], And(0 <= k2, k2 < d, P(jj, k2) > P(i, k2))), ForAll([k], Implies(And(0 <= k, k < d), P(jj, k) == P(i, k))))
upd = ForAll([j], Implies(And(0 <= j, j < n), isopt2(j) == And(isopt(j), keep(j))))
a, b, c = Ints('a b c')
trans = ForAll([a, b, c], Implies(And(dom(a, b), dom(b, c)), dom(a, c)))
check('lemma: dom transitive', [d >= 1], Implies(And(dom(a, b), dom(b, c)), dom(a, c)))
check('step, is_optimal[i] (masked update)', base + [J(isopt, i), isopt(i), upd], J(isopt2, i + 1))
check('step, not is_optimal[i] (needs transitivity)', base + [J(isopt, i), Not(isopt(i)), trans], J(isopt, i + 1))
check('init', [n >= 0, d >= 1, ForAll([j], isopt(j))], J(isopt, IntVal(0)))
print('--- with the witness skolemised and transitivity instantiated at (u, i, ·) by the contract layer')
check('witness exists', base + [J(isopt, i), Not(isopt(i))], Exists([u], And(0 <= u, u < i, dom(u, i))))
hint = ForAll([c], Implies(And(dom(u, i), dom(i, c)), dom(u, c)))
check('hint is an instance of the lemma', [d >= 1], hint)
jj = Int('jj')
check('step, not is_optimal[i], pointwise with hint', base + [J(isopt, i), 0 <= u, u < i, dom(u, i), hint, 0 <= jj, jj < n],
      isopt(jj) == Not(Exists([t], And(0 <= t, t < i + 1, dom(t, jj)))))
