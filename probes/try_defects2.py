import sys; sys.path.insert(0, '/tmp/probe')
import shim
import numpy as np
from vizier import pyvizier as vz
from vizier import algorithms as vza
def sec(t): print('\n==', t)
sec('12 NSGA2 restart loses phase')
from vizier._src.algorithms.evolution import nsga2
problem = vz.ProblemStatement()
problem.search_space.root.add_float_param('x', 0.0, 1.0)
problem.metric_information.append(vz.MetricInformation('m', goal=vz.ObjectiveMetricGoal.MAXIMIZE))
d = nsga2.NSGA2Designer(problem, population_size=3, first_survival_after=4, seed=1)
trials = []
for i in range(6):
    t = vz.Trial(id=i+1, parameters={'x': i/10}); t.complete(vz.Measurement({'m': float(i)})); trials.append(t)
d.update(vza.CompletedTrials(trials), vza.ActiveTrials([]))
print('live   num_trials_seen', d._num_trials_seen, 'first_survival_after', d._first_survival_after, 'pop', len(d.population))
md = d.dump()
d2 = nsga2.NSGA2Designer(problem, population_size=3, first_survival_after=4, seed=1); d2.load(md)
print('loaded num_trials_seen', d2._num_trials_seen, 'pop', len(d2.population), '-> phase', 'sampling' if d2._num_trials_seen < d2._first_survival_after else 'mutation')
sec('13 id reuse after deleting max-id trial')
from vizier._src.service import vizier_service, vizier_service_pb2 as vs, study_pb2
s = vizier_service.VizierServicer(database_url=None)
sc = vz.StudyConfig(algorithm='RANDOM_SEARCH') if False else None
from vizier.service import pyvizier as svz
sc = svz.StudyConfig(algorithm='GRID_SEARCH'); sc.search_space.root.add_int_param('x', 0, 9)
sc.metric_information.append(svz.MetricInformation('m', goal=svz.ObjectiveMetricGoal.MAXIMIZE))
st = s.CreateStudy(vs.CreateStudyRequest(parent='owners/o', study=study_pb2.Study(display_name='s', study_spec=sc.to_proto())))
def suggest(): 
    op = s.SuggestTrials(vs.SuggestTrialsRequest(parent=st.name, suggestion_count=1, client_id='c')); return [t.id for t in vs.SuggestTrialsResponse.FromString(op.response.value).trials], op.error.message[:80]
def complete(i): s.CompleteTrial(vs.CompleteTrialRequest(name=f'{st.name}/trials/{i}', final_measurement=study_pb2.Measurement(metrics=[study_pb2.Measurement.Metric(metric_id='m', value=1.0)])))
def cache():
    md = {(kv.ns, kv.key): kv.value for kv in s.GetStudy(vs.GetStudyRequest(name=st.name)).study_spec.metadata}
    return md.get((':designer_policy_v0:cache', 'incorporated_completed_trials_ids'))
for i in (1, 2, 3): print('suggest', suggest()); complete(i)
print('suggest', suggest(), 'cache', cache())        # trial 4 active; 1..3 incorporated
complete(4); print('suggest', suggest(), 'cache', cache())  # 5 active; 4 incorporated
s.DeleteTrial(vs.DeleteTrialRequest(name=f'{st.name}/trials/5'))
print('after delete max id: suggest', suggest())     # new trial gets id 5 again
s.DeleteTrial(vs.DeleteTrialRequest(name=f'{st.name}/trials/5')); s.DeleteTrial(vs.DeleteTrialRequest(name=f'{st.name}/trials/4'))
print('deleted 5 and 4 (4 was incorporated); suggest', suggest()); complete(4)
print('new trial 4 completed; suggest', suggest(), 'cache', cache(), '<- 4 was already in the cache, so the NEW trial 4 is never delivered')
sec('17 AddTrialMeasurement on INFEASIBLE')
s.CompleteTrial(vs.CompleteTrialRequest(name=f'{st.name}/trials/5', trial_infeasible=True, infeasible_reason='x'))
r = s.AddTrialMeasurement(vs.AddTrialMeasurementRequest(trial_name=f'{st.name}/trials/5', measurement=study_pb2.Measurement(step_count=1)))
print('returned state', study_pb2.Trial.State.Name(r.state), 'measurements', len(r.measurements))
sec('18 default outside bounds')
ss = svz.SearchSpace(); ss.root.add_float_param('x', 0.0, 1.0, default_value=5.0)
from vizier._src.pythia import suggest_default
p = suggest_default.get_default_parameters(ss); print(p.as_dict(), ss.contains(p))
