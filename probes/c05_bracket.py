"""Probe P15: transaction-bracket automaton over all paths of every SQLDataStore method (real source)."""
import ast
src = open('/repo/vizier/_src/service/sql_datastore.py').read(); tree = ast.parse(src)
cls = [n for n in tree.body if isinstance(n, ast.ClassDef) and n.name == 'SQLDataStore'][0]
def builder_class(fn):
    """abstract interpretation of query-building assignments: var -> 'read'|'write'."""
    kinds = {}
    for n in ast.walk(fn):
        if isinstance(n, ast.Assign) and len(n.targets) == 1 and isinstance(n.targets[0], ast.Name):
            v = n.targets[0].id; txt = ast.unparse(n.value)
            root = txt.split('(')[0]
            if any(k in txt.split('.where')[0] for k in ('.insert()', '.delete()', 'sqla.update(')): kinds[v] = 'write'
            elif any(root.startswith(k) for k in ('sqla.select', 'sqla.exists', 'sqla.func')): kinds[v] = 'read'
            elif root.split('.')[0] in kinds and ('.where' in txt or '.values' in txt or '.select' in txt): kinds[v] = kinds[root.split('.')[0]]
            elif txt.startswith('sqla.exists(') : kinds[v] = 'read'
    return kinds
RAISING = {'trial_resource': 'ValueError', 'from_name': 'ValueError'}
def events(fn):
    """enumerate paths as event lists; returns list of (events, exit_kind)."""
    kinds = builder_class(fn)
    def call_events(e):
        ev = []
        for c in ast.walk(e):
            if isinstance(c, ast.Call):
                t = ast.unparse(c.func)
                if t == 'self._connection.execute':
                    a = c.args[0]; k = kinds.get(a.id, '?') if isinstance(a, ast.Name) else '?'; ev.append(('sql', k, c.lineno))
                elif t == 'self._write_or_rollback': ev.append(('wor', c.lineno))
                elif t == 'self._connection.commit': ev.append(('commit', c.lineno))
                elif t == 'self._connection.rollback': ev.append(('rollback', c.lineno))
                elif t.split('.')[-1] in RAISING: ev.append(('mayraise', t.split('.')[-1], c.lineno))
        return sorted(ev, key=lambda x: x[-1])
    def seq(stmts, pre):   # returns list of (events, status) ; status in normal/return/raise
        outs = [(pre, 'normal')]
        for s in stmts:
            new = []
            for ev, st in outs:
                if st != 'normal': new.append((ev, st)); continue
                new.extend(stmt(s, ev))
            outs = new
        return outs
    def expand(evs, base):
        """apply call events: wor forks (ok -> write ; fail -> rollback+raise DB); mayraise forks."""
        outs = [(base, 'normal')]
        for e in evs:
            new = []
            for ev, st in outs:
                if st != 'normal': new.append((ev, st)); continue
                if e[0] == 'wor': new.append((ev + [('write', e[1])], 'normal')); new.append((ev + [('rollback', e[1])], 'raise:DatabaseError'))
                elif e[0] == 'mayraise': new.append((ev, 'normal')); new.append((ev, 'raise:' + RAISING[e[1]]))
                elif e[0] == 'sql': new.append((ev + [(e[1], e[2])], 'normal'))
                else: new.append((ev + [e], 'normal'))
            outs = new
        return outs
    def stmt(s, ev):
        if isinstance(s, (ast.Assign, ast.Expr, ast.AnnAssign, ast.AugAssign)): return expand(call_events(s), ev)
        if isinstance(s, ast.Return): return [(e, 'return' if st == 'normal' else st) for e, st in expand(call_events(s), ev)]
        if isinstance(s, ast.Raise): return [(e, 'raise:explicit' if st == 'normal' else st) for e, st in expand(call_events(s), ev)]
        if isinstance(s, ast.If):
            outs = []
            for e, st in expand(call_events(s.test), ev):
                if st != 'normal': outs.append((e, st)); continue
                outs += seq(s.body, e) + seq(s.orelse, e)
            return outs
        if isinstance(s, ast.With): return seq(s.body, ev)
        if isinstance(s, ast.For):   # 0 or 1 or 2 iterations is enough for a bracket automaton with idempotent states
            outs = [(ev, 'normal')]
            cur = [(ev, 'normal')]
            for _ in range(2):
                nxt = []
                for e, st in cur:
                    if st == 'normal': nxt += seq(s.body, e)
                outs += nxt; cur = [(e, st) for e, st in nxt if st == 'normal']
            return outs
        if isinstance(s, ast.Try):
            outs = []
            for e, st in seq(s.body, ev):
                if st.startswith('raise:') and any(True for h in s.handlers): outs += seq(s.handlers[0].body, e) if ('IntegrityError' in ast.unparse(s.handlers[0].type) and st == 'raise:DatabaseError') else [(e, st)]
                else: outs.append((e, st))
            return outs
        return [(ev, 'normal')]
    return seq(fn.body, [])
def automaton(ev):
    dirty = False; problems = []
    writes = [i for i, e in enumerate(ev) if e[0] == 'write']
    for i, e in enumerate(ev):
        if e[0] == 'write': dirty = True
        elif e[0] in ('commit', 'rollback'):
            if e[0] == 'commit' and writes and i < writes[-1] and dirty: problems.append('commit before last write (line %d)' % e[1])
            dirty = False
    return dirty, problems
bad = 0; total = 0
for m in cls.body:
    if not isinstance(m, ast.FunctionDef) or m.name == '__init__': continue
    paths = events(m); fails = []
    for ev, st in paths:
        total += 1; dirty, probs = automaton(ev)
        if dirty: fails.append('exit "%s" with pending writes: %s' % (st, [e for e in ev if e[0] in ('write','commit','rollback')]))
        fails += probs
    print('%-38s paths=%-3d %s' % (m.name, len(paths), 'OK' if not fails else 'FAIL'))
    for f in sorted(set(fails))[:3]: print('      ', f); bad += 1
print('total paths', total)
