import sys; sys.path.insert(0, '/tmp/probe')
import shim
from vizier import pyvizier as vz, algorithms as vza
from vizier._src.algorithms.designers import cmaes
p = vz.ProblemStatement(); p.search_space.root.add_float_param('x', 0.0, 1.0); p.search_space.root.add_float_param('y', 0.0, 1.0)
p.metric_information.append(vz.MetricInformation('m', goal=vz.ObjectiveMetricGoal.MAXIMIZE))
d = cmaes.CMAESDesigner(p)
pop = d._cma_es_jax.hyper_parameters.pop_size
def T(i):
    t = vz.Trial(id=i, parameters={'x': (i % 7) / 7, 'y': (i % 5) / 5}); t.complete(vz.Measurement({'m': float(i)})); return t
d.update(vza.CompletedTrials([T(i) for i in range(1, pop)]), vza.ActiveTrials([]))     # pop_size-1 trials: queue almost full
print('pop_size', pop, '| live queue length', d._trial_population.qsize())
d2 = cmaes.CMAESDesigner(p); d2.load(d.dump())
print('restored queue length', d2._trial_population.qsize())
last = vza.CompletedTrials([T(pop)])
import numpy as np
before = np.array(d._cma_es_jax.save_state()['m'] if 'm' in d._cma_es_jax.save_state() else 0)
d.update(last, vza.ActiveTrials([])); d2.update(last, vza.ActiveTrials([]))
s1, s2 = d._cma_es_jax.save_state(), d2._cma_es_jax.save_state()
diff = [k for k in s1 if not np.allclose(np.asarray(s1[k], dtype=float), np.asarray(s2[k], dtype=float))] if isinstance(s1, dict) else '?'
print('after one more completed trial: live queue', d._trial_population.qsize(), 'restored queue', d2._trial_population.qsize(), '| CMA state fields that differ:', diff)
