import sys; sys.path.insert(0, '/tmp/probe')
import shim
from vizier import pyvizier as vz
from vizier._src.pythia import local_policy_supporters as lps
p = vz.ProblemStatement(); p.search_space.root.add_float_param('x', 0.0, 1.0)
p.metric_information.append(vz.MetricInformation('m', goal=vz.ObjectiveMetricGoal.MAXIMIZE))
s = lps.InRamPolicySupporter(p)
def T(i, v=None, infeasible=False):
    t = vz.Trial(parameters={'x': 0.1*i})
    if infeasible: t.complete(vz.Measurement(), infeasibility_reason='bad')
    elif v is not None: t.complete(vz.Measurement({'m': v}))
    return t
s.AddTrials([T(1, 3.0), T(2, 3.0), T(3, 1.0), T(4)])
print('ties: best ids', [t.id for t in s.GetBestTrials()], '(two trials attain 3.0)')
s2 = lps.InRamPolicySupporter(p); s2.AddTrials([T(1, infeasible=True), T(2)])
print('only infeasible/active: best ids', [(t.id, t.status.name, t.infeasible) for t in s2.GetBestTrials()])
