import sys; sys.path.insert(0, '/tmp/probe')
import shim
import time
t0=time.time()
from vizier._src.service import vizier_service, vizier_service_pb2, study_pb2
from vizier.service import pyvizier as vz
print('import ok', time.time()-t0)
for url in (None, 'sqlite:///:memory:'):
    s = vizier_service.VizierServicer(database_url=url)
    sc = vz.StudyConfig(algorithm='RANDOM_SEARCH')
    sc.search_space.root.add_float_param('w', 0.0, 5.0)
    sc.search_space.root.add_int_param('x', -2, 2)
    sc.search_space.root.add_categorical_param('z', ['a','g'])
    sc.metric_information.append(vz.MetricInformation('m', goal=vz.ObjectiveMetricGoal.MAXIMIZE))
    st = s.CreateStudy(vizier_service_pb2.CreateStudyRequest(parent='owners/o', study=study_pb2.Study(display_name='s', study_spec=sc.to_proto())))
    op = s.SuggestTrials(vizier_service_pb2.SuggestTrialsRequest(parent=st.name, suggestion_count=2, client_id='c'))
    print(url, op.done, op.HasField('error'), op.error.message[:200])
    r = vizier_service_pb2.SuggestTrialsResponse.FromString(op.response.value)
    print([ (t.id, t.state, [(p.parameter_id, p.value.WhichOneof('kind')) for p in t.parameters]) for t in r.trials])
