import time, subprocess, tempfile, os
from z3 import *
def comp(x):  # x in [^/]+
    return InRe(x, Plus(Complement(Re("/")) if False else Diff(AllChar(ReSort(StringSort())), Re("/"))))
o, s_, o2, s2 = Strings('o s o2 s2')
name = lambda a, b: Concat(StringVal("owners/"), a, StringVal("/studies/"), b)
sol = Solver(); sol.set('timeout', 30000)
sol.add(comp(o), comp(s_), comp(o2), comp(s2), name(o, s_) == name(o2, s2), Or(o != o2, s_ != s2))
t = time.time(); r = sol.check(); print('z3 study-name injective:', r, '%.2fs' % (time.time() - t))
open('/tmp/probe/inj.smt2', 'w').write('(set-logic QF_SLIA)\n' + sol.to_smt2().split('\n', 1)[1] if False else sol.to_smt2())
for cmd in (['cvc5', '--strings-exp', '--tlimit=30000', '/tmp/probe/inj.smt2'], ['z3', '-T:30', '/tmp/probe/inj.smt2']):
    t = time.time(); p = subprocess.run(cmd, capture_output=True, text=True); print(cmd[0], p.stdout.strip()[:60], p.stderr.strip()[:80], '%.2fs' % (time.time() - t))
# trial name with int id: 'owners/o/studies/s/trials/' ++ str(i), i>0: from_name parses int(str) -> canonical
i, i2 = Ints('i i2')
tn = lambda a, b, k: Concat(name(a, b), StringVal("/trials/"), IntToStr(k))
sol = Solver(); sol.set('timeout', 30000)
sol.add(comp(o), comp(s_), comp(o2), comp(s2), i > 0, i2 > 0, tn(o, s_, i) == tn(o2, s2, i2), Or(o != o2, s_ != s2, i != i2))
t = time.time(); r = sol.check(); print('z3 trial-name injective:', r, '%.2fs' % (time.time() - t))
open('/tmp/probe/inj2.smt2', 'w').write(sol.to_smt2())
for cmd in (['cvc5', '--strings-exp', '--tlimit=30000', '/tmp/probe/inj2.smt2'],):
    t = time.time(); p = subprocess.run(cmd, capture_output=True, text=True); print(cmd[0], p.stdout.strip()[:60], p.stderr.strip()[:80], '%.2fs' % (time.time() - t))
