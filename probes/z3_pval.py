"""Probe P10: tagged Python scalar (bool|int|float|str) through ParameterConfig.contains for INTEGER/DOUBLE/DISCRETE."""
import time
from z3 import *
F = Float64(); rm = RNE(); Str = DeclareSort('Str')
PV = Datatype('PVal'); PV.declare('B', ('b', BoolSort())); PV.declare('I', ('i', IntSort())); PV.declare('Fl', ('f', F)); PV.declare('S', ('s', Str)); PV = PV.create()
v = Const('v', PV); lo, hi = Ints('lo hi')
parses_float = Function('parses_float', Str, BoolSort())   # float(str) succeeds
# --- transcription of the code paths (what the executor will generate from the AST) -------------
# ParameterType.assert_correct_type for numeric types: `float(value) != value` -> TypeError
def py_float(v):   # returns (raises_ValueError, raises_Overflow, fp value)
    as_fp = If(PV.is_B(v), If(PV.b(v), FPVal(1.0, F), FPVal(0.0, F)), If(PV.is_I(v), fpRealToFP(rm, ToReal(PV.i(v)), F), If(PV.is_Fl(v), PV.f(v), FPVal(0.0, F))))
    return And(PV.is_S(v), Not(parses_float(PV.s(v)))), as_fp
def py_ne_float_value(fp, v):   # float(value) != value   (python cross-type comparison)
    eq = If(PV.is_B(v), fpEQ(fp, If(PV.b(v), FPVal(1.0, F), FPVal(0.0, F))),
         If(PV.is_I(v), And(Not(fpIsNaN(fp)), Not(fpIsInf(fp)), fpToReal(fp) == ToReal(PV.i(v))),
         If(PV.is_Fl(v), fpEQ(fp, PV.f(v)), BoolVal(False))))      # float == str is False
    return Not(eq)
raises_VE, fpv = py_float(v)
type_error_1 = And(Not(raises_VE), py_ne_float_value(fpv, v))
# INTEGER: `int(value) != value`: int(float) raises OverflowError on inf, ValueError on nan
is_fl = PV.is_Fl(v); x = PV.f(v)
int_overflow = And(is_fl, fpIsInf(x)); int_valueerr = And(is_fl, fpIsNaN(x))
trunc = fpToReal(fpRoundToIntegral(RTZ(), x))
int_ne = If(is_fl, trunc != fpToReal(x), BoolVal(False))          # for bool/int: int(v)==v
# contains(): try _assert_feasible except (TypeError, ValueError): False
as_int = If(PV.is_B(v), If(PV.b(v), 1, 0), If(PV.is_I(v), PV.i(v), ToInt(trunc)))
in_bounds = And(lo <= as_int, as_int <= hi)
# outcome of contains for INTEGER
raises_overflow = And(Not(raises_VE), Not(type_error_1), int_overflow)      # escapes contains()!
returns_true = And(Not(raises_VE), Not(type_error_1), Not(int_overflow), Not(int_valueerr), Not(int_ne), in_bounds)
# --- oracle written from the property ------------------------------------------------------------
integral_value = If(PV.is_B(v), True, If(PV.is_I(v), True, If(PV.is_Fl(v), And(Not(fpIsNaN(x)), Not(fpIsInf(x)), fpToReal(x) == ToReal(ToInt(fpToReal(x)))), False)))
num = If(PV.is_B(v), If(PV.b(v), 1.0, 0.0), If(PV.is_I(v), ToReal(PV.i(v)), fpToReal(x)))
member = And(Not(PV.is_S(v)), integral_value, ToReal(lo) <= num, num <= ToReal(hi))
pre = And(lo <= hi, lo >= -2**53, hi <= 2**53, Implies(PV.is_I(v), And(PV.i(v) >= -2**53, PV.i(v) <= 2**53)))
def T(name, *cs, to=60000):
    s = Solver(); s.set('timeout', to); s.add(pre, *cs); t = time.time(); r = s.check()
    print('%-58s %-7s %.2fs' % (name, r, time.time() - t)); return s, r
T('C16.contains.iff INTEGER (returns True <=> member)', returns_true != member)
s, r = T('C16.contains.raises_nothing INTEGER (expect sat: inf)', raises_overflow)
if r == sat: print('    model v =', s.model()[v])
# DOUBLE: bounds as FP
flo, fhi = FPs('flo fhi', F)
ret_true_d = And(Not(raises_VE), Not(type_error_1), fpLEQ(flo, fpv), fpLEQ(fpv, fhi))
member_d = And(Not(PV.is_S(v)), Not(fpIsNaN(fpv)), fpLEQ(flo, fpv), fpLEQ(fpv, fhi))
T('C16.contains.iff DOUBLE', Not(fpIsNaN(flo)), Not(fpIsNaN(fhi)), ret_true_d != member_d)
print('--- per-tag split, integrality of a float defined as fp.roundToIntegral(RTZ,x) == x on both sides')
tr = fpRoundToIntegral(RTZ(), x)
integral_fl = And(Not(fpIsNaN(x)), Not(fpIsInf(x)), fpEQ(tr, x))
member2 = If(PV.is_S(v), False, If(PV.is_Fl(v), And(integral_fl, ToReal(lo) <= fpToReal(x), fpToReal(x) <= ToReal(hi)), And(lo <= as_int, as_int <= hi)))
int_ne2 = If(is_fl, Not(fpEQ(tr, x)), BoolVal(False))
as_int2 = If(PV.is_B(v), If(PV.b(v), 1, 0), If(PV.is_I(v), PV.i(v), ToInt(fpToReal(tr))))
returns_true2 = And(Not(raises_VE), Not(type_error_1), Not(int_overflow), Not(int_valueerr), Not(int_ne2), lo <= as_int2, as_int2 <= hi)
for tag, c in (('bool', PV.is_B(v)), ('int', PV.is_I(v)), ('float', PV.is_Fl(v)), ('str', PV.is_S(v))):
    T('C16.contains.iff INTEGER tag=%s' % tag, c, returns_true2 != member2)
