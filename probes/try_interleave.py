"""Probe P16: forced interleaving CreateTrial between SuggestTrials' max_trial_id and create_trial (finding 14)."""
import sys, threading; sys.path.insert(0, '/tmp/probe')
import shim
from vizier._src.service import vizier_service, vizier_service_pb2 as vs, study_pb2
from vizier.service import pyvizier as vz
class Proxy:
    """Datastore proxy: parks the thread named `victim` right after its n-th call of `method` returns."""
    def __init__(self, inner, victim, method, nth):
        self._i, self._victim, self._method, self._nth, self._count = inner, victim, method, nth, 0
        self.parked, self.resume = threading.Event(), threading.Event()
    def __getattr__(self, name):
        f = getattr(self._i, name)
        def g(*a, **k):
            r = f(*a, **k)
            if name == self._method and threading.current_thread().name == self._victim:
                self._count += 1
                if self._count == self._nth: self.parked.set(); self.resume.wait(10)
            return r
        return g
for url in (None, 'sqlite:///:memory:'):
    s = vizier_service.VizierServicer(database_url=url)
    sc = vz.StudyConfig(algorithm='RANDOM_SEARCH'); sc.search_space.root.add_float_param('w', 0.0, 1.0)
    sc.metric_information.append(vz.MetricInformation('m', goal=vz.ObjectiveMetricGoal.MAXIMIZE))
    st = s.CreateStudy(vs.CreateStudyRequest(parent='owners/o', study=study_pb2.Study(display_name='s', study_spec=sc.to_proto())))
    # SuggestTrials calls max_trial_id once for the StudyDescriptor, then once per created trial: park after the 2nd call
    px = Proxy(s.datastore, 'suggester', 'max_trial_id', 2); s.datastore = px
    out = {}
    def suggest():
        try: op = s.SuggestTrials(vs.SuggestTrialsRequest(parent=st.name, suggestion_count=1, client_id='c')); out['suggest'] = ('op done=%s error=%r' % (op.done, op.error.message[:40]))
        except Exception as e: out['suggest'] = 'raised %s: %s' % (type(e).__name__, str(e)[:60])
    t = threading.Thread(target=suggest, name='suggester'); t.start(); assert px.parked.wait(20)
    tr = s.CreateTrial(vs.CreateTrialRequest(parent=st.name, trial=study_pb2.Trial()))   # runs to completion while the suggester is parked
    px.resume.set(); t.join(20)
    ops = s.datastore.list_suggestion_operations(st.name, 'c')
    print(url, '| CreateTrial got id', tr.id, '| SuggestTrials:', out['suggest'], '| stored ops done:', [o.done for o in ops], '| trials:', [(x.id, x.state) for x in s.ListTrials(vs.ListTrialsRequest(parent=st.name)).trials])
