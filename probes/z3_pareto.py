import time
from z3 import *
# Unbounded attempt: symbolic n, d; S: sorted points as function (Int,Int)->Real
def build(fixed_split):
    S = Function('S', IntSort(), IntSort(), RealSort())
    n, d, s = Ints('n d s')
    k, k2, a, b = Ints('k k2 a b')
    def dom(p, q):  # S[p] dominates S[q]
        return And(ForAll([k], Implies(And(0 <= k, k < d), S(p, k) >= S(q, k))),
                   Exists([k2], And(0 <= k2, k2 < d, S(p, k2) > S(q, k2))))
    hp = Function('hp', IntSort(), BoolSort()); lp = Function('lp', IntSort(), BoolSort()); cr = Function('cr', IntSort(), BoolSort())
    opt = Function('opt', IntSort(), BoolSort())
    i, j = Ints('i j')
    hyp = [n >= 2, d >= 1, 0 < s, s < n,
           ForAll([a, b], Implies(And(0 <= a, a < b, b < n), S(a, 0) <= S(b, 0))),
           ForAll([j], Implies(And(s <= j, j < n), hp(j) == Not(Exists([i], And(s <= i, i < n, dom(i, j)))))),
           ForAll([j], Implies(And(0 <= j, j < s), lp(j) == Not(Exists([i], And(0 <= i, i < s, dom(i, j)))))),
           ForAll([j], Implies(And(0 <= j, j < s), cr(j) == Not(Exists([i], And(s <= i, i < n, dom(i, j)))))),
           ForAll([j], Implies(And(0 <= j, j < s), opt(j) == And(lp(j), cr(j)))),
           ForAll([j], Implies(And(s <= j, j < n), opt(j) == hp(j)))]
    if fixed_split:  # clean split: everything below s is strictly smaller in coord 0 than everything at/above s
        hyp.append(ForAll([a, b], Implies(And(0 <= a, a < s, s <= b, b < n), S(a, 0) < S(b, 0))))
    c = Int('c')
    goal = Implies(And(0 <= c, c < n), opt(c) == Not(Exists([i], And(0 <= i, i < n, dom(i, c)))))
    return hyp, goal
for fixed in (False, True):
    hyp, goal = build(fixed)
    sol = Solver(); sol.set('timeout', 20000); sol.add(hyp); sol.add(Not(goal))
    t = time.time(); r = sol.check(); print('fixed_split=%s' % fixed, r, '%.2fs' % (time.time() - t))
# Bounded countermodel search: n=2..3, d=2, quantifier-free
def bounded(n, d):
    P = [[Real('p_%d_%d' % (i, k)) for k in range(d)] for i in range(n)]
    dom = lambda p, q: And(And([P[p][k] >= P[q][k] for k in range(d)]), Or([P[p][k] > P[q][k] for k in range(d)]))
    s = n // 2 if n % 2 == 0 else (n + 1) // 2  # round(n/2) banker's: handled concretely in engine
    cons = [P[a][0] <= P[a + 1][0] for a in range(n - 1)]
    opt = []
    for c in range(n):
        if c < s: o = And(Not(Or([dom(i, c) for i in range(s)])), Not(Or([dom(i, c) for i in range(s, n)])))
        else: o = Not(Or([dom(i, c) for i in range(s, n)]))
        opt.append(o)
    spec = [Not(Or([dom(i, c) for i in range(n)])) for c in range(n)]
    sol = Solver(); sol.add(cons); sol.add(Or([opt[c] != spec[c] for c in range(n)]))
    r = sol.check()
    return r, ([[sol.model().eval(P[i][k], model_completion=True) for k in range(d)] for i in range(n)] if r == sat else None)
print(bounded(2, 2))
