"""Replay driver of the C15 check (runs under /venv/bin/python on the REAL code of $VERIF_REPO; never decides anything).

usage:  c15_replay.py <job.json>            one counter-model (written by contracts/c15.py)
        c15_replay.py findings              witnesses of the recorded findings
        c15_replay.py standin_logscale T    bounded stand-in: LOG / REVERSE_LOG scaler round trip on a grid
        c15_replay.py np_facts              the numpy facts assumed by pyvc/spacekit.py, checked against numpy
Prints one JSON line and then REPRODUCED / NOT-REPRODUCED.
"""
import json
import math
import sys

sys.path.insert(0, '/verif/replay')
import env  # noqa: E402,F401

import numpy as np  # noqa: E402
from vizier import pyvizier as vz  # noqa: E402
from vizier.pyvizier import converters  # noqa: E402
from vizier.pyvizier.converters import core  # noqa: E402


def dec(e):
    t, v = e['t'], e['v']
    if t == 'none':
        return None
    if t == 'float':
        return float(v)
    if t == 'int':
        return int(v)
    if t == 'bool':
        return bool(v)
    return str(v)


SCALES = {None: None, 'LINEAR': vz.ScaleType.LINEAR, 'LOG': vz.ScaleType.LOG, 'REVERSE_LOG': vz.ScaleType.REVERSE_LOG}


def make_pc(spec):
    name = spec.get('name') or 'p'
    scale = SCALES[spec.get('scale')]
    pt = spec['ptype']
    if pt in ('DOUBLE', 'INTEGER'):
        lo, hi = dec(spec['bounds'][0]), dec(spec['bounds'][1])
        if pt == 'DOUBLE':
            lo, hi = float(lo), float(hi)
        return vz.ParameterConfig.factory(name, bounds=(lo, hi), scale_type=scale)
    fv = [dec(x) for x in spec['feasible']]
    if pt == 'DISCRETE':
        fv = [float(x) for x in fv]
    return vz.ParameterConfig.factory(name, feasible_values=fv, scale_type=scale)


def member(pc, v):
    """independent oracle (same reading as the checker's)"""
    if isinstance(v, vz.ParameterValue):
        v = v.value
    t = pc.type
    if t == vz.ParameterType.CATEGORICAL:
        return isinstance(v, str) and v in pc.feasible_values
    if isinstance(v, str) or v is None:
        return False
    v = float(v)
    if not math.isfinite(v):
        return False
    if t == vz.ParameterType.DOUBLE:
        return pc.bounds[0] <= v <= pc.bounds[1]
    if t == vz.ParameterType.INTEGER:
        return v == int(v) and pc.bounds[0] <= v <= pc.bounds[1]
    return v in [float(x) for x in pc.feasible_values]


class Refused(Exception):
    """the converter constructor raised; .bad: the refusal is NOT the allowed one (LOG / REVERSE_LOG with a non-positive bound)"""

    def __init__(self, job, pc, e):
        Exception.__init__(self, '%s: %s' % (type(e).__name__, str(e)[:120]))
        scaled_log = job['pc'].get('scale') in ('LOG', 'REVERSE_LOG') and pc.type == vz.ParameterType.DOUBLE
        self.bad = not (isinstance(e, ValueError) and scaled_log and (pc.bounds[0] <= 0 or pc.bounds[1] <= 0))


def make_converter(job, getter=None):
    pc = make_pc(job['pc'])
    try:
        return _make_converter(job, pc, getter)
    except Exception as e:  # noqa: BLE001
        raise Refused(job, pc, e)


def _make_converter(job, pc, getter=None):
    o = job.get('opts', {})
    mdi = o.get('max_discrete_indices', 10)
    if mdi == 'inf':
        mdi = np.inf
    kw = dict(float_dtype=getattr(np, job.get('dtype', 'float64')), max_discrete_indices=mdi, scale=bool(o.get('scale', False)),
              onehot_embed=bool(o.get('onehot_embed', False)), converts_to_parameter=bool(o.get('converts_to_parameter', True)),
              pad_oovs=bool(o.get('pad_oovs', True)), should_clip=bool(o.get('should_clip', True)))
    if getter is not None:
        return pc, converters.DefaultModelInputConverter(pc, getter, **kw), kw
    return pc, converters.DefaultModelInputConverter(pc, **kw), kw


def show(v):
    if isinstance(v, vz.ParameterValue):
        return repr(v.value)
    return repr(v)


def job_tpv(job):
    pc, conv, kw = make_converter(job)
    v = dec(job['value'])
    cont = conv._getter_spec.type == core.NumpyArraySpecType.CONTINUOUS
    arg = np.float64(v) if cont else np.int64(int(v))
    out = {'arg': repr(arg), 'continuous_spec': bool(cont)}
    n = None if pc.type == vz.ParameterType.DOUBLE else len(pc.feasible_values)
    try:
        r = conv._to_parameter_value(arg)
    except Exception as e:  # noqa: BLE001
        out['raised'] = type(e).__name__
        bad = not ((not cont) and isinstance(e, IndexError) and int(v) < -n)
        out['clauses'] = {'raises_only_below_range': not bad}
        return out, bad
    out['result'] = show(r)
    cl = {}
    cl['in_domain'] = r is None or member(pc, r)
    if r is None:
        allowed = (not kw['converts_to_parameter']) or ((not cont) and int(v) >= n) or (cont and not math.isfinite(v))
        cl['none_only_if'] = bool(allowed)
    else:
        if cont:
            f32 = job.get('dtype') == 'float32' and pc.type != vz.ParameterType.DOUBLE
            representable = (not f32) or all(float(np.float32(x)) == float(x) for x in pc.feasible_values)
            if representable:       # float32 converter: claimed for float32-representable feasible values only
                cl['fixes_domain'] = (not member(pc, v)) or (float(r.value) == float(v))
        else:
            want = pc.feasible_values[int(v)]
            cl['fixes_domain'] = r.value == want
    out['clauses'] = cl
    return out, not all(cl.values())


def job_roundtrip(job):
    raw = dec(job['raw'])
    pc, conv, kw = make_converter(job, getter=lambda t: raw)
    out = {'raw': repr(raw)}
    try:
        arr = conv.convert([None])
        out['features'] = np.asarray(arr).tolist()
        res = conv.to_parameter_values(arr)
    except Exception as e:  # noqa: BLE001
        out['raised'] = '%s: %s' % (type(e).__name__, str(e)[:200])
        return out, True
    out['decoded'] = [show(r) for r in res]
    cl = {}
    spec = conv.output_spec
    if spec.type == core.NumpyArraySpecType.ONEHOT_EMBEDDING:
        row = np.asarray(arr)[0]
        cl['exactly_one_active'] = bool(np.sum(row == 1.0) == 1 and np.sum(row == 0.0) == len(row) - 1)
    if spec.type == core.NumpyArraySpecType.CONTINUOUS and kw['scale']:
        x = float(np.asarray(arr)[0, 0])
        cl['unit_interval'] = 0.0 <= x <= 1.0
    exact = pc.type != vz.ParameterType.DOUBLE
    if len(res) != 1 or res[0] is None:
        cl['roundtrip'] = False
    elif exact:
        cl['roundtrip'] = res[0].value == raw
    else:
        cl['roundtrip'] = math.isclose(float(res[0].value), float(raw), rel_tol=job.get('rel_tol', 1e-5), abs_tol=job.get('abs_tol', 1e-9))
    out['clauses'] = cl
    return out, not all(cl.values())


def job_labels(job):
    goal = vz.ObjectiveMetricGoal[job['goal']]
    mi = vz.MetricInformation(job.get('name', 'm'), goal=goal)
    conv = converters.DefaultModelOutputConverter(mi, flip_sign_for_minimization_metrics=bool(job['flip']), dtype=getattr(np, job.get('dtype', 'float64')),
                                                  raise_errors_for_missing_metrics=bool(job.get('raise_missing', False)))
    v = dec(job['value'])
    ms = [vz.Measurement({job.get('name', 'm'): v})]
    if not job.get('raise_missing', False):
        ms += [None, vz.Measurement({'other!': 1.0})]
    out = {'value': repr(v)}
    try:
        lab = conv.convert(ms)
        mets = conv.to_metrics(lab)
        info = conv.metric_information
    except Exception as e:  # noqa: BLE001
        out['raised'] = '%s: %s' % (type(e).__name__, str(e)[:200])
        return out, True
    out['labels'] = [repr(float(x)) for x in lab.flatten()]
    out['metrics'] = [None if m is None else repr(m.value) for m in mets]
    flipped = bool(job['flip']) and goal == vz.ObjectiveMetricGoal.MINIMIZE
    cl = {}
    if job.get('dtype') == 'float32' and math.isfinite(v):
        v = float(np.float32(v))      # the documented float32 cast (assumed to be the identity by the proof)
    l0 = float(lab[0, 0])
    want = -v if flipped else v
    cl['convert.sign'] = (math.isnan(l0) and math.isnan(want)) or l0 == want
    if math.isfinite(v):
        cl['sign_roundtrip'] = mets[0] is not None and mets[0].value == v
    else:
        cl['sign_roundtrip'] = mets[0] is None
    if len(ms) == 3:
        cl['missing_is_nan'] = bool(math.isnan(float(lab[1, 0])) and math.isnan(float(lab[2, 0])))
        cl['nan_is_none'] = mets[1] is None and mets[2] is None
    cl['metric_information.goal'] = (info.goal != goal) == flipped
    out['clauses'] = cl
    return out, not all(cl.values())


def job_scaler(job):
    """LINEAR scaler clauses at concrete points; for LOG / REVERSE_LOG: is the construction defined (finite parameters)?"""
    pc = make_pc(job['pc'])
    dtype = getattr(np, job.get('dtype', 'float64'))
    spec = core.NumpyArraySpec.from_parameter_config(pc, core.NumpyArraySpecType.default_factory, floating_dtype=dtype)
    out = {'bounds': [repr(b) for b in pc.bounds], 'scale': job['pc'].get('scale')}
    try:
        with np.errstate(all='ignore'):
            bij = core.ModelInputArrayBijector.scaler_from_spec(spec)
    except Exception as e:  # noqa: BLE001
        out['raised'] = '%s: %s' % (type(e).__name__, str(e)[:120])
        lo, hi = pc.bounds
        allowed = isinstance(e, ValueError) and job['pc'].get('scale') in ('LOG', 'REVERSE_LOG') and (lo <= 0 or hi <= 0)
        out['clauses'] = {'refuses_only_nonpositive_log_bounds': bool(allowed)}
        return out, not allowed
    lo, hi = pc.bounds
    cl = {}
    with np.errstate(all='ignore'):
        if job['pc'].get('scale') in ('LOG', 'REVERSE_LOG'):
            mid = bij.backward_fn(np.array([[0.0], [0.5], [1.0]]))
            fw = bij.forward_fn(np.array([[lo], [(lo + hi) / 2], [hi]], dtype=np.float64))
            out['decoded'] = [repr(float(x)) for x in mid.flatten()]
            out['encoded'] = [repr(float(x)) for x in fw.flatten()]
            cl['log_of_positive'] = bool(np.all(np.isfinite(mid)) and np.all(np.isfinite(fw)))
        else:
            x, y, s = [float(dec(job[k])) for k in ('x', 'y', 's')]
            f = lambda t: float(bij.forward_fn(np.array([[t]], dtype=np.float64))[0, 0])
            b = lambda t: float(bij.backward_fn(np.array([[t]], dtype=np.float64))[0, 0])
            tol = 1e-6 * max(1.0, abs(lo), abs(hi))
            cl['unit_interval'] = -1e-9 <= f(x) <= 1 + 1e-9
            cl['inverse.decode_encode'] = abs(b(f(x)) - x) <= tol
            cl['inverse.encode_decode'] = abs(f(b(s)) - s) <= 1e-6
            if lo < hi:
                cl['decode_into_bounds'] = lo - tol <= b(s) <= hi + tol
                cl['orientation'] = abs(f(lo)) <= 1e-9 and abs(f(hi) - 1) <= 1e-9 and (not x < y or f(x) <= f(y))
                cl['output_bounds'] = tuple(float(t) for t in bij.output_spec.bounds) == (0.0, 1.0)
            out['f(x)'], out['b(s)'] = repr(f(x)), repr(b(s))
    out['clauses'] = cl
    return out, not all(cl.values())


def job_onehot(job):
    n, pad = int(job['n']), bool(job['pad_oovs'])
    pc = vz.ParameterConfig.factory('c', feasible_values=['v%03d' % i for i in range(n)])
    spec = core.NumpyArraySpec.from_parameter_config(pc, core.NumpyArraySpecType.default_factory, pad_oovs=pad)
    bij = core.ModelInputArrayBijector.onehot_embedder_from_spec(spec, dtype=getattr(np, job.get('dtype', 'float64')), pad_oovs=pad)
    D = bij.output_spec.num_dimensions
    out = {'D': int(D)}
    cl = {'width': D == n + (1 if pad else 0)}
    try:
        if job.get('block') is not None:
            y = np.array([[float(dec(v)) for v in row] for row in job['block']], dtype=np.float64).reshape([-1, D])
            un = bij.backward_fn(y)
            cl['unembed_range'] = bool(np.all((un >= 0) & (un < n)))
        else:
            idx = np.array([[int(i)] for i in job['indices']], dtype=np.int32)
            emb = bij.forward_fn(idx)
            un = bij.backward_fn(emb)
            cl['embed.shape'] = emb.shape == (len(idx), D)
            cl['embed.exactly_one_active'] = all(emb[r, idx[r, 0]] == 1 and np.sum(emb[r] == 0) == D - 1 for r in range(len(idx)))
            cl['unembed_range'] = bool(np.all((un >= 0) & (un < n)))
            cl['unembed_inverse'] = all(un[r] == idx[r, 0] for r in range(len(idx)) if idx[r, 0] < n)
            out['embedded'], out['unembedded'] = emb.tolist(), un.tolist()
    except Exception as e:  # noqa: BLE001
        out['raised'] = '%s: %s' % (type(e).__name__, str(e)[:120])
        return out, True
    out['clauses'] = cl
    return out, not all(cl.values())


def findings():
    """recorded finding: LOG scale with lower bound 0 / REVERSE_LOG with a non-positive bound is accepted; np.log of the
    bound is -inf / NaN, every decode returns None (parameter omitted)."""
    res = {}
    with np.errstate(all='ignore'):
        for key, scale, b in (('LOG', vz.ScaleType.LOG, (0.0, 10.0)), ('REVERSE_LOG', vz.ScaleType.REVERSE_LOG, (-1.0, 10.0))):
            pc = vz.ParameterConfig.factory('d', bounds=b, scale_type=scale)
            try:
                conv = converters.DefaultModelInputConverter(pc, scale=True, float_dtype=np.float64)
                dec_ = conv.to_parameter_values(np.array([[0.0], [0.5], [1.0]]))
                res[key] = {'bounds': list(b), 'decoded': [show(x) for x in dec_], 'all_none': all(x is None for x in dec_)}
            except Exception as e:  # noqa: BLE001
                res[key] = {'bounds': list(b), 'raised': type(e).__name__, 'all_none': False}
    return res, all(v['all_none'] for v in res.values())       # NOT-REPRODUCED since the fix b9fc0fc (ValueError refusal)


EPS = {'float64': 2.0 ** -52, 'float32': 2.0 ** -23}
WIDE = {'float64': 1e14, 'float32': 1e5}      # witness class of the recorded REVERSE_LOG finding: hi/lo at least this


def standin_logscale(tier):
    """bounded stand-in (DESIGN 2.8b): encode -> decode through the REAL DefaultModelInputConverter(scale=True) for LINEAR, LOG
    and REVERSE_LOG on a grid of positive bounds x points, in float64 and float32.  Tolerance in the scaled coordinate:
    min(1e-3, 1e-6 + 4*eps*(hi/lo)/ln(hi/lo)) (the rounding of `raw_sum - x` / `x - lo` relative to the range)."""
    los = [1e-300, 1e-12, 1e-3, 0.5, 1.0, 3.0, 1e3, 1e12] if tier != 'quick' else [1e-12, 1e-3, 1.0, 3.0, 1e3]
    ratios = [1.0 + 1e-12, 1.0 + 1e-6, 1.5, 2.0, 10.0, 1e3, 1e6, 1e12, 1e15, 1e17, 1e100] if tier != 'quick' else [1.0 + 1e-6, 2.0, 1e3, 1e12, 1e17]
    ts = [0.0, 1e-9, 0.1, 0.25, 1.0 / 3, 0.5, 0.75, 0.9, 1 - 1e-9, 1.0]
    fails, known, cases, worst = [], [], 0, {}
    with np.errstate(all='ignore'):
        for dtype in (np.float64, np.float32):
            dn = dtype.__name__
            for scale in (vz.ScaleType.LINEAR, vz.ScaleType.LOG, vz.ScaleType.REVERSE_LOG):
                for lo in los:
                    for ratio in ratios:
                        hi = lo * ratio
                        if not (math.isfinite(hi) and hi > lo):
                            continue
                        if dtype is np.float32 and not (1e-30 < lo and hi < 1e30 and ratio >= 1.001):
                            continue        # float32: ranges narrower than ~1e4 ulps are below the resolution of the cast (not claimed)
                        tol = min(1e-3, 1e-6 + 4 * EPS[dn] * ratio / max(math.log(ratio), 1e-30))
                        in_class = scale == vz.ScaleType.REVERSE_LOG and ratio >= WIDE[dn]
                        sink = known if in_class else fails

                        def rec(what, x=None):
                            sink.append({'scale': scale.name, 'dtype': dn, 'lo': lo, 'hi': hi, 'x': x, 'what': what})
                        pc = vz.ParameterConfig.factory('d', bounds=(lo, hi), scale_type=scale)
                        conv = converters.DefaultModelInputConverter(pc, lambda t: t, scale=True, float_dtype=dtype)
                        for t in ts:
                            x = lo + t * (hi - lo) if scale != vz.ScaleType.LOG else math.exp(math.log(lo) + t * (math.log(hi) - math.log(lo)))
                            x = min(max(x, lo), hi)
                            cases += 1
                            feat = conv.convert([x])
                            f = float(feat[0, 0])
                            back = conv.to_parameter_values(feat)[0]
                            if not (-tol <= f <= 1 + tol):
                                rec('feature %r outside the unit interval (tolerance %.2g)' % (f, tol), x)
                            elif back is None or not (lo <= back.value <= hi):
                                rec('decoded %s outside [lo, hi]' % show(back), x)
                            else:
                                # accuracy is measured in the scaled coordinate (the converter's resolution) or relatively
                                err = abs(back.value - x) / max(abs(x), 1e-300)
                                f2 = float(conv.convert([back.value])[0, 0])
                                if err > 64 * EPS[dn] and abs(f2 - f) > tol:
                                    rec('round trip error rel=%.3g scaled=%.3g' % (err, abs(f2 - f)), x)
                                k = '%s/%s' % (scale.name, dn)
                                worst[k] = max(worst.get(k, 0.0), min(err, abs(f2 - f)))
                        # orientation: lo -> 0, hi -> 1
                        f_lo, f_hi = float(conv.convert([lo])[0, 0]), float(conv.convert([hi])[0, 0])
                        if not (abs(f_lo) <= tol and abs(f_hi - 1) <= tol):
                            rec('orientation f(lo)=%r f(hi)=%r (tolerance %.2g)' % (f_lo, f_hi, tol))
    return {'cases': cases, 'n_failures': len(fails), 'failures': fails[:5], 'n_known_class': len(known), 'known_class_examples': known[:3],
            'worst_error': worst}, bool(fails)


def np_facts():
    """the numpy facts assumed by pyvc/spacekit.py"""
    bad = []
    rng = np.random.RandomState(0)
    for _ in range(300):
        x, a, b = rng.normal(size=3) * 10
        if np.clip(x, a, b) != min(max(x, a), b):
            bad.append(('clip', x, a, b))
    if not math.isnan(np.clip(np.nan, 0.0, 1.0)):
        bad.append('clip nan')
    for _ in range(200):
        v = rng.randint(0, 4, size=rng.randint(1, 8)).astype(float)
        if np.argmin(v) != list(v).index(min(v)) or np.argmax(v) != list(v).index(max(v)):
            bad.append(('argmin/argmax first', v.tolist()))
    w = np.array([3.0, np.nan, 1.0, np.nan])
    if np.argmin(w) != 1 or np.argmax(w) != 1:
        bad.append('argmin/argmax: first NaN')
    e = np.eye(5)[np.array([0, 4, 2])]
    if e.tolist() != [[1, 0, 0, 0, 0], [0, 0, 0, 0, 1], [0, 0, 1, 0, 0]]:
        bad.append('eye gather')
    if np.where(np.isfinite(np.array([1.0, np.inf, np.nan])), 7.0, -7.0).tolist() != [7.0, -7.0, -7.0]:
        bad.append('where/isfinite')
    if np.dtype(np.float32) != np.float32 or np.abs(np.array([-2.0, 3.0])).tolist() != [2.0, 3.0]:
        bad.append('dtype/abs')
    if list(np.array([[1.0], [2.0]]).flatten()) != [1.0, 2.0] or np.argmax(np.array([[0.0, 1.0], [1.0, 0.0]]), axis=1).tolist() != [1, 0]:
        bad.append('flatten/argmax axis')
    return {'checked': ['clip', 'argmin', 'argmax', 'eye', 'where', 'isfinite', 'dtype', 'abs', 'flatten'], 'disagreements': [str(b) for b in bad[:5]]}, bool(bad)


def enc(v):
    if v is None:
        return {'t': 'none', 'v': None}
    if isinstance(v, bool):
        return {'t': 'bool', 'v': v}
    if isinstance(v, int):
        return {'t': 'int', 'v': v}
    if isinstance(v, float):
        return {'t': 'float', 'v': repr(v)}
    return {'t': 'str', 'v': str(v)}


def _search_pcs():
    return [
        {'ptype': 'DISCRETE', 'feasible': [enc(0.1), enc(0.3)]},
        {'ptype': 'DISCRETE', 'feasible': [enc(1.0 / 3), enc(2.0 / 3), enc(1.0)]},
        {'ptype': 'DISCRETE', 'feasible': [enc(-2.5), enc(0.0), enc(4.0), enc(1e6)]},
        {'ptype': 'INTEGER', 'bounds': [enc(0), enc(3)]},
        {'ptype': 'INTEGER', 'bounds': [enc(-2), enc(40)]},
        {'ptype': 'INTEGER', 'bounds': [enc(16777216), enc(16777221)]},
        {'ptype': 'INTEGER', 'bounds': [enc(16777217), enc(16777223)]},
        {'ptype': 'DOUBLE', 'bounds': [enc(0.1), enc(0.3)]},
        {'ptype': 'DOUBLE', 'bounds': [enc(-7.5), enc(2.25)]},
        {'ptype': 'DOUBLE', 'bounds': [enc(10.0), enc(10.0)]},
        {'ptype': 'DOUBLE', 'bounds': [enc(1e-10), enc(1e-8)], 'scale': 'LOG'},
        {'ptype': 'DOUBLE', 'bounds': [enc(0.5), enc(64.0)], 'scale': 'REVERSE_LOG'},
        {'ptype': 'CATEGORICAL', 'feasible': [enc('a'), enc('b'), enc('c')]},
    ]


def _values_of(pc):
    if pc.type == vz.ParameterType.CATEGORICAL:
        return list(pc.feasible_values)
    if pc.type == vz.ParameterType.DOUBLE:
        lo, hi = pc.bounds
        return [lo, hi, (lo + hi) / 2, lo + (hi - lo) / 3]
    return [x for x in pc.feasible_values][:8]


def search(kind):
    """bounded native search used when a proof query is open (DESIGN 2.5 model query, done natively): a small family of parameter
    definitions x converter options x values; returns the first failing instance per clause and parameter type"""
    import itertools
    found, runs = {}, 0
    with np.errstate(all='ignore'):
        if kind in ('tpv', 'roundtrip'):
            for spec, mdi, scale, onehot, pad, dtype in itertools.product(_search_pcs(), (0, 10, 'inf'), (False, True), (False, True), (True, False),
                                                                          ('float32', 'float64')):
                base = {'pc': spec, 'dtype': dtype, 'opts': {'max_discrete_indices': mdi, 'scale': scale, 'onehot_embed': onehot, 'pad_oovs': pad}}
                pc = make_pc(spec)
                if kind == 'tpv':
                    try:
                        _, conv, _ = make_converter(base)
                    except Refused:
                        continue
                    if conv._getter_spec.type == core.NumpyArraySpecType.CONTINUOUS:
                        vs = [float(x) for x in _values_of(pc)]
                        lo, hi = min(vs), max(vs)
                        vs += [lo - 1.0, hi + 1.0, (lo + hi) / 2, 1e30, -1e30, float('nan'), float('inf')]
                    else:
                        n = len(pc.feasible_values)
                        vs = list(range(-n - 1, n + 2))
                    jobs = [dict(base, kind='tpv', value=enc(v)) for v in vs]
                else:
                    if dtype == 'float32':
                        continue        # the exact round trip is claimed for float64 converters
                    jobs = [dict(base, kind='roundtrip', raw=enc(v)) for v in _values_of(pc)]
                for job in jobs:
                    runs += 1
                    try:
                        out, bad = JOBS[job['kind']](job)
                    except Refused as r:
                        if r.bad:
                            found.setdefault('refuses_only_nonpositive_log_bounds.' + spec['ptype'], {'job': job, 'output': {'constructor_raised': str(r)}})
                        continue
                    if bad:
                        cls = out.get('clauses') or {'no_raise': False}
                        for c, ok in cls.items():
                            if not ok:
                                found.setdefault('%s.%s' % (c, spec['ptype']), {'job': job, 'output': out})
                        if 'raised' in out and not out.get('clauses'):
                            found.setdefault('no_raise.' + spec['ptype'], {'job': job, 'output': out})
        elif kind == 'onehot':
            for n, pad in itertools.product((1, 2, 3), (True, False)):
                D = n + (1 if pad else 0)
                jobs = [{'kind': 'onehot', 'n': n, 'pad_oovs': pad, 'indices': list(range(D))}]
                # arbitrary blocks: every column in turn is the row maximum (incl. the out-of-vocabulary column), ties, negatives
                rows = [[(1.0 if k == c else 0.0) for k in range(D)] for c in range(D)] + [[-1.0 - k for k in range(D)], [0.5] * D]
                jobs.append({'kind': 'onehot', 'n': n, 'pad_oovs': pad, 'block': [[enc(x) for x in r] for r in rows]})
                for job in jobs:
                    runs += 1
                    out, bad = job_onehot(job)
                    if bad:
                        for c, ok in (out.get('clauses') or {'no_raise': False}).items():
                            if not ok:
                                found.setdefault(c, {'job': job, 'output': out})
        elif kind == 'scaler':
            for spec in _search_pcs():
                if spec['ptype'] != 'DOUBLE':
                    continue
                for scale in (None, 'LINEAR'):
                    lo, hi = dec(spec['bounds'][0]), dec(spec['bounds'][1])
                    for t in (0.0, 0.25, 1.0):
                        job = {'kind': 'scaler', 'pc': dict(spec, scale=scale), 'x': enc(lo + t * (hi - lo)), 'y': enc(hi), 's': enc(t)}
                        runs += 1
                        out, bad = job_scaler(job)
                        if bad:
                            for c, ok in (out.get('clauses') or {}).items():
                                if not ok:
                                    found.setdefault('%s.%s' % (c, 'LINEAR' + ('.single_point' if lo == hi else '')), {'job': job, 'output': out})
    return {'kind': kind, 'runs': runs, 'found': found}, bool(found)


JOBS = {'tpv': job_tpv, 'roundtrip': job_roundtrip, 'labels': job_labels, 'scaler': job_scaler, 'onehot': job_onehot}


def main():
    snap = env.repo_clean_snapshot()
    a = sys.argv[1]
    if a == 'findings':
        res, bad = findings()
    elif a == 'standin_logscale':
        res, bad = standin_logscale(sys.argv[2] if len(sys.argv) > 2 else 'quick')
    elif a == 'search':
        res, bad = search(sys.argv[2])
    elif a == 'np_facts':
        res, bad = np_facts()
    else:
        job = json.load(open(a))['job']
        try:
            res, bad = JOBS[job['kind']](job)
        except Refused as r:
            res, bad = {'constructor_raised': str(r), 'clauses': {'refuses_only_nonpositive_log_bounds': not r.bad}}, r.bad
    assert env.repo_clean_snapshot() == snap, 'replay modified the repository'
    print(json.dumps(res, default=repr))
    print('REPRODUCED' if bad else 'NOT-REPRODUCED')


if __name__ == '__main__':
    main()
