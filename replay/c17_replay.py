"""C17 replay driver: concrete inputs through the REAL vizier functions (under /venv/bin/python).

usage: c17_replay.py <job.json> | --json '<job>' | findings | standin_regex [maxlen] | standin_conditional [depth [rotations]] | standin_multi_parent | end_to_end
Prints one JSON line and REPRODUCED / NOT-REPRODUCED (REPRODUCED = the real code violates the clause on this input).
The oracles are independent plain-Python statements of the property.
"""
import itertools
import json
import math
import os
import sys
from fractions import Fraction

sys.path.insert(0, os.path.dirname(os.path.abspath(__file__)))
import env  # noqa: E402,F401
from vizier._src.pyvizier.shared import parameter_config as pc_lib  # noqa: E402
from vizier._src.pyvizier.shared import trial as trial_lib  # noqa: E402


def dec(tv):
    t, v = tv['t'], tv['v']
    return {'bool': bool, 'int': int, 'float': float, 'str': str}[t](v) if t != 'none' else None


def outcome(f):
    try:
        return {'raised': None, 'value': f()}
    except BaseException as e:  # noqa: BLE001
        return {'raised': type(e).__name__, 'message': str(e)[:160]}


def same_number(a, b):
    try:
        return Fraction(a) == Fraction(b)
    except (ValueError, OverflowError, TypeError):
        return False


def truth_of(v):
    if isinstance(v, str):
        return v == 'True'
    return v == 1


def presented_ok(etype, stored, shown):
    """declared Python type and equality with the stored value"""
    if etype == 'INTERNAL':
        return type(shown) is type(stored) and (shown == stored or (shown != shown and stored != stored))
    if etype == 'BOOLEAN':
        return type(shown) is bool and shown is truth_of(stored)
    if etype == 'INTEGER':
        return type(shown) is int and same_number(shown, stored)
    if etype == 'FLOAT':
        return type(shown) is float and same_number(shown, stored)
    raise ValueError(etype)


def legal_stored(ptype, etype, v):
    num = isinstance(v, (bool, int, float)) and not (isinstance(v, float) and not math.isfinite(v))
    if ptype == 'CATEGORICAL' and etype == 'BOOLEAN':
        return v in ('True', 'False') if isinstance(v, str) else (num and v in (0, 1))
    if ptype == 'CATEGORICAL':
        return isinstance(v, (str, bool))
    if not num:
        return False
    if ptype == 'INTEGER' or etype == 'INTEGER':
        return Fraction(v).denominator == 1
    return True


def job_cast(job):
    v = dec(job['value'])
    et = trial_lib.ExternalType[job['etype']]
    out = outcome(lambda: trial_lib.ParameterValue(v).cast(et))
    res = {'raised': out['raised'], 'shown': repr(out.get('value')), 'legal_stored': legal_stored(job.get('ptype', 'DOUBLE'), job['etype'], v)}
    if not res['legal_stored']:
        return res, False
    return res, out['raised'] is not None or not presented_ok(job['etype'], v, out['value'])


def job_cast_as_internal(job):
    v = dec(job['value'])
    pt = trial_lib.ParameterType[job['ptype']]
    out = outcome(lambda: trial_lib.ParameterValue(v).cast_as_internal(pt))
    num = isinstance(v, (bool, int, float))
    if job['ptype'] == 'CATEGORICAL':
        compat = isinstance(v, (str, bool))
    elif job['ptype'] == 'INTEGER':
        compat = num and not (isinstance(v, float) and not math.isfinite(v)) and Fraction(v).denominator == 1
    else:
        compat = num and not (isinstance(v, float) and math.isnan(v))
    res = {'raised': out['raised'], 'shown': repr(out.get('value')), 'compatible': compat}
    if not compat:
        return res, out['raised'] is None
    want = {'DOUBLE': float, 'DISCRETE': float, 'INTEGER': int, 'CATEGORICAL': str}[job['ptype']]
    if out['raised'] is not None or type(out['value']) is not want:
        return res, True
    if job['ptype'] == 'CATEGORICAL':
        return res, out['value'] != (v if isinstance(v, str) else ('True' if v else 'False'))
    return res, not (same_number(out['value'], v) or (isinstance(v, float) and math.isinf(v) and out['value'] == v))


def job_external_type(job):
    space = pc_lib.SearchSpace()
    b = job['builder']
    if b == 'discrete':
        vals = [dec(x) for x in job['values']]
        kw = {} if job.get('auto_cast') is None else {'auto_cast': job['auto_cast']}
        out = outcome(lambda: space.root.add_discrete_param('p', vals, **kw))
        if out['raised']:
            return {'raised': out['raised']}, False
        got = space.get('p').external_type.name
        integral = all(Fraction(x).denominator == 1 for x in vals)
        want = 'INTEGER' if (job.get('auto_cast') is not False and integral) else 'FLOAT'
        res = {'external_type': got, 'oracle': want}
        # what a client reads for each stored feasible value
        from vizier.service import pyvizier as vz
        sc = _study_config(space)
        shown = [outcome(lambda v=v: sc._pytrial_parameters(vz.Trial(parameters={'p': v}))['p']) for v in vals]
        res['stored'] = [repr(v) for v in vals]
        res['presented'] = [repr(o.get('value')) if o['raised'] is None else o['raised'] for o in shown]
        res['presented_equals_stored'] = [o['raised'] is None and same_number(o['value'], v) for o, v in zip(shown, vals)]
        return res, got != want or not all(res['presented_equals_stored'])
    if b == 'bool':
        space.root.add_bool_param('p')
        got = space.get('p').external_type.name
        return {'external_type': got}, got != 'BOOLEAN'
    fn = {'float': lambda: space.root.add_float_param('p', 0.0, 1.0), 'int': lambda: space.root.add_int_param('p', 0, 3),
          'categorical': lambda: space.root.add_categorical_param('p', ['a', 'b'])}[b]
    fn()
    got = space.get('p').external_type.name
    return {'external_type': got}, got != 'INTERNAL'


def _study_config(space):
    from vizier.service import pyvizier as vz
    sc = vz.StudyConfig()
    sc.search_space = space
    return sc


def grouped_oracle(shown_by_name):
    """{name: value} -> multi-dimensional grouping: name[i] grouped under name in index order"""
    import re
    out, groups = {}, {}
    for n, v in shown_by_name.items():
        m = re.fullmatch(r'([^()]*)\[(\d+)\]', n)
        if m:
            groups.setdefault(m.group(1), []).append((int(m.group(2)), v))
        else:
            out[n] = v
    for b, items in groups.items():
        out[b] = [v for _, v in sorted(items, key=lambda x: x[0])]
    return out, set(groups) & {n for n in shown_by_name if not re.fullmatch(r'([^()]*)\[(\d+)\]', n)}


def job_flat_trial(job):
    """flat space of DOUBLE [0,1] parameters named job['space']; trial parameters job['parameters']"""
    from vizier.service import pyvizier as vz
    space = pc_lib.SearchSpace()
    for n in job['space']:
        space.add(pc_lib.ParameterConfig.factory(n, bounds=(0.0, 1.0)))
    sc = _study_config(space)
    params = {k: dec(v) for k, v in job['parameters'].items()}
    tr = vz.Trial(parameters=params)
    out = outcome(lambda: sc._pytrial_parameters(tr))
    unknown = sorted(set(params) - set(job['space']))
    res = {'raised': out['raised'], 'unknown': unknown, 'shown': repr(out.get('value'))}
    if unknown:
        return res, out['raised'] != 'ValueError'
    want, collisions = grouped_oracle(params)
    res['oracle'] = repr(want)
    res['collision_of_plain_and_indexed_name'] = sorted(collisions)
    return res, out['raised'] is not None or out['value'] != want


# ---------------------------------------------------------------------------------------- stand-ins
def standin_regex(maxlen=6):
    """parse_multi_dimensional_parameter_name on every string over a small alphabet, against an independent parser;
    and parse(_multi_dimensional_parameter_name(base, i)) == (base, i)."""
    S = pc_lib.SearchSpaceSelector
    alphabet = 'a[]01()'
    n = bad = 0
    fails = []

    def oracle(s):
        if not s.endswith(']'):
            return None
        k = s.rfind('[')
        if k < 0:
            return None
        digits = s[k + 1:-1]
        if not digits or any(c not in '0123456789' for c in digits):
            return None
        if '(' in s[:k] or ')' in s[:k]:
            return None
        return (s[:k], int(digits))
    for L in range(0, maxlen + 1):
        for tup in itertools.product(alphabet, repeat=L):
            s = ''.join(tup)
            n += 1
            got, want = S.parse_multi_dimensional_parameter_name(s), oracle(s)
            if got != want:
                bad += 1
                if len(fails) < 5:
                    fails.append({'name': s, 'got': repr(got), 'oracle': repr(want)})
    for base in ('', 'x', 'a_b', 'x[1]', 'w w'):
        for i in (0, 1, 7, 10, 123):
            n += 1
            nm = S._multi_dimensional_parameter_name(base, i)
            if S.parse_multi_dimensional_parameter_name(nm) != (base, i):
                bad += 1
                fails.append({'roundtrip': nm})
    return {'strings': n, 'n_failures': bad, 'failures': fails}


PARENT_KINDS = ('cat', 'int', 'disc', 'bool')


def _sub_shapes(depth):
    if depth <= 0:
        return [()]
    ps = _parent_shapes(depth)
    return [()] + [(p,) for p in ps] + [(p, 'leaf') for p in ps]


_CACHE = {}


def _parent_shapes(depth):
    if depth not in _CACHE:
        subs = _sub_shapes(depth - 1)
        _CACHE[depth] = [(a, b) for a in subs for b in subs]
    return _CACHE[depth]


def _build(sel, shape, path, rot, reg):
    names = []
    for k, item in enumerate(shape):
        name = '%s%d' % (path, k)
        names.append(name)
        if item == 'leaf':
            sel.add_float_param(name, 0.0, 1.0)
            reg[name] = ('leaf', None, 'INTERNAL')
            continue
        kind = PARENT_KINDS[(len(path) + k + rot) % 4]
        if kind == 'cat':
            values, et = ['a', 'b'], 'INTERNAL'
            sel.add_categorical_param(name, values)
        elif kind == 'int':
            values, et = [0, 1], 'INTERNAL'
            sel.add_int_param(name, 0, 1)
        elif kind == 'disc':
            values, et = [1.0, 2.0], 'INTEGER'
            sel.add_discrete_param(name, values)
        else:
            values, et = ['True', 'False'], 'BOOLEAN'
            sel.add_bool_param(name)
        kids = {}
        for vi, (val, sub) in enumerate(zip(values, item)):
            selv = True if (kind == 'bool' and val == 'True') else (False if kind == 'bool' else val)
            kids[repr(val)] = _build(sel.select(name, [selv]), sub, '%s%dv%d_' % (path, k, vi), rot, reg)
        reg[name] = (kind, (values, kids), et)
    return names


def _assignments(names, reg):
    """all active assignments (independent recursion): list of dicts name -> stored value"""
    if not names:
        return [{}]
    head, rest = names[0], names[1:]
    kind, info, _ = reg[head]
    outs = []
    if kind == 'leaf':
        for tail in _assignments(rest, reg):
            outs.append(dict({head: 0.25}, **tail))
        return outs
    values, kids = info
    for v in values:
        for sub in _assignments(kids[repr(v)], reg):
            for tail in _assignments(rest, reg):
                d = {head: v}
                d.update(sub)
                d.update(tail)
                outs.append(d)
    return outs


def _all_names(names, reg):
    out = []
    for n in names:
        out.append(n)
        kind, info, _ = reg[n]
        if kind != 'leaf':
            for ks in info[1].values():
                out.extend(_all_names(ks, reg))
    return out


def standin_conditional(depth=3, rotations=(0, 1, 2, 3), wire_every=5):
    """StudyConfig._pytrial_parameters / trial_parameters on conditional spaces (real BFS with pop(0)/extend):
    an exactly-active trial is presented completely and in the declared types; a trial with an inactive or unknown
    parameter is an error; a missing active parameter is simply absent."""
    from vizier.service import pyvizier as vz
    tops = []
    for p in _parent_shapes(depth):
        tops.append((p,))
        tops.append((p, 'leaf'))
    tops.append(('leaf',))
    spaces = trials = 0
    fails = []

    def check(sc, reg, params, want_error, via_wire, note):
        nonlocal trials
        trials += 1
        tr = vz.Trial(parameters=params)
        if via_wire:
            out = outcome(lambda: sc.trial_parameters(vz.TrialConverter.to_proto(tr)))
        else:
            out = outcome(lambda: sc._pytrial_parameters(tr))
        if want_error:
            ok = out['raised'] == 'ValueError'
        else:
            ok = out['raised'] is None and set(out['value']) == set(params)
            if ok:
                for n, stored in params.items():
                    et = reg[n][2]
                    shown = out['value'][n]
                    if via_wire and et == 'INTERNAL' and isinstance(stored, (int, float)) and not isinstance(stored, bool):
                        ok = ok and type(shown) is float and same_number(shown, stored)     # every number arrives as a double
                    else:
                        ok = ok and presented_ok(et, stored, shown)
        if not ok and len(fails) < 6:
            fails.append({'note': note, 'wire': via_wire, 'parameters': repr(params), 'want_error': want_error,
                          'got': out['raised'] or repr(out['value'])})
        return ok
    n_bad = 0
    for si, top in enumerate(tops):
        for rot in rotations:
            space = pc_lib.SearchSpace()
            reg = {}
            top_names = _build(space.root, top, 'p', rot, reg)
            sc = _study_config(space)
            spaces += 1
            everything = _all_names(top_names, reg)
            for ai, active in enumerate(_assignments(top_names, reg)):
                wire = (si + ai) % wire_every == 0
                for via_wire in ((False, True) if wire else (False,)):
                    n_bad += not check(sc, reg, active, False, via_wire, 'exactly the active parameters')
                    inactive = [n for n in everything if n not in active]
                    if inactive:
                        extra = dict(active)
                        kind = reg[inactive[0]][0]
                        extra[inactive[0]] = 0.25 if kind == 'leaf' else reg[inactive[0]][1][0][0]
                        n_bad += not check(sc, reg, extra, True, via_wire, 'one inactive parameter added')
                    unknown = dict(active, zz=1.0)
                    n_bad += not check(sc, reg, unknown, True, via_wire, 'one unknown parameter added')
                    leaves = [n for n in active if reg[n][0] == 'leaf']
                    if leaves:
                        missing = {k: v for k, v in active.items() if k != leaves[-1]}
                        n_bad += not check(sc, reg, missing, False, via_wire, 'one active leaf missing')
    return {'spaces': spaces, 'trials': trials, 'n_failures': n_bad, 'failures': fails, 'depth': depth}


def standin_multi_parent():
    """children declared under SEVERAL parent values in ONE declaration (factory(children=[([v1, v2], child)]), and the
    same space after a StudyConfig.to_proto/from_proto round trip = ConditionalParameterSpec with several parent values):
    a trial whose child is active under ANY of the declared values is presented; under another value it is an error."""
    from vizier.service import pyvizier as vz
    F = pc_lib.ParameterConfig.factory
    leaf = lambda n: F(n, bounds=(0.0, 1.0))
    disc = lambda n: F(n, feasible_values=[8.0, 16.0], external_type=trial_lib.ExternalType.INTEGER)
    deep = F('opt', feasible_values=['x', 'y', 'z'], children=[(['x', 'z'], leaf('mom'))])
    parents = [
        # (config, {parent value: [active child names]}, presented types)
        (F('model', feasible_values=['dnn', 'linear', 'tree'],
           children=[(['dnn', 'linear'], leaf('lr')), (['linear', 'tree'], disc('batch')), (['tree'], leaf('depth')), (['dnn', 'tree'], deep)]),
         {'dnn': ['lr', 'opt'], 'linear': ['lr', 'batch'], 'tree': ['batch', 'depth', 'opt']}),
        (F('layers', bounds=(1, 3), children=[([2, 3], leaf('skip')), ([1, 3], leaf('wide'))]),
         {1: ['wide'], 2: ['skip'], 3: ['skip', 'wide']}),
        (F('d', feasible_values=[1.0, 2.0, 4.0], children=[([4.0, 1.0], leaf('dd'))]),
         {1.0: ['dd'], 2.0: [], 4.0: ['dd']}),
        (F('flag', feasible_values=['False', 'True'], external_type=trial_lib.ExternalType.BOOLEAN,
           children=[(['True', 'False'], leaf('both'))]),
         {'True': ['both'], 'False': ['both']}),
    ]
    stored = {'lr': 0.25, 'batch': 16.0, 'depth': 0.5, 'mom': 0.75, 'skip': 0.1, 'wide': 0.2, 'dd': 0.3, 'both': 0.4}
    all_children = {'model': ['lr', 'batch', 'depth', 'opt'], 'layers': ['skip', 'wide'], 'd': ['dd'], 'flag': ['both']}
    cases, fails = 0, []
    for cfg, active in parents:
        space = pc_lib.SearchSpace()
        space.add(cfg)
        sc = _study_config(space)
        scs = [('factory', sc)]
        rt = outcome(lambda: vz.StudyConfig.from_proto(sc.to_proto()))
        if rt['raised'] is None:
            scs.append(('proto round trip', rt['value']))
        else:
            fails.append({'space': cfg.name, 'proto_round_trip': rt['raised']})
        for how, cur in scs:
            for pv, kids in active.items():
                variants = [{}]
                if 'opt' in kids:
                    variants = [{'opt': 'x', 'mom': stored['mom']}, {'opt': 'y'}, {'opt': 'z', 'mom': stored['mom']}]
                for extra in variants:
                    params = {cfg.name: pv}
                    params.update({k: stored[k] for k in kids if k != 'opt'})
                    params.update(extra)
                    for via_wire in (False, True):
                        cases += 1
                        tr = vz.Trial(parameters=params)
                        out = outcome((lambda: cur.trial_parameters(vz.TrialConverter.to_proto(tr))) if via_wire else (lambda: cur._pytrial_parameters(tr)))
                        ok = out['raised'] is None and set(out['value']) == set(params)
                        if ok:
                            for n, v in params.items():
                                shown = out['value'][n]
                                if n == 'batch':
                                    ok = ok and type(shown) is int and same_number(shown, v)
                                elif n == 'flag':
                                    ok = ok and type(shown) is bool and shown is (v == 'True')
                                elif isinstance(v, str):
                                    ok = ok and shown == v
                                else:
                                    ok = ok and same_number(shown, v)
                        if not ok and len(fails) < 6:
                            fails.append({'space': how, 'wire': via_wire, 'parameters': repr(params), 'expected': 'presented',
                                          'got': out['raised'] or repr(out['value'])})
                        # one child that is not active under this parent value: an error
                        for n in all_children[cfg.name]:
                            if n not in kids:
                                cases += 1
                                bad = dict(params)
                                bad[n] = 'x' if n == 'opt' else stored[n]
                                tr2 = vz.Trial(parameters=bad)
                                out2 = outcome((lambda: cur.trial_parameters(vz.TrialConverter.to_proto(tr2))) if via_wire else (lambda: cur._pytrial_parameters(tr2)))
                                if out2['raised'] != 'ValueError' and len(fails) < 6:
                                    fails.append({'space': how, 'wire': via_wire, 'parameters': repr(bad), 'expected': 'ValueError (inactive child)',
                                                  'got': out2['raised'] or repr(out2['value'])})
                                break
    return {'cases': cases, 'n_failures': len(fails), 'failures': fails}


def end_to_end():
    """clients.Trial.parameters through a local RAM service (the wire): flat space with every builder kind,
    multi-dimensional names, and a conditional space."""
    from vizier._src.service import clients, vizier_client
    from vizier.service import pyvizier as vz
    vizier_client.environment_variables.servicer_use_sql_ram()
    fails, n = [], 0

    def study_for(build, sid):
        sc = vz.StudyConfig()
        build(sc.search_space.root)
        sc.metric_information.append(vz.MetricInformation('m', goal=vz.ObjectiveMetricGoal.MAXIMIZE))
        sc.algorithm = 'RANDOM_SEARCH'
        return clients.Study.from_study_config(sc, owner='o17', study_id=sid), sc

    def flat(root):
        root.add_float_param('f', 0.0, 1.0)
        root.add_int_param('i', 0, 5)
        root.add_discrete_param('di', [1, 2, 3])
        root.add_discrete_param('df', [0.5, 2])
        root.add_discrete_param('dn', [1, 2], auto_cast=False)
        root.add_categorical_param('c', ['a', '1', 'True'])
        root.add_bool_param('b')
        root.add_float_param('w', 0.0, 1.0, index=1)
        root.add_float_param('w', 0.0, 1.0, index=0)
        root.add_float_param('w', 0.0, 1.0, index=10)
    study, sc = study_for(flat, 'flat_%d' % os.getpid())
    decl = {'f': 'FLOATISH', 'i': 'NUMBER', 'di': 'INTEGER', 'df': 'FLOAT', 'dn': 'FLOAT', 'c': 'STR', 'b': 'BOOLEAN'}
    for params in ({'f': 0.5, 'i': 3, 'di': 2, 'df': 2, 'dn': 1, 'c': '1', 'b': 'True', 'w[1]': 0.1, 'w[0]': 0.2, 'w[10]': 0.3},
                   {'f': 1, 'i': 3.0, 'di': 3.0, 'df': 0.5, 'dn': 2.0, 'c': 'True', 'b': True, 'w[1]': 0.1, 'w[0]': 0.2, 'w[10]': 0.3},
                   {'f': 0.0, 'i': 0, 'di': 1, 'df': 2.0, 'dn': 1, 'c': 'a', 'b': False, 'w[1]': 0.1, 'w[0]': 0.2, 'w[10]': 0.3}):
        n += 1
        t = study.add_trial(vz.Trial(parameters=params))
        o = outcome(lambda: dict(t.parameters))
        shown = o.get('value') if o['raised'] is None else {'raised': o['raised']}
        ok = set(shown) == {'f', 'i', 'di', 'df', 'dn', 'c', 'b', 'w'}
        if ok:
            ok = ok and type(shown['f']) is float and same_number(shown['f'], params['f'])
            ok = ok and same_number(shown['i'], params['i'])
            ok = ok and type(shown['di']) is int and same_number(shown['di'], params['di'])
            ok = ok and type(shown['df']) is float and same_number(shown['df'], params['df'])
            ok = ok and type(shown['dn']) is float and same_number(shown['dn'], params['dn'])
            ok = ok and type(shown['c']) is str and shown['c'] == params['c']
            ok = ok and type(shown['b']) is bool and shown['b'] is truth_of(params['b'])
            ok = ok and shown['w'] == [0.2, 0.1, 0.3]
        if not ok:
            fails.append({'stored': repr(params), 'shown': repr(shown)})

    def cond(root):
        root.add_categorical_param('m', ['dnn', 'lin'])
        root.select('m', ['dnn']).add_int_param('layers', 1, 3)
        root.select('m', ['lin']).add_discrete_param('reg', [0.0, 1.0])
        root.add_bool_param('bias')
    study2, sc2 = study_for(cond, 'cond_%d' % os.getpid())
    for params, want_err in (({'m': 'dnn', 'layers': 2, 'bias': 'True'}, False), ({'m': 'lin', 'reg': 1.0, 'bias': 'False'}, False),
                             ({'m': 'lin', 'layers': 2, 'bias': 'False'}, True), ({'m': 'dnn', 'layers': 2, 'bias': 'True', 'zz': 1}, True)):
        n += 1
        t = study2.request(vz.TrialSuggestion(parameters=params))
        out = outcome(lambda: dict(t.parameters))
        if want_err:
            ok = out['raised'] == 'ValueError'
        else:
            ok = out['raised'] is None and set(out['value']) == set(params) and type(out['value']['bias']) is bool
            if ok and 'reg' in params:
                ok = type(out['value']['reg']) is int
        if not ok:
            fails.append({'stored': repr(params), 'want_error': want_err, 'got': out['raised'] or repr(out['value'])})
    return {'cases': n, 'failures': fails, 'n_failures': len(fails)}


def findings():
    """a plain parameter named like the base of an indexed parameter is overwritten by the grouped list"""
    from vizier.service import pyvizier as vz
    sc = vz.StudyConfig()
    r = sc.search_space.root
    r.add_float_param('x', 0, 1)
    r.add_float_param('x', 0, 1, index=0)
    out = outcome(lambda: sc._pytrial_parameters(vz.Trial(parameters={'x': 0.5, 'x[0]': 0.2})))
    return {'shown': repr(out.get('value')), 'raised': out['raised']}, out['raised'] is None and out['value'] == {'x': [0.2]}


JOBS = {'cast': job_cast, 'cast_as_internal': job_cast_as_internal, 'external_type': job_external_type, 'flat_trial': job_flat_trial}


def main(argv):
    before = env.repo_clean_snapshot()
    if argv[0] == 'findings':
        res, bad = findings()
    elif argv[0] == 'standin_regex':
        res = standin_regex(int(argv[1]) if len(argv) > 1 else 6)
        bad = bool(res['n_failures'])
    elif argv[0] == 'standin_conditional':
        res = standin_conditional(int(argv[1]) if len(argv) > 1 else 3, tuple(int(c) for c in argv[2]) if len(argv) > 2 else (0, 1, 2, 3))
        bad = bool(res['n_failures'])
    elif argv[0] == 'standin_multi_parent':
        res = standin_multi_parent()
        bad = bool(res['n_failures'])
    elif argv[0] == 'end_to_end':
        res = end_to_end()
        bad = bool(res['n_failures'])
    else:
        job = json.loads(argv[1]) if argv[0] == '--json' else json.load(open(argv[0]))
        job = job.get('job', job)
        if job['kind'] == 'end_to_end':
            res = end_to_end()
            bad = bool(res['n_failures'])
        else:
            res, bad = JOBS[job['kind']](job)
    if env.repo_clean_snapshot() != before:
        res['repo_touched'] = True
    print(json.dumps(res, default=repr))
    print('REPRODUCED' if bad else 'NOT-REPRODUCED')
    return 0


if __name__ == '__main__':
    sys.exit(main(sys.argv[1:]))
