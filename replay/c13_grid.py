"""C13 replay for GridSearchDesigner obligations: evaluates the violated clauses natively on the REAL class.

usage: c13_grid.py [--count C] [--start S] [--seed SEED]
Checks (each is the native reading of a C13.grid.* obligation):
  index      : suggest(c) returns c points (1 for None/0), _current_index advances by the number returned
  digits     : the point suggested for index i is grid[p][(i // W_p) % L_p] for every parameter p (dict order)
  window     : the first N suggestions are pairwise distinct, the next N repeat them in order
  restart    : dump -> fresh instance (other constructor seed) -> load restores _current_index, _shuffle_seed, _grid_values
               and a restarted run suggests what the live run suggests
  nonempty   : every parameter (including an integer parameter with lo == hi) has at least one grid point
Prints one JSON line and REPRODUCED when a check fails, NOT-REPRODUCED otherwise.
"""
import argparse
import json
import os
import sys

sys.path.insert(0, os.path.dirname(os.path.abspath(__file__)))
import env  # noqa: E402,F401
from vizier import pyvizier as vz  # noqa: E402


def space():
    p = vz.ProblemStatement()
    r = p.search_space.root
    r.add_int_param('i', 0, 2)
    r.add_categorical_param('c', ['a', 'b'])
    r.add_int_param('k', 5, 5)
    r.add_discrete_param('d', [0.5, 1.5])
    r.add_float_param('x', 0.0, 1.0)
    r.add_float_param('z', 2.0, 2.0)
    p.metric_information.append(vz.MetricInformation('m', goal=vz.ObjectiveMetricGoal.MAXIMIZE))
    return p


def pv(s):
    return {k: v.value for k, v in s.parameters.items()}


def expected(d, i):
    out = {}
    t = i
    for name in d._grid_values:
        lst = d._grid_values[name]
        out[name] = lst[t % len(lst)].value
        t //= len(lst)
    return out


def main():
    ap = argparse.ArgumentParser()
    ap.add_argument('--count', type=int, default=2)
    ap.add_argument('--start', type=int, default=0)
    ap.add_argument('--seed', type=int, default=None)
    a = ap.parse_args()
    from vizier._src.algorithms.designers import grid
    before = env.repo_clean_snapshot()
    failed = []

    def fail(check, **kw):
        failed.append(dict(check=check, **{k: (v if isinstance(v, (int, str, type(None))) else str(v)[:300]) for k, v in kw.items()}))

    try:
        p = space()
        for seed in sorted({None, a.seed, 7}, key=lambda x: (x is not None, x)):
            d = grid.GridSearchDesigner.from_problem(p, seed)
            if d._shuffle_seed != seed:
                fail('from_problem.seed', seed=seed, got=d._shuffle_seed)
            n = 1
            for name, lst in d._grid_values.items():
                if len(lst) < 1:
                    fail('nonempty', parameter=name)
                n *= max(len(lst), 1)
            if failed:
                break
            # index bookkeeping at the model's state
            if a.start:
                d.suggest(a.start)
            cur = d._current_index
            if cur != a.start:
                fail('index', what='after suggest(start)', start=a.start, current_index=cur)
            for c in (a.count, None, 0, 3):
                cur = d._current_index
                out = d.suggest(c)
                want = c if c else 1
                if len(out) != want or d._current_index != cur + len(out):
                    fail('index', count=c, returned=len(out), before=cur, after=d._current_index)
                for k, s in enumerate(out):
                    if pv(s) != expected(d, cur + k):
                        fail('digits', index=cur + k, got=pv(s), want=expected(d, cur + k))
            # window: exactly once before repeating, regardless of batch sizes
            d = grid.GridSearchDesigner.from_problem(p, seed)
            pts, batches = [], [1, 2, 3, 5]
            b = 0
            while len(pts) < 2 * n:
                pts += [json.dumps(pv(s), sort_keys=True) for s in d.suggest(batches[b % len(batches)])]
                b += 1
            if len(set(pts[:n])) != n:
                fail('window', what='a point repeats within the first N=%d suggestions' % n)
            if pts[n:2 * n] != pts[:n]:
                fail('window', what='the second sweep differs from the first')
            # restart after every step
            live = grid.GridSearchDesigner.from_problem(p, seed)
            rest = grid.GridSearchDesigner.from_problem(p, seed)
            for step in range(2 * n // 2 + 2):
                md = rest.dump()
                fresh = grid.GridSearchDesigner.from_problem(p, None if seed is None else seed + 1000)
                try:
                    fresh.load(md)
                except Exception as e:
                    fail('restart', what='load(dump(d)) raised %s' % type(e).__name__, step=step)
                    break
                if (fresh._current_index, fresh._shuffle_seed) != (rest._current_index, rest._shuffle_seed) or \
                        {k: [x.value for x in v] for k, v in fresh._grid_values.items()} != {k: [x.value for x in v] for k, v in rest._grid_values.items()} or \
                        list(fresh._grid_values) != list(rest._grid_values):
                    fail('restart', what='restored state differs', step=step, live=(rest._current_index, rest._shuffle_seed),
                         restored=(fresh._current_index, fresh._shuffle_seed))
                    break
                rest = fresh
                c = batches[step % len(batches)]
                x, y = [pv(s) for s in live.suggest(c)], [pv(s) for s in rest.suggest(c)]
                if x != y:
                    fail('restart', what='suggestions differ', step=step, live=x[:2], restored=y[:2])
                    break
    except Exception as e:
        import traceback
        fail('exception', what='%s: %s' % (type(e).__name__, str(e)[:200]), tb=traceback.format_exc()[-500:])
    clean = env.repo_clean_snapshot() == before
    print(json.dumps({'failed': failed, 'repo_untouched': clean}, default=str))
    print('REPRODUCED' if failed else 'NOT-REPRODUCED')
    return 0


if __name__ == '__main__':
    sys.exit(main())
