"""Import-time stand-in for equinox (uninstallable against jax 0.11 in this sandbox)."""
import dataclasses
class _Meta(type):
    def __new__(m, name, bases, ns, **kw):
        cls = super().__new__(m, name, bases, ns)
        return dataclasses.dataclass(cls) if '__annotations__' in ns else cls
class Module(metaclass=_Meta): pass
def field(*a, static=False, converter=None, **kw): return dataclasses.field(*a, **kw)
def _passthrough(f=None, **kw):
    if f is None: return lambda g: g
    return f
filter_jit = filter_vmap = filter_grad = _passthrough
def __getattr__(name): raise AttributeError('equinox stand-in has no %s' % name)
