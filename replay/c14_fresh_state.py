"""C14 native witness: a state produced by an ExperimenterDesignerBenchmarkStateFactory must not depend on the states the same
factory object produced before (seeded-noise experimenter: the noise stream must restart with every state).
prints one JSON line {"reproduced": bool, ...}"""
import json, os, sys
sys.path.insert(0, os.path.dirname(os.path.abspath(__file__)))
import env  # noqa
import numpy as np  # noqa
from vizier import pyvizier as vz  # noqa
from vizier._src.algorithms.designers import random as random_designer  # noqa
from vizier._src.benchmarks.experimenters import experimenter_factory  # noqa
from vizier._src.benchmarks.runners import benchmark_state, benchmark_runner  # noqa


def make():
    ef = experimenter_factory.SingleObjectiveExperimenterFactory(
        base_factory=experimenter_factory.BBOBExperimenterFactory(name='Sphere', dim=2), noise_type='SEVERE_ADDITIVE_GAUSSIAN', noise_seed=5)
    return benchmark_state.ExperimenterDesignerBenchmarkStateFactory(
        experimenter_factory=ef, designer_factory=lambda p, seed=None: random_designer.RandomDesigner(p.search_space, seed=seed))


def run(state, n=4):
    runner = benchmark_runner.BenchmarkRunner(benchmark_subroutines=[benchmark_runner.GenerateAndEvaluate(1)], num_repeats=n)
    runner.run(state)
    out = []
    for t in state.algorithm.supporter.GetTrials():
        fm = t.final_measurement
        out.append([round(float(v), 9) for v in t.parameters.as_dict().values()] + ([round(float(m.value), 9) for m in fm.metrics.values()] if fm else []))
    return out


try:
    f1 = make()
    run(f1(seed=3))                 # an earlier study from the same factory object
    later = run(f1(seed=0))
    fresh = run(make()(seed=0))     # the same seeded study as the first product of a fresh factory
    print(json.dumps({'reproduced': later != fresh, 'later_study': later, 'fresh_factory': fresh}))
except Exception as e:  # a driver failure is never a verdict
    print(json.dumps({'reproduced': None, 'error': repr(e)}))
