import sys; sys.path.insert(0,'/verif/replay'); import env
from vizier._src.service import vizier_service_pb2 as v, study_pb2
s = env.new_servicer(None)
st = s.CreateStudy(v.CreateStudyRequest(parent='owners/o', study=study_pb2.Study(display_name='x')))
t = s.CreateTrial(v.CreateTrialRequest(parent=st.name, trial=study_pb2.Trial()))
op = s.SuggestTrials(v.SuggestTrialsRequest(parent=st.name, suggestion_count=1, client_id='c'))
t2 = s.CompleteTrial(v.CompleteTrialRequest(name=t.name, trial_infeasible=True, infeasible_reason='r'))
print(study_pb2.Trial.State.Name(t2.state))
m = study_pb2.Measurement(step_count=3)
r = s.AddTrialMeasurement(v.AddTrialMeasurementRequest(trial_name=t.name, measurement=m))
print('returned', study_pb2.Trial.State.Name(r.state), len(r.measurements))
try:
    s.AddTrialMeasurement(v.AddTrialMeasurementRequest(trial_name=t.name.replace('trials/1','trials/1'), measurement=m))
except Exception as e: print(type(e))
