"""C19 replay driver: run concrete inputs through the REAL vectorized optimizer code and evaluate the violated clause.

usage: /venv/bin/python c19_replay.py <mode> [args]  [< payload.json]     -> one JSON line on stdout
modes:
  ubr                 payload {count, new_rewards, new_cont, new_cat, best_rewards, best_cont, best_cat}: run the real
                      VectorizedOptimizer._update_best_results and check the specification of contracts/c19.py section A
  battery [names..]   end-to-end runs of the real optimizer (eagle / random strategy, priors, padding, non-finite scores,
                      count > evaluations) checking every clause of C19 by an independent Python predicate
  witness <name>      the reproducers of the recorded findings (known_findings.d/C19.json)
Everything honours $VERIF_REPO (through env.py).  The equinox stand-in of the sandbox does not register its Module as a
pytree, so VectorizedStrategyResults is registered here (what real equinox does); no file of the repository is touched.
"""
import itertools
import json
import math
import os
import sys

HERE = os.path.dirname(os.path.abspath(__file__))
sys.path.insert(0, HERE)
import env  # noqa: E402,F401

import warnings  # noqa: E402
warnings.filterwarnings('ignore')
import numpy as np  # noqa: E402
import jax  # noqa: E402
import jax.numpy as jnp  # noqa: E402

from vizier import pyvizier as vz  # noqa: E402
from vizier._src.algorithms.optimizers import vectorized_base as vb  # noqa: E402
from vizier._src.algorithms.optimizers import eagle_strategy as es  # noqa: E402
from vizier._src.algorithms.optimizers import random_vectorized_optimizer as rvo  # noqa: E402
from vizier._src.jax import types  # noqa: E402
from vizier.pyvizier import converters  # noqa: E402
from vizier.pyvizier.converters import padding  # noqa: E402

try:
    jax.tree_util.register_pytree_node(vb.VectorizedStrategyResults, lambda r: ((r.features, r.rewards, r.aux), None),
                                       lambda a, c: vb.VectorizedStrategyResults(*c))
except ValueError:
    pass


def fl(x):
    if isinstance(x, str):
        return float(x)
    return float(x)


def jsonable(x):
    if isinstance(x, (np.ndarray, jnp.ndarray)):
        return jsonable(np.asarray(x).tolist())
    if isinstance(x, (list, tuple)):
        return [jsonable(v) for v in x]
    if isinstance(x, float):
        if math.isnan(x):
            return 'nan'
        if math.isinf(x):
            return 'inf' if x > 0 else '-inf'
        return x
    if isinstance(x, (np.floating, np.integer)):
        return jsonable(x.item())
    return x


# ------------------------------------------------------------------------------------------ specification of section A
def same(a, b):
    a, b = float(a), float(b)
    return (math.isnan(a) and math.isnan(b)) or a == b


def spec_update_best_results(count, new_r, new_c, new_k, best_r, best_c, best_k, res_r, res_c, res_k):
    """-> dict clause -> bool (True = holds).  ALL = new ++ best."""
    all_r = list(new_r) + list(best_r)
    all_c = list(new_c) + list(best_c)
    all_k = list(new_k) + list(best_k)
    n = len(all_r)
    out = {'count': len(res_r) == count and len(res_c) == count and len(res_k) == count}
    if not out['count']:
        return out

    def row_eq(t, j):
        return same(res_r[t], all_r[j]) and np.array_equal(np.asarray(res_c[t]), np.asarray(all_c[j]), equal_nan=True) \
            and np.array_equal(np.asarray(res_k[t]), np.asarray(all_k[j]))
    maps = [m for m in itertools.permutations(range(n), count) if all(row_eq(t, m[t]) for t in range(count))]
    out['pairs'] = bool(maps)

    def rank(x):
        x = float(x)
        return -math.inf if math.isnan(x) else x

    def topk(m, residual):
        for j in range(n):
            if j in m:
                continue
            for t in range(count):
                good = rank(res_r[t]) >= rank(all_r[j])          # NaN ranks as -inf
                if residual:
                    good = good or math.isnan(float(res_r[t]))
                if not good:
                    return False
        return True
    out['topk'] = any(topk(m, False) for m in maps)
    out['topk.residual'] = any(topk(m, True) for m in maps)
    mono = all(any(rank(a) >= rank(o) for a in res_r) for o in best_r)
    out['best_never_decreases'] = mono
    return out


def run_ubr(p):
    count = int(p['count'])
    P = int(p.get('P', 1))

    def arr3(x, dtype, conv):
        n = len(x)
        flat = [conv(v) for row in x for pt in row for v in pt]
        D = (len(flat) // (n * P)) if n and P else 0
        return jnp.asarray(np.array(flat, dtype=dtype).reshape(n, P, D))
    new_r = jnp.asarray(np.array([fl(v) for v in p['new_rewards']], dtype=np.float32))
    best_r = jnp.asarray(np.array([fl(v) for v in p['best_rewards']], dtype=np.float32))
    new_c, best_c = arr3(p['new_cont'], np.float32, fl), arr3(p['best_cont'], np.float32, fl)
    new_k, best_k = arr3(p['new_cat'], np.int32, int), arr3(p['best_cat'], np.int32, int)
    opt = vb.VectorizedOptimizer(strategy=None, n_feature_dimensions=types.ContinuousAndCategorical(new_c.shape[-1], new_k.shape[-1]),
                                 n_feature_dimensions_with_padding=types.ContinuousAndCategorical(new_c.shape[-1], new_k.shape[-1]))
    best = vb.VectorizedStrategyResults(rewards=best_r, features=vb.VectorizedOptimizerInput(best_c, best_k))
    res = opt._update_best_results(best, count, vb.VectorizedOptimizerInput(new_c, new_k), new_r)
    rr, rc, rk = np.asarray(res.rewards), np.asarray(res.features.continuous), np.asarray(res.features.categorical)
    verdict = spec_update_best_results(count, np.asarray(new_r), np.asarray(new_c), np.asarray(new_k), np.asarray(best_r), np.asarray(best_c),
                                       np.asarray(best_k), rr, rc, rk)
    return {'clauses': verdict, 'result': {'rewards': jsonable(rr), 'continuous': jsonable(rc), 'categorical': jsonable(rk)}}


# ------------------------------------------------------------------------------------------ end-to-end battery
def problem(nc=2, cats=(3,)):
    p = vz.ProblemStatement()
    for i in range(nc):
        p.search_space.root.add_float_param('x%d' % i, 0, 1)
    for i, k in enumerate(cats):
        p.search_space.root.add_categorical_param('c%d' % i, [str(j) for j in range(k)])
    p.metric_information.append(vz.MetricInformation('m', goal=vz.ObjectiveMetricGoal.MAXIMIZE))
    return p


def make_converter(nc, cats, pad):
    ps = padding.PaddingSchedule(num_trials=padding.PaddingType.MULTIPLES_OF_10, num_features=padding.PaddingType.POWERS_OF_2) if pad \
        else padding.PaddingSchedule()
    return converters.TrialToModelInputConverter.from_problem(problem(nc, cats), padding_schedule=ps)


def cont_in(x):
    return x.continuous.padded_array


SCORES = {
    'sphere': lambda x, s: -jnp.sum((cont_in(x) - 0.3) ** 2, axis=-1) if cont_in(x).shape[-1] else jnp.zeros(cont_in(x).shape[:-1]),
    'corner': lambda x, s: jnp.sum(cont_in(x), axis=-1) + jnp.sum(x.categorical.padded_array, axis=-1),
    'plateau': lambda x, s: jnp.ones(cont_in(x).shape[:-1]),
    'neginf': lambda x, s: -jnp.inf * jnp.ones(cont_in(x).shape[:-1]),
    'nan_region': lambda x, s: jnp.where(cont_in(x)[..., 0] < 0.3, jnp.nan, -jnp.sum((cont_in(x) - 0.6) ** 2, axis=-1)),
    'categorical': lambda x, s: (x.categorical.padded_array[..., 0] == 1).astype(jnp.float32),
    'seeded': lambda x, s: -jnp.sum((cont_in(x) - 0.3) ** 2, axis=-1) + jax.random.uniform(s, ()),
}


def par(score):
    """parallel (n_parallel given) version of a score function: the sum of the per-point scores of the n_parallel points."""
    def f(x, s):
        c, k = x.continuous.padded_array, x.categorical.padded_array
        n, p = c.shape[0], c.shape[1]
        flat = types.ModelInput(types.PaddedArray.as_padded(jnp.reshape(c, (n * p, c.shape[2]))),
                                types.PaddedArray.as_padded(jnp.reshape(k, (n * p, k.shape[2]))))
        return jnp.sum(jnp.reshape(score(flat, s), (n, p)), axis=1)
    return f


def check_result(res, conv, nc, cats, count, score, n_parallel, seed_key, allow_placeholder):
    """-> list of violated clause names for one run"""
    bad = []
    c, k, r = np.asarray(res.features.continuous), np.asarray(res.features.categorical), np.asarray(res.rewards)
    ef = conv.to_features([])
    Dc, Dk = ef.continuous.shape[-1], ef.categorical.shape[-1]
    P = n_parallel or 1
    if c.shape != (count, P, Dc) or k.shape != (count, P, Dk) or r.shape != (count,):
        return ['returns_requested_count']
    if np.isnan(c[..., :nc]).any() or (c[..., :nc] < 0).any() or (c[..., :nc] > 1).any():
        bad.append('continuous_in_unit_cube')
    for d, size in enumerate(cats):
        if (k[..., d] < 0).any() or (k[..., d] >= size).any():
            bad.append('categorical_is_valid_category_index')
    if (c[..., nc:] != 0).any() or np.isnan(c[..., nc:]).any():
        bad.append('padding_never_leaks.continuous')
    if (k[..., len(cats):] != 0).any():
        bad.append('padding_never_leaks.categorical')
    # re-evaluate the score function on the returned features (with the acquisition seed the optimizer uses)
    _, acq = jax.random.split(seed_key)
    x = vb._optimizer_to_model_input(res.features, types.ContinuousAndCategorical(nc, len(cats)), squeeze_middle_dim=n_parallel is None)
    again = np.asarray(score(x, acq))
    for t in range(count):
        if r[t] == -np.inf and allow_placeholder:
            continue
        if not same(r[t], again[t]) and not (abs(float(r[t]) - float(again[t])) <= 1e-6 * (1 + abs(float(again[t])))):
            bad.append('reward_is_score_of_candidate' + ('' if r[t] == -np.inf else '.residual'))
    return sorted(set(bad))


def battery(only=None):
    runs, violated = [], {}
    quick = bool(only) and 'quick' in only

    def note(clause, inp):
        violated.setdefault(clause, inp)

    layouts = [(2, (3,), False), (0, (3, 2), False), (2, (), False), (3, (3, 2, 4), True), (3, (), True)]
    for strat in ('eagle', 'random', 'eagle[RANDOM]', 'eagle[UNNORMALIZED,MULTIPLICATIVE]'):
        for (nc, cats, pad) in (layouts if '[' not in strat else layouts[:1]):
            if quick and (nc, cats, pad) not in (layouts[0], layouts[1], layouts[3]):
                continue
            for sname, with_prior in [(n_, False) for n_ in (('sphere', 'neginf', 'seeded') if quick else ('sphere', 'corner', 'nan_region', 'neginf', 'seeded'))] + [('sphere', True)]:
                if nc == 0 and sname in ('nan_region', 'seeded'):
                    continue
                if with_prior and '[' in strat:
                    continue
                for n_parallel in (None, 2):
                    if n_parallel and (sname != 'sphere' or with_prior):
                        continue
                    conv = make_converter(nc, cats, pad)
                    if strat == 'eagle':
                        fac = es.VectorizedEagleStrategyFactory()
                    elif strat == 'random':
                        fac = rvo.random_strategy_factory
                    elif strat == 'eagle[RANDOM]':
                        fac = es.VectorizedEagleStrategyFactory(eagle_config=es.EagleStrategyConfig(mutate_normalization_type=es.MutateNormalizationType.RANDOM))
                    else:
                        fac = es.VectorizedEagleStrategyFactory(eagle_config=es.EagleStrategyConfig(
                            mutate_normalization_type=es.MutateNormalizationType.UNNORMALIZED,
                            continuous_feature_perturbation_type=es.ContinuousFeaturePerturbationType.MULTIPLICATIVE))
                    score = SCORES[sname] if n_parallel is None else par(SCORES[sname])
                    inp = {'strategy': strat, 'n_continuous': nc, 'categories': list(cats), 'feature_padding': pad, 'score': sname,
                           'n_parallel': n_parallel, 'count': 3, 'max_evaluations': 60, 'suggestion_batch_size': 5, 'seed': 1,
                           'prior_trials': 12 if with_prior else 0}
                    key = jax.random.PRNGKey(1)
                    prior = None
                    if with_prior:
                        rs = np.random.RandomState(5)
                        trs = [vz.Trial(parameters=dict([('x%d' % i, float(rs.rand())) for i in range(nc)] +
                                                        [('c%d' % i, str(int(rs.randint(k)))) for i, k in enumerate(cats)])) for _ in range(12)]
                        prior = conv.to_features(trs)
                    try:
                        opt = vb.VectorizedOptimizerFactory(strategy_factory=fac, max_evaluations=60, suggestion_batch_size=5)(conv)
                        res = opt(score, count=3, seed=key, n_parallel=n_parallel, prior_features=prior)
                        res2 = opt(score, count=3, seed=key, n_parallel=n_parallel, prior_features=prior)
                    except Exception as ex:
                        note('returns_requested_count', dict(inp, exception='%s: %s' % (type(ex).__name__, str(ex)[:200])))
                        runs.append(dict(inp, violated=['exception']))
                        continue
                    bad = check_result(res, conv, nc, cats, 3, score, n_parallel, key, allow_placeholder=True)
                    same_again = all(np.array_equal(np.asarray(a), np.asarray(b), equal_nan=True) for a, b in
                                     zip(jax.tree_util.tree_leaves((res.features, res.rewards)), jax.tree_util.tree_leaves((res2.features, res2.rewards))))
                    if not same_again:
                        bad.append('same_seed_same_result')
                    if sname == 'nan_region' and np.isnan(np.asarray(res.rewards)).any():
                        bad.append('nan_never_preferred')
                    for b in bad:
                        note(b, inp)
                    runs.append(dict(inp, violated=bad))
    return {'runs': len(runs), 'violated': violated, 'failing_runs': [r for r in runs if r['violated']][:20]}


# ------------------------------------------------------------------------------------------ witnesses of the recorded findings
def witness(name):
    key = jax.random.PRNGKey(1)
    if name == 'nan_ranked_best':
        r = run_ubr({'count': 1, 'new_rewards': ['nan'], 'new_cont': [[[0.25]]], 'new_cat': [[[]]], 'best_rewards': [5.0],
                     'best_cont': [[[0.5]]], 'best_cat': [[[]]]})
        conv = make_converter(2, (3,), False)
        opt = vb.VectorizedOptimizerFactory(strategy_factory=es.VectorizedEagleStrategyFactory(), max_evaluations=100, suggestion_batch_size=5)(conv)
        res = opt(SCORES['nan_region'], count=3, seed=key)
        return {'reproduced': (not r['clauses']['topk']) and bool(np.isnan(np.asarray(res.rewards)).all()),
                'direct_call': r, 'optimizer_rewards': jsonable(res.rewards),
                'expected': 'old best (reward 5.0) kept; optimizer returns the best finite-score candidates'}
    if name == 'prior_not_merged':
        conv = make_converter(2, (3,), False)
        tr = vz.Trial(parameters={'x0': 0.77, 'x1': 0.11, 'c0': '1'})
        pf = conv.to_features([tr])

        def peak(x, s):
            d = jnp.sum((cont_in(x) - jnp.array([0.77, 0.11])) ** 2, axis=-1)
            return jnp.where(d < 1e-10, 100.0, -d)
        opt = rvo.create_random_optimizer(conv, 50, 5)
        res = opt(peak, count=1, prior_features=pf, seed=key)
        prior_score = float(np.asarray(peak(pf, None))[0])
        return {'reproduced': float(np.asarray(res.rewards)[0]) < prior_score, 'best_returned': jsonable(res.rewards), 'prior_score': prior_score,
                'expected': 'a result at least as good as the prior point (score 100)'}
    if name == 'placeholder_returned':
        conv = make_converter(2, (3,), False)
        opt = rvo.create_random_optimizer(conv, 5, 5)
        res = opt(SCORES['sphere'], count=8, seed=key)
        r = np.asarray(res.rewards)
        zero_score = float(np.asarray(SCORES['sphere'](vb._optimizer_to_model_input(
            vb.VectorizedOptimizerInput(jnp.zeros((1, 1, 2)), jnp.zeros((1, 1, 1), jnp.int32)), types.ContinuousAndCategorical(2, 1), True), None))[0])
        return {'reproduced': bool((r == -np.inf).sum() == 3), 'rewards': jsonable(r), 'continuous': jsonable(res.features.continuous),
                'score_at_the_returned_all_zero_candidate': zero_score,
                'expected': 'every returned candidate carries the score the function gives at it'}
    if name == 'random_strategy_padding':
        out = {}
        conv = make_converter(3, (), True)
        res = rvo.create_random_optimizer(conv, 60, 5)(SCORES['sphere'], count=2, seed=key)
        c = np.asarray(res.features.continuous)
        out['padded_continuous_position'] = jsonable(c[:, 0, 3])
        leak = bool((c[..., 3:] != 0).any())
        conv = make_converter(3, (3, 2, 4), True)
        try:
            rvo.create_random_optimizer(conv, 60, 5)(SCORES['sphere'], count=2, seed=key)
            crash = None
        except Exception as ex:
            crash = '%s: %s' % (type(ex).__name__, str(ex)[:160])
        out.update({'reproduced': leak and crash is not None, 'exception_with_padded_categorical': crash,
                    'expected': 'padded positions are 0 in the returned features; no exception'})
        return out
    if name == 'random_normalization_nan':
        conv = make_converter(2, (3, 1), False)
        cfg = es.EagleStrategyConfig(mutate_normalization_type=es.MutateNormalizationType.RANDOM)
        opt = vb.VectorizedOptimizerFactory(strategy_factory=es.VectorizedEagleStrategyFactory(eagle_config=cfg), max_evaluations=300,
                                            suggestion_batch_size=5)(conv)
        res = opt(SCORES['neginf'], count=3, seed=jax.random.PRNGKey(2))
        c = np.asarray(res.features.continuous)
        return {'reproduced': bool(np.isnan(c).any()), 'continuous': jsonable(c), 'expected': 'continuous features inside [0, 1]'}
    if name == 'oov_prior_category':
        conv = make_converter(2, (3,), False)
        pf = conv.to_features([vz.Trial(parameters={'x0': 0.6, 'x1': 0.5, 'c0': 'not-a-category'})])
        opt = vb.VectorizedOptimizerFactory(strategy_factory=es.VectorizedEagleStrategyFactory(), max_evaluations=60, suggestion_batch_size=5)(conv)
        res = opt(lambda x, s: (x.categorical.padded_array[..., 0] == 3).astype(jnp.float32), count=2, seed=key, prior_features=pf)
        k = np.asarray(res.features.categorical)
        return {'reproduced': bool((k[..., 0] >= 3).any()), 'prior_categorical': jsonable(pf.categorical.padded_array), 'returned_categorical': jsonable(k),
                'expected': 'categorical features in [0, 3) (the parameter has 3 categories; 3 is the out-of-vocabulary index)'}
    # ---- bounded native stand-ins (clauses that are not proved deductively in full generality) ----------------------------
    if name == 'standin_in_cube_any_prior':
        conv = make_converter(2, (3,), False)
        pf = conv.to_features([vz.Trial(parameters={'x0': 1.6, 'x1': 0.5, 'c0': '1'}), vz.Trial(parameters={'x0': -0.7, 'x1': 0.2, 'c0': '0'})])
        bad = None
        for sc_name, sc in (('x0', lambda x, s: cont_in(x)[..., 0]),):
            opt = vb.VectorizedOptimizerFactory(strategy_factory=es.VectorizedEagleStrategyFactory(), max_evaluations=30, suggestion_batch_size=5)(conv)
            res = opt(sc, count=2, seed=key, prior_features=pf)
            c = np.asarray(res.features.continuous)
            if np.isnan(c).any() or (c < 0).any() or (c > 1).any():
                bad = {'prior_continuous': jsonable(pf.continuous.padded_array), 'score': sc_name, 'returned_continuous': jsonable(c)}
        return {'held': bad is None, 'failing_input': bad, 'bound': 'eagle, priors [1.6, 0.5] and [-0.7, 0.2] outside the cube, score x0, count 2, 30 evaluations'}
    if name == 'standin_no_placeholder':
        bad, runs = None, 0
        for strat, nc, cats, M, B, count in (('eagle', 3, (3,), 20, 25, 2), ('random', 2, (3,), 7, 5, 6)):
            conv = make_converter(nc, cats, False)
            fac = es.VectorizedEagleStrategyFactory() if strat == 'eagle' else rvo.random_strategy_factory
            opt = vb.VectorizedOptimizerFactory(strategy_factory=fac, max_evaluations=M, suggestion_batch_size=B)(conv)
            sc = lambda x, s: -jnp.sum((cont_in(x) - 0.7) ** 2, axis=-1) - 0.5
            res = opt(sc, count=count, seed=key)
            runs += 1
            v = check_result(res, conv, nc, cats, count, sc, None, key, allow_placeholder=False)
            if v:
                bad = {'strategy': strat, 'n_continuous': nc, 'categories': list(cats), 'max_evaluations': M, 'suggestion_batch_size': B, 'count': count,
                       'violated': v, 'rewards': jsonable(res.rewards), 'continuous': jsonable(res.features.continuous)}
        return {'held': bad is None, 'failing_input': bad, 'bound': '%d runs with count <= max_evaluations (budget below one batch, budget not a multiple of the batch), finite scores' % runs}
    if name == 'standin_eagle_priors':
        # eagle: n_prior <= pool space for priors and ceil(max_evaluations / batch) * batch >= pool_size  =>  best returned >= best prior score
        bad, runs = None, 0
        # (the third configuration: max_pool_size is not a multiple of the batch size and the best prior is the oldest one)
        for nc, cats, nprior, M, B, maxpool in ((12, (), 40, 40, 25, 100), (2, (3,), 7, 25, 5, 100), (12, (), 29, 50, 25, 30)):
            conv = make_converter(nc, cats, False)
            rs = np.random.RandomState(nprior)
            trs = [vz.Trial(parameters=dict([('x%d' % i, float(rs.rand())) for i in range(nc)] + [('c%d' % i, str(int(rs.randint(k)))) for i, k in enumerate(cats)]))
                   for _ in range(nprior)]
            pf = conv.to_features(trs)
            target = np.asarray(pf.continuous.padded_array)[0]        # the OLDEST prior is the best one

            def sc(x, s, target=target):
                d = jnp.sum((cont_in(x) - jnp.asarray(target)) ** 2, axis=-1)
                return jnp.where(d < 1e-12, 10.0, -d)
            fac = es.VectorizedEagleStrategyFactory(eagle_config=es.EagleStrategyConfig(max_pool_size=maxpool))
            opt = vb.VectorizedOptimizerFactory(strategy_factory=fac, max_evaluations=M, suggestion_batch_size=B)(conv)
            pool, steps = opt.strategy.pool_size, -(-M // B)
            if not (nprior <= pool - int(pool * (1 - opt.strategy.config.prior_trials_pool_pct)) and steps * B >= pool):
                continue
            res = opt(sc, count=1, seed=key, prior_features=pf)
            runs += 1
            best_prior = float(np.max(np.asarray(sc(pf, None))))
            if not float(np.asarray(res.rewards)[0]) >= best_prior:
                bad = {'n_continuous': nc, 'categories': list(cats), 'n_prior': nprior, 'max_pool_size': maxpool, 'max_evaluations': M, 'suggestion_batch_size': B, 'pool_size': pool, 'best_prior_score': best_prior,
                       'best_returned': jsonable(res.rewards)}
        return {'held': bad is None, 'failing_input': bad, 'bound': '%d eagle runs (priors inside the cube, n_prior <= pool space, ceil(budget/batch)*batch >= pool_size)' % runs}
    return {'error': 'unknown witness %s' % name}


def main():
    mode = sys.argv[1] if len(sys.argv) > 1 else 'battery'
    if mode == 'ubr':
        out = run_ubr(json.load(sys.stdin))
    elif mode == 'battery':
        out = battery(sys.argv[2:] or None)
    elif mode == 'witness':
        out = {n: witness(n) for n in sys.argv[2:]}
    else:
        out = {'error': 'unknown mode %s' % mode}
    print(json.dumps(jsonable(out)))


if __name__ == '__main__':
    main()
