"""C12 replay drivers: run the REAL vizier code (from $VERIF_REPO) under /venv/bin/python.

usage: c12_replay.py <command>      (JSON payload on stdin where needed; the last stdout line is a JSON object)

  history          finding 13 through the real service (RAM) with a recording designer registered through a PolicyFactory:
                   complete(1..3) -> suggest -> delete(4, 3) -> suggest (new id 3) -> complete(new 3) -> suggest
  loader           payload {trials: [[id, status],..], inc: [ids], m}: real IdDeduplicatingTrialLoader on an InRamPolicySupporter;
                   evaluates the C12.loader.* clauses natively (also get_active_trials, clear, dump/load)
  policy           payload {trials, inc, m, keep_alive}: real PartiallySerializableDesignerPolicy.suggest with a recording designer
  designer_policy  payload {trials}: real DesignerPolicy.suggest with a recording designer
  get_trials       payload {impl: inram|service, trials, args: {trial_ids, min_trial_id, max_trial_id, status_matches}}
  history_search   payload {seed, random, max_len}: scripted + seeded random histories (suggest / complete feasible|infeasible out of
                   order / delete ACTIVE) through the real service with a recording designer; oracle from the property text
  trial_filter     payload {ids, min_id, max_id, status, trial: [id, status]}
"""
import json
import sys

sys.path.insert(0, '/verif/replay')
import env  # noqa: E402,F401


def out(d):
    print(json.dumps(d, default=str))


def _problem():
    from vizier import pyvizier as vz
    problem = vz.ProblemStatement()
    problem.search_space.root.add_float_param('x', 0.0, 1.0)
    problem.metric_information.append(vz.MetricInformation(name='m', goal=vz.ObjectiveMetricGoal.MAXIMIZE))
    return problem


def _mk_trial(tid, status):
    from vizier import pyvizier as vz
    t = vz.Trial(id=tid, parameters={'x': (tid % 97) / 100.0})
    if status == 'COMPLETED':
        t.complete(vz.Measurement({'m': 1.0}))
    elif status == 'REQUESTED':
        t.is_requested = True
    elif status == 'STOPPING':
        t.stopping_reason = 'stop'
    return t


def _supporter(trials):
    from vizier._src.pythia import local_policy_supporters as lps
    sup = lps.InRamPolicySupporter(_problem())
    for tid, status in trials:
        t = _mk_trial(tid, status)
        assert t.status.name == status, (t.status, status)
        sup._trials[tid] = t            # ids with gaps / arbitrary order: exactly the model's state
    return sup


def _recording_designer(log):
    from vizier import pyvizier as vz
    from vizier._src.algorithms.core import abstractions as vza

    class Rec(vza.PartiallySerializableDesigner):
        counter = [0]

        def __init__(self, problem=None, **kw):
            self.seen = 0

        def update(self, completed, all_active):
            log.append({'completed': [[t.id, round(t.parameters['x'].value, 6)] for t in completed.trials],
                        'active': [[t.id, round(t.parameters['x'].value, 6)] for t in all_active.trials]})
            self.seen += len(completed.trials)

        zero = [0]          # number of coming suggest() calls that propose nothing (exhausted search space)

        def suggest(self, count=None):
            outl = []
            if Rec.zero[0] > 0:
                Rec.zero[0] -= 1
                return outl
            for _ in range(count or 1):
                Rec.counter[0] += 1
                outl.append(vz.TrialSuggestion({'x': Rec.counter[0] / 1000.0}))
            return outl

        def dump(self):
            md = vz.Metadata()
            md['seen'] = str(self.seen)
            return md

        def load(self, md):
            self.seen = int(md['seen'])

    return Rec


def cmd_history(p):
    from vizier import pythia
    from vizier._src.algorithms.policies import designer_policy as dp
    from vizier._src.service import pythia_service, study_pb2, vizier_service, vizier_service_pb2 as vs
    from vizier.service import pyvizier as svz
    log = []
    Rec = _recording_designer(log)

    class Factory(pythia.PolicyFactory):
        def __call__(self, problem_statement, algorithm, policy_supporter, study_name):
            return dp.PartiallySerializableDesignerPolicy(problem_statement, policy_supporter, Rec)

    svc = vizier_service.VizierServicer(database_url=None)
    svc.default_pythia_service = pythia_service.PythiaServicer(svc, Factory())
    sc = svz.StudyConfig(algorithm='RANDOM_SEARCH')
    sc.search_space.root.add_float_param('x', 0.0, 1.0)
    sc.metric_information.append(svz.MetricInformation(name='m', goal=svz.ObjectiveMetricGoal.MAXIMIZE))
    st = svc.CreateStudy(vs.CreateStudyRequest(parent='owners/o', study=study_pb2.Study(display_name='s', study_spec=sc.to_proto())))
    events = []
    nclient = [0]

    def suggest(count=1):
        nclient[0] += 1
        op = svc.SuggestTrials(vs.SuggestTrialsRequest(parent=st.name, suggestion_count=count, client_id='c%d' % nclient[0]))
        ts = vs.SuggestTrialsResponse.FromString(op.response.value).trials
        events.append(['suggest', [[int(t.id), round(t.parameters[0].value.number_value, 6)] for t in ts], op.error.message[:80]])
        return ts

    def complete(i):
        svc.CompleteTrial(vs.CompleteTrialRequest(name='%s/trials/%d' % (st.name, i),
                                                  final_measurement=study_pb2.Measurement(metrics=[study_pb2.Measurement.Metric(metric_id='m', value=1.0)])))
        events.append(['complete', i])

    def delete(i):
        svc.DeleteTrial(vs.DeleteTrialRequest(name='%s/trials/%d' % (st.name, i)))
        events.append(['delete', i])

    suggest(3)                      # trials 1,2,3 ACTIVE
    for i in (1, 2, 3):
        complete(i)
    suggest(1)                      # update receives completed {1,2,3}; trial 4 created
    delete(4)
    delete(3)                       # the max-id trial (already delivered) is deleted
    t_new = suggest(1)              # the new trial re-uses id 3
    new_id, new_x = int(t_new[0].id), round(t_new[0].parameters[0].value.number_value, 6)
    complete(new_id)
    suggest(1)                      # the completed NEW trial 3 should be delivered now
    suggest(1)
    delivered = [c for u in log for c in u['completed']]
    got = [c for c in delivered if c == [new_id, new_x]]
    times = {}
    for c in delivered:
        times[str(c)] = times.get(str(c), 0) + 1
    md = {(kv.ns, kv.key): kv.value for kv in svc.GetStudy(vs.GetStudyRequest(name=st.name)).study_spec.metadata}
    out({'events': events, 'updates': log, 'new_trial': [new_id, new_x], 'id_reused': new_id == 3,
         'new_trial_delivered': bool(got), 'delivery_counts': times,
         'cache': md.get((':designer_policy_v0:cache', 'incorporated_completed_trials_ids')),
         'reproduced': new_id == 3 and not got})


def _service_harness(keep_alive=False):
    """real VizierServicer (RAM) + PythiaServicer with a PolicyFactory that hosts a recording designer"""
    from vizier import pythia
    from vizier._src.algorithms.policies import designer_policy as dp
    from vizier._src.service import pythia_service, study_pb2, vizier_service, vizier_service_pb2 as vs
    from vizier.service import pyvizier as svz
    log = []
    Rec = _recording_designer(log)
    cache = {}

    class Factory(pythia.PolicyFactory):
        def __call__(self, problem_statement, algorithm, policy_supporter, study_name):
            if keep_alive and 'p' in cache:
                return cache['p']
            cache['p'] = dp.PartiallySerializableDesignerPolicy(problem_statement, policy_supporter, Rec)
            return cache['p']

    svc = vizier_service.VizierServicer(database_url=None)
    svc.default_pythia_service = pythia_service.PythiaServicer(svc, Factory())
    sc = svz.StudyConfig(algorithm='RANDOM_SEARCH')
    sc.search_space.root.add_float_param('x', 0.0, 1.0)
    sc.metric_information.append(svz.MetricInformation(name='m', goal=svz.ObjectiveMetricGoal.MAXIMIZE))
    st = svc.CreateStudy(vs.CreateStudyRequest(parent='owners/o', study=study_pb2.Study(display_name='s', study_spec=sc.to_proto())))
    return svc, st.name, log, Rec


def _run_history(ops, keep_alive=False):
    """ops: ['suggest', k] | ['complete', pos, feasible] | ['delete_active', pos]   (pos indexes the ACTIVE trials, oldest first).
    Never deletes a completed trial (that is the class of finding 13).  Oracle, from the property text: every Designer.update gets
    exactly the ACTIVE trials and exactly the COMPLETED trials not given before; at the end every completed trial was given once."""
    from vizier._src.service import study_pb2, vizier_service_pb2 as vs
    svc, name, log, Rec = _service_harness(keep_alive)
    delivered = {}
    violations, trace = [], []
    nclient = [0]

    def listing():
        ts = svc.ListTrials(vs.ListTrialsRequest(parent=name)).trials
        comp = sorted(int(t.id) for t in ts if t.state in (study_pb2.Trial.SUCCEEDED, study_pb2.Trial.INFEASIBLE))
        act = sorted(int(t.id) for t in ts if t.state == study_pb2.Trial.ACTIVE)
        return comp, act

    def suggest(k):
        comp, act = listing()
        before = len(log)
        nclient[0] += 1
        op = svc.SuggestTrials(vs.SuggestTrialsRequest(parent=name, suggestion_count=k, client_id='w%d' % nclient[0]))
        trace.append(['suggest', k, op.error.message[:60]])
        for u in log[before:]:
            got = sorted(c[0] for c in u['completed'])
            want = sorted(i for i in comp if i not in delivered)
            if got != want:
                violations.append({'step': len(trace), 'clause': 'completed', 'update_completed': got, 'expected': want, 'completed_now': comp, 'given_before': sorted(delivered)})
            if sorted(a[0] for a in u['active']) != act:
                violations.append({'step': len(trace), 'clause': 'active', 'update_active': sorted(a[0] for a in u['active']), 'expected': act})
            for i in got:
                delivered[i] = delivered.get(i, 0) + 1

    for o in ops:
        if o[0] == 'suggest':
            suggest(o[1])
        elif o[0] == 'suggest0':          # a request on which the designer proposes nothing
            Rec.zero[0] = 1
            suggest(1)
            Rec.zero[0] = 0
        else:
            comp, act = listing()
            if not act:
                continue
            tid = act[o[1] % len(act)]
            if o[0] == 'complete':
                if o[2]:
                    svc.CompleteTrial(vs.CompleteTrialRequest(name='%s/trials/%d' % (name, tid),
                                                              final_measurement=study_pb2.Measurement(metrics=[study_pb2.Measurement.Metric(metric_id='m', value=1.0)])))
                else:
                    svc.CompleteTrial(vs.CompleteTrialRequest(name='%s/trials/%d' % (name, tid), trial_infeasible=True, infeasible_reason='no'))
                trace.append(['complete', tid, bool(o[2])])
            else:
                svc.DeleteTrial(vs.DeleteTrialRequest(name='%s/trials/%d' % (name, tid)))
                trace.append(['delete_active', tid])
    suggest(1)
    suggest(1)
    comp, act = listing()
    for i in comp:
        if delivered.get(i, 0) != 1:
            violations.append({'step': 'end', 'clause': 'exactly_once', 'trial': i, 'times_given': delivered.get(i, 0)})
    return violations, trace


def cmd_history_search(p):
    """bounded native search: scripted + seeded random histories through the real service, outside the class of finding 13."""
    import random
    scripted = [
        [['suggest', 2], ['complete', 1, True], ['suggest', 1], ['delete_active', 1], ['complete', 0, True], ['suggest', 1]],      # out-of-order completion
        [['suggest', 2], ['complete', 0, False], ['suggest', 1], ['complete', 0, True], ['suggest', 1]],                          # infeasible completion
        [['suggest', 3], ['complete', 2, True], ['complete', 0, False], ['suggest', 2], ['complete', 0, True], ['suggest', 1]],
        [['suggest', 1], ['delete_active', 0], ['suggest', 2], ['complete', 1, True], ['suggest', 1], ['complete', 0, True]],      # id of a deleted ACTIVE trial re-used
        [['suggest', 2], ['complete', 0, True], ['complete', 0, True], ['suggest0'], ['suggest', 1], ['suggest', 1]],              # a request with zero suggestions
        [['suggest', 1], ['complete', 0, True], ['suggest0'], ['suggest0'], ['suggest', 2], ['complete', 0, False], ['suggest0'], ['suggest', 1]],
    ]
    rnd = random.Random(int(p.get('seed', 12)))
    hist = list(scripted)
    for _ in range(int(p.get('random', 24))):
        h = []
        for _ in range(rnd.randint(3, int(p.get('max_len', 8)))):
            r = rnd.random()
            if r < 0.08:
                h.append(['suggest0'])
            elif r < 0.4:
                h.append(['suggest', rnd.randint(1, 3)])
            elif r < 0.85:
                h.append(['complete', rnd.randint(0, 3), rnd.random() < 0.7])
            else:
                h.append(['delete_active', rnd.randint(0, 3)])
        hist.append(h)
    bad = []
    n = 0
    for keep_alive in (False, True):
        for h in hist:
            n += 1
            try:
                v, trace = _run_history(h, keep_alive)
            except BaseException as e:  # noqa
                v, trace = [{'clause': 'exception', 'exception': '%s: %s' % (type(e).__name__, str(e)[:200])}], h
            if v:
                bad.append({'policy_kept_alive': keep_alive, 'ops': h, 'trace': trace, 'violations': v[:3]})
                if len(bad) >= 3:
                    break
        if len(bad) >= 3:
            break
    out({'histories': n, 'failing': bad, 'reproduced': bool(bad)})


def _spec_new(trials, inc, m):
    return [tid for tid, st in trials if st == 'COMPLETED' and 1 <= tid <= m and tid not in inc]


def cmd_loader(p):
    from vizier._src.algorithms.policies import trial_caches
    trials, inc, m = [tuple(t) for t in p['trials']], set(p['inc']), int(p['m'])
    sup = _supporter(trials)
    ld = trial_caches.IdDeduplicatingTrialLoader(sup, incorporated_completed_trial_ids=set(inc), include_intermediate_measurements=False)
    res = {}
    new = ld.get_newly_completed_trials(m)
    got = [t.id for t in new]
    inc2 = set(ld._incorporated_completed_trial_ids)
    want = _spec_new(trials, inc, m)
    res['new_set'] = sorted(got) == sorted(want) and len(got) == len(set(got))
    res['only_completed'] = all(dict(trials)[i] == 'COMPLETED' for i in got)
    res['exactly_once'] = inc2 == inc | set(want) and not (set(got) & inc)
    active = [t.id for t in ld.get_active_trials()]
    res['all_active'] = sorted(active) == sorted(tid for tid, st in trials if st == 'ACTIVE') and set(ld._incorporated_completed_trial_ids) == inc2
    md = ld.dump()
    ld2 = trial_caches.IdDeduplicatingTrialLoader(sup, incorporated_completed_trial_ids={12345})
    ld2.load(md)
    res['dump_load_identity'] = set(ld2._incorporated_completed_trial_ids) == inc2
    ld.clear()
    res['clear'] = set(ld._incorporated_completed_trial_ids) == set()
    out({'clauses': res, 'returned': got, 'expected': want, 'inc_after': sorted(inc2), 'active': active})


def cmd_loader_batch(p):
    global out
    res = []
    real_out = out
    out = lambda d: res.append(d)
    try:
        for q in p['batch']:
            try:
                cmd_loader(q)
            except BaseException as e:  # noqa
                res.append({'exception': type(e).__name__})
    finally:
        out = real_out
    out({'results': res})


def cmd_policy(p):
    from vizier import pythia
    from vizier._src.algorithms.policies import designer_policy as dp
    trials, inc, m = [tuple(t) for t in p['trials']], set(p['inc']), int(p['m'])
    sup = _supporter(trials)
    log = []
    Rec = _recording_designer(log)
    pol = dp.PartiallySerializableDesignerPolicy(sup.study_config, sup, Rec, ns_root='root_ns')
    pol._designer = Rec()
    pol._cache._incorporated_completed_trial_ids = set(inc)
    desc = sup.study_descriptor()
    import attr
    desc = attr.evolve(desc, max_trial_id=m)
    if p.get('zero_suggestions'):
        Rec.zero[0] = 1
    dec = pol.suggest(pythia.SuggestRequest(study_descriptor=desc, count=1))
    want = _spec_new(trials, inc, m)
    want_active = sorted(tid for tid, st in trials if st == 'ACTIVE')
    res = {}
    res['one_update'] = len(log) == 1
    res['update_args'] = len(log) == 1 and sorted(c[0] for c in log[0]['completed']) == sorted(want) and sorted(a[0] for a in log[0]['active']) == want_active
    stored = {(tuple(ns), k): v for ns, k, v in dec.metadata.on_study.all_items()}
    cache = stored.get((('root_ns', 'cache'), 'incorporated_completed_trials_ids'))
    res['state_persisted'] = cache is not None and set(json.loads(cache)) == inc | set(want)
    out({'clauses': res, 'updates': log, 'expected_completed': want, 'expected_active': want_active, 'persisted': cache})


def cmd_designer_policy(p):
    from vizier import pythia
    from vizier._src.algorithms.policies import designer_policy as dp
    trials = [tuple(t) for t in p['trials']]
    sup = _supporter(trials)
    log = []
    Rec = _recording_designer(log)
    made = []

    def factory(problem, **kw):
        made.append(1)
        return Rec()
    pol = dp.DesignerPolicy(sup, factory, use_seeding=False)
    pol.suggest(pythia.SuggestRequest(study_descriptor=sup.study_descriptor(), count=1))
    res = {'all_trials': len(log) == 1 and sorted(c[0] for c in log[0]['completed']) == sorted(t for t, s in trials if s == 'COMPLETED')
           and sorted(a[0] for a in log[0]['active']) == sorted(t for t, s in trials if s == 'ACTIVE'), 'fresh_designer': len(made) == 1}
    out({'clauses': res, 'updates': log})


def _keep(tid, st, a):
    if a.get('trial_ids') is not None and tid not in a['trial_ids']:
        return False
    if a.get('min_trial_id') is not None and tid < a['min_trial_id']:
        return False
    if a.get('max_trial_id') is not None and tid > a['max_trial_id']:
        return False
    if a.get('status_matches') is not None and st != a['status_matches']:
        return False
    return True


def cmd_get_trials(p):
    from vizier import pyvizier as vz
    trials, a = [tuple(t) for t in p['trials']], p['args']
    kw = {k: v for k, v in a.items() if v is not None and k != 'status_matches'}
    if a.get('status_matches') is not None:
        kw['status_matches'] = vz.TrialStatus[a['status_matches']]
    if p['impl'] == 'inram':
        sup = _supporter(trials)
        order = [tid for tid, _ in trials]
    else:
        from vizier._src.service import service_policy_supporter as sps, study_pb2, vizier_service_pb2 as vs
        from vizier.service import pyvizier as svz
        svc = env.new_servicer(None)
        sc = svz.StudyConfig(algorithm='RANDOM_SEARCH')
        sc.search_space.root.add_float_param('x', 0.0, 1.0)
        sc.metric_information.append(svz.MetricInformation(name='m', goal=svz.ObjectiveMetricGoal.MAXIMIZE))
        st = svc.CreateStudy(vs.CreateStudyRequest(parent='owners/o', study=study_pb2.Study(display_name='s', study_spec=sc.to_proto())))
        state = {'COMPLETED': study_pb2.Trial.SUCCEEDED, 'ACTIVE': study_pb2.Trial.ACTIVE, 'REQUESTED': study_pb2.Trial.REQUESTED, 'STOPPING': study_pb2.Trial.STOPPING}
        given = dict(zip([tid for tid, _ in trials], p.get('states') or []))
        for tid, stt in sorted(trials):
            pstate = getattr(study_pb2.Trial, given[tid]) if given.get(tid) in ('SUCCEEDED', 'INFEASIBLE') and stt == 'COMPLETED' else state[stt]
            t = study_pb2.Trial(name='%s/trials/%d' % (st.name, tid), id=str(tid), state=pstate)
            if pstate == study_pb2.Trial.INFEASIBLE:
                t.infeasible_reason = 'infeasible'
            t.parameters.add(parameter_id='x').value.number_value = 0.5
            t.start_time.GetCurrentTime()
            if stt == 'COMPLETED':
                t.end_time.GetCurrentTime()
                if pstate != study_pb2.Trial.INFEASIBLE:
                    t.final_measurement.metrics.add(metric_id='m', value=1.0)
            svc.datastore.create_trial(t)
        sup = sps.ServicePolicySupporter(st.name, svc)
        order = sorted(tid for tid, _ in trials)
    got = [t.id for t in sup.GetTrials(**kw)]
    d = dict(trials)
    want = [tid for tid in order if _keep(tid, d[tid], a)]
    out({'clauses': {'filter': got == want}, 'returned': got, 'expected': want})


def cmd_trial_filter(p):
    from vizier import pyvizier as vz
    st = [vz.TrialStatus[s] for s in p['status']] if p.get('status') is not None else None
    f = vz.TrialFilter(ids=p.get('ids'), min_id=p.get('min_id'), max_id=p.get('max_id'), status=st)
    tid, stt = p['trial']
    got = f(_mk_trial(tid, stt))
    want = _keep(tid, stt, {'trial_ids': p.get('ids'), 'min_trial_id': p.get('min_id'), 'max_trial_id': p.get('max_id')}) and \
        (p.get('status') is None or stt in p['status'])
    out({'clauses': {'iff': got == want}, 'returned': got, 'expected': want})


def main():
    cmd = sys.argv[1]
    payload = {}
    if not sys.stdin.isatty():
        raw = sys.stdin.read()
        if raw.strip():
            payload = json.loads(raw)
    before = env.repo_clean_snapshot()
    globals()['cmd_' + cmd](payload)
    if env.repo_clean_snapshot() != before:
        print(json.dumps({'error': 'replay modified the repository working tree'}))
        sys.exit(3)


if __name__ == '__main__':
    main()
