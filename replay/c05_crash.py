"""C05 replay driver (runs under /venv/bin/python; real vizier code through the pb2 shim; never decides a proof).

Sub-commands (all write one JSON document to --out and print REPRODUCED / NOT-REPRODUCED / DONE):

  finding7  --out F          SQL update_metadata: ValueError from trial_resource('0') / int('abc') escapes after the study
                             UPDATE without rollback; the pending write is committed by the next committing call.
  finding15 --out F          kill the server right after SuggestTrials committed its done=False operation; a fresh
                             servicer on the same file answers that client with the stale operation forever.
  bracket   --method M --out F
                             run the real SQLDataStore.M on a scenario battery with SQLAlchemy engine events recording
                             read/write/commit/rollback (+ whether self._lock was held) and compare the method's own
                             connection with a second connection after every exit (pending writes at exit).
  crash-enum --rpc R[,R..] --out F [--jobs N] [--points all|between]
                             kill-and-reopen: for every crash point k (before/after every SQL statement, before/after
                             every commit/rollback, and after the acknowledged return) of RPC R on a prepared study, a
                             child process os._exit()s there; a fresh servicer on the same file is then checked for
                             all-or-nothing, readable, unique ids, legal states, and "clients can continue".
  crash-child ...            (internal)

Every database is a file under /verif/out/c05/ (never the in-repo default).
"""
import argparse
import concurrent.futures
import json
import os
import shutil
import sqlite3
import subprocess
import sys
import traceback

HERE = os.path.dirname(os.path.abspath(__file__))
sys.path.insert(0, HERE)
OUT = os.path.join(os.path.dirname(HERE), 'out', 'c05')

STUDY = 'owners/o/studies/s'
SINGLE = ['CreateStudy', 'CreateTrial', 'CompleteTrial', 'AddTrialMeasurement', 'StopTrial', 'DeleteTrial',
          'DeleteStudy', 'SetStudyState', 'UpdateMetadata']


def _url(path):
    return 'sqlite:///' + path


def _fresh(path):
    os.makedirs(os.path.dirname(path), exist_ok=True)
    for suf in ('', '-journal', '-wal', '-shm', '.pre.json', '.post.json', '.ack'):
        if os.path.exists(path + suf):
            os.remove(path + suf)


# ----------------------------------------------------------------------------------------------- common pieces
def _mods():
    import env  # noqa: F401  (shim)
    from vizier._src.service import vizier_service_pb2 as vs, study_pb2, key_value_pb2, vizier_oss_pb2
    from vizier.service import pyvizier as vz
    from google.longrunning import operations_pb2
    return env, vs, study_pb2, key_value_pb2, vizier_oss_pb2, vz, operations_pb2


def _study_spec(vz):
    sc = vz.StudyConfig(algorithm='RANDOM_SEARCH')
    sc.search_space.root.add_float_param('w', 0.0, 1.0)
    sc.metric_information.append(vz.MetricInformation('m', goal=vz.ObjectiveMetricGoal.MAXIMIZE))
    return sc.to_proto()


def _setup_history(s, vs, study_pb2, vz):
    """CreateStudy; CreateTrial x2; SuggestTrials(1, client c) -> trial 2 ACTIVE; AddTrialMeasurement(trial 2)."""
    st = s.CreateStudy(vs.CreateStudyRequest(parent='owners/o', study=study_pb2.Study(display_name='s', study_spec=_study_spec(vz))))
    assert st.name == STUDY, st.name
    for _ in range(2):
        t = study_pb2.Trial()
        p = t.parameters.add()
        p.parameter_id = 'w'
        p.value.number_value = 0.5
        s.CreateTrial(vs.CreateTrialRequest(parent=STUDY, trial=t))
    op = s.SuggestTrials(vs.SuggestTrialsRequest(parent=STUDY, suggestion_count=1, client_id='c'))
    assert op.done
    m = study_pb2.Measurement(step_count=1)
    mm = m.metrics.add()
    mm.metric_id = 'm'
    mm.value = 1.0
    s.AddTrialMeasurement(vs.AddTrialMeasurementRequest(trial_name=STUDY + '/trials/2', measurement=m))
    return st


def _rpc_call(name, s, vs, study_pb2, key_value_pb2, vz):
    """The call under test of each RPC kind, as a thunk."""
    if name == 'CreateStudy':
        return lambda: s.CreateStudy(vs.CreateStudyRequest(parent='owners/o', study=study_pb2.Study(display_name='s2', study_spec=_study_spec(vz))))
    if name == 'CreateStudyNewOwner':
        return lambda: s.CreateStudy(vs.CreateStudyRequest(parent='owners/o2', study=study_pb2.Study(display_name='s', study_spec=_study_spec(vz))))
    if name == 'CreateTrial':
        t = study_pb2.Trial()
        p = t.parameters.add()
        p.parameter_id = 'w'
        p.value.number_value = 0.25
        return lambda: s.CreateTrial(vs.CreateTrialRequest(parent=STUDY, trial=t))
    if name == 'CompleteTrial':
        return lambda: s.CompleteTrial(vs.CompleteTrialRequest(name=STUDY + '/trials/2'))
    if name == 'AddTrialMeasurement':
        m = study_pb2.Measurement(step_count=2)
        mm = m.metrics.add()
        mm.metric_id = 'm'
        mm.value = 2.0
        return lambda: s.AddTrialMeasurement(vs.AddTrialMeasurementRequest(trial_name=STUDY + '/trials/2', measurement=m))
    if name == 'StopTrial':
        return lambda: s.StopTrial(vs.StopTrialRequest(name=STUDY + '/trials/2'))
    if name == 'DeleteTrial':
        return lambda: s.DeleteTrial(vs.DeleteTrialRequest(name=STUDY + '/trials/1'))
    if name == 'DeleteStudy':
        return lambda: s.DeleteStudy(vs.DeleteStudyRequest(name=STUDY))
    if name == 'SetStudyState':
        return lambda: s.SetStudyState(vs.SetStudyStateRequest(parent=STUDY, state=study_pb2.Study.State.INACTIVE))
    if name == 'UpdateMetadata':
        req = vs.UpdateMetadataRequest(name=STUDY)
        d = req.delta.add()
        d.metadatum.key = 'k'
        d.metadatum.ns = 'n'
        d.metadatum.value = 'study-level'
        for tid in ('1', '2'):
            d = req.delta.add()
            d.trial_id = tid
            d.metadatum.key = 'k'
            d.metadatum.ns = 'n'
            d.metadatum.value = 'trial-' + tid
        return lambda: s.UpdateMetadata(req)
    if name == 'SuggestTrials':
        return lambda: s.SuggestTrials(vs.SuggestTrialsRequest(parent=STUDY, suggestion_count=2, client_id='c2'))
    raise KeyError(name)


TABLES = [('owners', 'owner_name', None, None), ('studies', 'study_name', 'serialized_study', 'Study'),
          ('trials', 'trial_name', 'serialized_trial', 'Trial'),
          ('suggestion_operations', 'operation_name', 'serialized_op', 'Operation'),
          ('early_stopping_operations', 'operation_name', 'serialized_op', 'EarlyStoppingOperation')]


def _clear_times(msg):
    """Clear every google.protobuf.Timestamp field, recursively (wall-clock values differ between processes)."""
    for fd in msg.DESCRIPTOR.fields:
        if fd.message_type is None:
            continue
        if fd.message_type.full_name == 'google.protobuf.Timestamp':
            msg.ClearField(fd.name)
        elif fd.message_type.GetOptions().map_entry:
            continue
        elif getattr(fd, 'is_repeated', None) if hasattr(fd, 'is_repeated') else fd.label == fd.LABEL_REPEATED:
            for sub in getattr(msg, fd.name):
                _clear_times(sub)
        elif msg.HasField(fd.name):
            _clear_times(getattr(msg, fd.name))


def snapshot(path, raw=False):
    """Committed content of the database file seen by a *new* connection; protos normalised (times cleared)."""
    _, vs, study_pb2, key_value_pb2, vizier_oss_pb2, vz, operations_pb2 = _mods()
    classes = {'Study': study_pb2.Study, 'Trial': study_pb2.Trial, 'Operation': operations_pb2.Operation,
               'EarlyStoppingOperation': vizier_oss_pb2.EarlyStoppingOperation}
    con = sqlite3.connect('file:%s?mode=ro' % path, uri=True, timeout=10)
    out = {}
    try:
        for tab, pk, col, cls in TABLES:
            try:
                cur = con.execute('SELECT * FROM %s ORDER BY %s' % (tab, pk))
            except sqlite3.OperationalError as e:
                out[tab] = 'UNREADABLE: %s' % e
                continue
            names = [d[0] for d in cur.description]
            rows = []
            for r in cur.fetchall():
                row = {}
                for n, v in zip(names, r):
                    if n == col:
                        b = v if isinstance(v, bytes) else (v.encode('latin1') if isinstance(v, str) else b'')
                        if raw:
                            row[n] = b.hex()
                            continue
                        try:
                            msg = classes[cls].FromString(b)
                        except Exception as e:   # unreadable record
                            row[n] = 'UNPARSEABLE: %r' % (e,)
                            continue
                        if cls == 'Operation' and msg.response.value:
                            try:
                                resp = vs.SuggestTrialsResponse.FromString(msg.response.value)
                                _clear_times(resp)
                                msg.response.value = resp.SerializeToString(deterministic=True)
                            except Exception:
                                pass
                        _clear_times(msg)
                        row[n] = msg.SerializeToString(deterministic=True).hex()
                    else:
                        row[n] = v
                rows.append(row)
            out[tab] = rows
    finally:
        con.close()
    return out


def own_view(ds):
    """What the datastore's own connection sees (includes its uncommitted writes), same normal form as snapshot(raw)."""
    import sqlalchemy as sqla
    out = {}
    for tab, pk, col, cls in TABLES:
        res = ds._connection.execute(sqla.text('SELECT * FROM %s ORDER BY %s' % (tab, pk)))
        names = list(res.keys())
        rows = []
        for r in res.fetchall():
            row = {}
            for n, v in zip(names, r):
                if n == col:
                    b = v if isinstance(v, bytes) else (v.encode('latin1') if isinstance(v, str) else b'')
                    row[n] = b.hex()
                else:
                    row[n] = v
            rows.append(row)
        out[tab] = rows
    return out


# ----------------------------------------------------------------------------------------------- finding 7
def finding7(a):
    env, vs, study_pb2, key_value_pb2, vizier_oss_pb2, vz, operations_pb2 = _mods()
    before = env.repo_clean_snapshot()
    results = []
    for bad_id in ('0', 'abc'):
        path = os.path.join(OUT, 'f7_%s.db' % bad_id)
        _fresh(path)
        s = env.new_servicer(_url(path))
        _setup_history(s, vs, study_pb2, vz)
        req = vs.UpdateMetadataRequest(name=STUDY)
        d = req.delta.add()
        d.metadatum.key = 'half'
        d.metadatum.value = 'done'
        d = req.delta.add()
        d.trial_id = bad_id
        d.metadatum.key = 'k'
        d.metadatum.value = 'v'

        def committed_has_key():
            snap = snapshot(path, raw=True)
            st = study_pb2.Study.FromString(bytes.fromhex(snap['studies'][0]['serialized_study']))
            return any(kv.key == 'half' for kv in st.study_spec.metadata)
        exc = None
        try:
            s.UpdateMetadata(req)
        except BaseException as e:     # noqa
            exc = type(e).__name__
        committed_before = committed_has_key()
        own = own_view(s.datastore)
        own_study = study_pb2.Study.FromString(bytes.fromhex(own['studies'][0]['serialized_study']))
        pending_visible_own = any(kv.key == 'half' for kv in own_study.study_spec.metadata)
        # an unrelated, successful, committing call
        t = study_pb2.Trial()
        s.CreateTrial(vs.CreateTrialRequest(parent=STUDY, trial=t))
        committed_after = committed_has_key()
        # a restarted server sees the half-done update
        s2 = env.new_servicer(_url(path))
        restarted = any(kv.key == 'half' for kv in s2.GetStudy(vs.GetStudyRequest(name=STUDY)).study_spec.metadata)
        results.append({'trial_id': bad_id, 'escaped_exception': exc, 'committed_right_after_failure': committed_before,
                        'pending_in_own_connection': pending_visible_own, 'committed_after_next_call': committed_after,
                        'visible_after_restart': restarted,
                        'reproduced': bool(exc == 'ValueError' and not committed_before and pending_visible_own
                                           and committed_after and restarted)})
    ok = all(r['reproduced'] for r in results)
    doc = {'what': 'finding 7 (SQL part)', 'results': results, 'reproduced': ok,
           'repo_untouched': before == env.repo_clean_snapshot()}
    json.dump(doc, open(a.out, 'w'), indent=1)
    print('REPRODUCED' if ok else 'NOT-REPRODUCED')


# ----------------------------------------------------------------------------------------------- finding 15
def finding15(a):
    env, vs, study_pb2, key_value_pb2, vizier_oss_pb2, vz, operations_pb2 = _mods()
    before = env.repo_clean_snapshot()
    path = os.path.join(OUT, 'f15.db')
    _fresh(path)
    p = subprocess.run([sys.executable, os.path.abspath(__file__), 'crash-child', '--db', path, '--rpc', 'SuggestTrials',
                        '--after-ds', 'create_suggestion_operation'], capture_output=True, text=True, timeout=300)
    s = env.new_servicer(_url(path))            # the restarted server
    readable = s.GetStudy(vs.GetStudyRequest(name=STUDY)).display_name == 's'
    same = [s.SuggestTrials(vs.SuggestTrialsRequest(parent=STUDY, suggestion_count=2, client_id='c2')) for _ in range(3)]
    other = s.SuggestTrials(vs.SuggestTrialsRequest(parent=STUDY, suggestion_count=1, client_id='other'))
    doc = {'what': 'finding 15', 'child_exit': p.returncode, 'child_stdout': p.stdout[-300:], 'child_stderr': p.stderr[-600:],
           'study_readable_after_restart': readable,
           'same_client_ops': [{'name': o.name, 'done': o.done} for o in same],
           'other_client_op': {'name': other.name, 'done': other.done},
           'repo_untouched': before == env.repo_clean_snapshot()}
    ok = (p.returncode == 9 and readable and all(not o.done for o in same) and len({o.name for o in same}) == 1 and other.done)
    doc['reproduced'] = ok
    json.dump(doc, open(a.out, 'w'), indent=1)
    print('REPRODUCED' if ok else 'NOT-REPRODUCED')


# ----------------------------------------------------------------------------------------------- crash child
def _install_crash_hooks(ds, state):
    """Count crash points on the datastore's engine; os._exit(9) at point state['K'] while state['armed']."""
    import sqlalchemy as sqla
    eng = ds._engine

    def point(label):
        if not state['armed']:
            return
        state['n'] += 1
        state['labels'].append(label)
        if state['n'] == state['K']:
            sys.stdout.write('child: dying at crash point %d (%s)\n' % (state['n'], label))
            sys.stdout.flush()
            os._exit(9)

    def before(conn, cursor, statement, parameters, context, executemany):
        point('before ' + statement.split(None, 1)[0].upper() + ' ' + _tab(statement))

    def after(conn, cursor, statement, parameters, context, executemany):
        point('after ' + statement.split(None, 1)[0].upper() + ' ' + _tab(statement))
    sqla.event.listen(eng, 'before_cursor_execute', before)
    sqla.event.listen(eng, 'after_cursor_execute', after)
    d = eng.dialect
    oc, orb = d.do_commit, d.do_rollback

    def do_commit(dbapi_connection):
        point('before COMMIT')
        r = oc(dbapi_connection)
        point('after COMMIT')
        return r

    def do_rollback(dbapi_connection):
        point('before ROLLBACK')
        r = orb(dbapi_connection)
        point('after ROLLBACK')
        return r
    d.do_commit, d.do_rollback = do_commit, do_rollback


def _tab(statement):
    w = statement.replace('\n', ' ').split()
    for i, x in enumerate(w):
        if x.upper() in ('FROM', 'INTO', 'UPDATE') and i + 1 < len(w):
            return w[i + 1].strip('"')
    return ''


def crash_child(a):
    env, vs, study_pb2, key_value_pb2, vizier_oss_pb2, vz, operations_pb2 = _mods()
    s = env.new_servicer(_url(a.db))
    _setup_history(s, vs, study_pb2, vz)
    if a.after_ds:              # finding 15 style: die right after a named datastore call returned (committed)
        real = getattr(s.datastore, a.after_ds)

        def crash_after(*args, **kw):
            real(*args, **kw)
            sys.stdout.write('child: %s committed, dying now\n' % a.after_ds)
            sys.stdout.flush()
            os._exit(9)
        setattr(s.datastore, a.after_ds, crash_after)
        _rpc_call(a.rpc, s, vs, study_pb2, key_value_pb2, vz)()
        os._exit(0)
    state = {'armed': False, 'n': 0, 'K': a.k, 'labels': []}
    _install_crash_hooks(s.datastore, state)
    json.dump(snapshot(a.db), open(a.db + '.pre.json', 'w'))
    call = _rpc_call(a.rpc, s, vs, study_pb2, key_value_pb2, vz)
    state['armed'] = True
    err = None
    try:
        call()
    except BaseException as e:       # noqa
        err = '%s: %s' % (type(e).__name__, e)
    state['armed'] = False
    open(a.db + '.ack', 'w').write('acknowledged' if err is None else 'error ' + err)
    if a.k == 0:                     # reference run: no crash; report the crash points and the post image
        json.dump({'points': state['labels'], 'error': err, 'post': snapshot(a.db)}, open(a.db + '.post.json', 'w'))
        os._exit(0)
    # K == N+1: acknowledged, then the process dies without closing anything
    sys.stdout.write('child: acknowledged, dying now\n')
    sys.stdout.flush()
    os._exit(9)


# ----------------------------------------------------------------------------------------------- crash enumeration
def _run_child(rpc, k, path):
    _fresh(path)
    p = subprocess.run([sys.executable, os.path.abspath(__file__), 'crash-child', '--db', path, '--rpc', rpc, '--k', str(k)],
                       capture_output=True, text=True, timeout=600)
    return p.returncode, p.stdout[-400:], p.stderr[-800:]


LEGAL_TRIAL_STATES = ('REQUESTED', 'ACTIVE', 'STOPPING', 'SUCCEEDED', 'INFEASIBLE')


def _verify_after_restart(rpc, path, pre, post, label, acked, in_window_expected):
    """Fresh servicer on the crashed file.  Returns dict(problems=[...], usable=bool|None)."""
    env, vs, study_pb2, key_value_pb2, vizier_oss_pb2, vz, operations_pb2 = _mods()
    problems = []
    snap = snapshot(path)
    flat = json.dumps(snap, sort_keys=True)
    if 'UNPARSEABLE' in flat or 'UNREADABLE' in flat:
        problems.append('unreadable record after restart')
    is_pre, is_post = snap == pre, snap == post
    multi = rpc == 'SuggestTrials'
    if not multi:
        if not (is_pre or is_post):
            problems.append('torn state: neither the image before the call nor the image after it')
        if acked and not is_post:
            problems.append('acknowledged call not durable: image after restart differs from the completed call')
    s = env.new_servicer(_url(path))
    usable = None
    try:
        studies = s.ListStudies(vs.ListStudiesRequest(parent='owners/o')).studies
    except Exception as e:      # owner may be gone only if it never existed
        studies = []
        problems.append('ListStudies failed after restart: %r' % (e,))
    for st in studies:
        try:
            s.GetStudy(vs.GetStudyRequest(name=st.name))
            trials = list(s.ListTrials(vs.ListTrialsRequest(parent=st.name)).trials)
        except Exception as e:
            problems.append('study %s not readable after restart: %r' % (st.name, e))
            continue
        ids = [t.id for t in trials]
        if len(set(ids)) != len(ids):
            problems.append('duplicate trial ids %s' % ids)
        for t in trials:
            if t.name != '%s/trials/%s' % (st.name, t.id):
                problems.append('trial name/id mismatch %s / %s' % (t.name, t.id))
            if study_pb2.Trial.State.Name(t.state) not in LEGAL_TRIAL_STATES:
                problems.append('illegal trial state %s of %s' % (t.state, t.name))
        if st.state not in (study_pb2.Study.State.ACTIVE, study_pb2.Study.State.STATE_UNSPECIFIED):
            continue
        # clients can continue: a fresh client suggests and completes; the new id is larger than all existing ones
        try:
            mx = max([int(i) for i in ids] or [0])
            if multi and st.name == STUDY:
                op = s.SuggestTrials(vs.SuggestTrialsRequest(parent=st.name, suggestion_count=2, client_id='c2'))
                usable = bool(op.done and not op.HasField('error'))
            op = s.SuggestTrials(vs.SuggestTrialsRequest(parent=st.name, suggestion_count=1, client_id='fresh-client'))
            if not op.done or op.HasField('error'):
                problems.append('fresh client cannot get a suggestion after restart: %s' % str(op)[:200])
                continue
            resp = vs.SuggestTrialsResponse.FromString(op.response.value)
            t = resp.trials[0]
            m = study_pb2.Measurement()
            mm = m.metrics.add()
            mm.metric_id = 'm'
            mm.value = 3.0
            done = s.CompleteTrial(vs.CompleteTrialRequest(name=t.name, final_measurement=m))
            if done.state != study_pb2.Trial.State.SUCCEEDED:
                problems.append('CompleteTrial after restart did not succeed')
            t3 = s.CreateTrial(vs.CreateTrialRequest(parent=st.name, trial=study_pb2.Trial()))
            all_ids = [int(x.id) for x in s.ListTrials(vs.ListTrialsRequest(parent=st.name)).trials]
            if len(set(all_ids)) != len(all_ids):
                problems.append('duplicate trial ids after continuing: %s' % all_ids)
            if int(t3.id) <= mx:
                problems.append('new trial id %s not larger than the existing maximum %d' % (t3.id, mx))
        except Exception as e:
            problems.append('clients cannot continue after restart: %r' % (e,))
    # a deleted study whose rows were only partly removed: re-creating it brings the old records back
    if rpc == 'DeleteStudy' and not any(st.name == STUDY for st in studies):
        left = {tab: len([r for r in snap.get(tab, []) if isinstance(r, dict) and r.get('owner_id') == 'o' and r.get('study_id') == 's'])
                for tab in ('trials', 'suggestion_operations', 'early_stopping_operations')}
        if any(left.values()):
            try:
                s.CreateStudy(vs.CreateStudyRequest(parent='owners/o', study=study_pb2.Study(display_name='s', study_spec=_study_spec(vz))))
                back = [t.id for t in s.ListTrials(vs.ListTrialsRequest(parent=STUDY)).trials]
                problems.append('the study is gone but its rows remain %s: re-creating the study brings back trials %s' % (left, back))
            except Exception as e:
                problems.append('the study is gone but its rows remain %s; re-creating it failed: %r' % (left, e))
    if multi and usable is False and not in_window_expected:
        problems.append('interrupted client wedged (operation never done) at a crash point outside the known window')
    return {'point': label, 'problems': problems, 'is_pre': is_pre, 'is_post': is_post, 'usable': usable}


def crash_enum(a):
    env, vs, study_pb2, key_value_pb2, vizier_oss_pb2, vz, operations_pb2 = _mods()
    before = env.repo_clean_snapshot()
    rpcs = a.rpc.split(',')
    jobs = a.jobs or min(16, os.cpu_count() or 4)
    doc = {'rpcs': {}, 'divergences': 0}
    pool = concurrent.futures.ThreadPoolExecutor(max_workers=jobs)
    # 1. reference runs (no crash): crash points + post image
    ref = {r: pool.submit(_run_child, r, 0, os.path.join(OUT, 'enum', r, 'ref.db')) for r in rpcs}
    plan = {}
    for r in rpcs:
        rc, so, se = ref[r].result()
        path = os.path.join(OUT, 'enum', r, 'ref.db')
        if rc != 0 or not os.path.exists(path + '.post.json'):
            doc['rpcs'][r] = {'error': 'reference run failed rc=%s %s %s' % (rc, so, se)}
            continue
        post = json.load(open(path + '.post.json'))
        pre = json.load(open(path + '.pre.json'))
        if post['error']:
            doc['rpcs'][r] = {'error': 'reference call raised: %s' % post['error']}
            continue
        plan[r] = (pre, post['post'], post['points'])
    # 2. one child per crash point (1..N) and the acknowledged point N+1
    futs = {}
    def selected(points):
        ks = list(range(1, len(points) + 2))
        if a.points == 'between':     # only the points right after a write statement or a commit took effect, and the acknowledged return
            ks = [k for k in ks if k == len(points) + 1 or (points[k - 1].startswith('after ')
                                                            and points[k - 1].split()[1] in ('INSERT', 'UPDATE', 'DELETE', 'REPLACE', 'COMMIT'))]
        return ks
    for r, (pre, post, points) in plan.items():
        for k in selected(points):
            path = os.path.join(OUT, 'enum', r, 'k%02d.db' % k)
            futs[(r, k)] = pool.submit(_run_child, r, k, path)
    for r, (pre, post, points) in plan.items():
        res = []
        window = False
        for k in selected(points):
            rc, so, se = futs[(r, k)].result()
            path = os.path.join(OUT, 'enum', r, 'k%02d.db' % k)
            label = points[k - 1] if k <= len(points) else 'after the acknowledged return'
            if rc != 9:
                res.append({'point': label, 'k': k, 'problems': [], 'driver_error': 'child exit %s: %s %s' % (rc, so, se)})
                continue
            child_pre = json.load(open(path + '.pre.json'))
            if child_pre != pre:
                res.append({'point': label, 'k': k, 'problems': [],
                            'driver_error': 'non-deterministic setup: pre image of this child differs from the reference'})
                continue
            acked = k == len(points) + 1
            # SuggestTrials: the known window opens when the INSERT into suggestion_operations is committed
            # and closes when the final UPDATE of suggestion_operations is committed.
            if r == 'SuggestTrials':
                seen = points[:k]          # dying at label k means that event has happened
                ins = [i for i, x in enumerate(seen) if x == 'after INSERT suggestion_operations']
                opened = any(x == 'after COMMIT' and i > ins[0] for i, x in enumerate(seen)) if ins else False
                upd = [i for i, x in enumerate(seen) if x == 'after UPDATE suggestion_operations']
                closed = any(x == 'after COMMIT' and i > upd[-1] for i, x in enumerate(seen)) if upd else False
                window = opened and not closed
            v = _verify_after_restart(r, path, pre, post, label, acked, window)
            v['k'] = k
            v['in_known_window'] = window
            res.append(v)
        nprob = sum(1 for v in res if v['problems'])
        doc['rpcs'][r] = {'crash_points': len(res), 'crash_points_of_the_call': len(points) + 1, 'points': res, 'diverging_points': nprob,
                          'driver_errors': sum(1 for v in res if v.get('driver_error')),
                          'wedged_points_in_known_window': sum(1 for v in res if v.get('usable') is False and v.get('in_known_window'))}
        doc['divergences'] += nprob
    doc['repo_untouched'] = before == env.repo_clean_snapshot()
    json.dump(doc, open(a.out, 'w'), indent=1)
    if not a.keep:
        shutil.rmtree(os.path.join(OUT, 'enum'), ignore_errors=True)
    print('REPRODUCED' if doc['divergences'] else 'DONE')


# ----------------------------------------------------------------------------------------------- bracket (dynamic trace)
def _scenarios(method, study_pb2, key_value_pb2, vizier_oss_pb2, operations_pb2, datastore_mod):
    """(label, args) scenario battery per SQLDataStore method; the prepared store holds study s with trials 1,2,
    suggestion operation c/1 and an early stopping operation for trial 2."""
    T = STUDY + '/trials/%s'
    OP = 'owners/o/operations/suggestion/s/c/%s'
    EOP = 'owners/o/operations/earlystopping/s/%s'

    def study(name):
        return study_pb2.Study(name=name, display_name='x')

    def trial(i):
        return study_pb2.Trial(name=T % i, id=str(i), state=study_pb2.Trial.State.STOPPING, infeasible_reason='changed by the scenario')

    def kv(k):
        return key_value_pb2.KeyValue(key=k, value='v')

    def umd(tid, k='k'):
        return datastore_mod.UnitMetadataUpdate(trial_id=tid, metadatum=kv(k)) if hasattr(datastore_mod, 'UnitMetadataUpdate') else None
    bad = 'not/a/resource/name'
    S = {
        'create_study': [('new', (study('owners/o/studies/new'),)), ('new-owner', (study('owners/o9/studies/s'),)),
                         ('duplicate', (study(STUDY),)), ('bad-name', (study(bad),))],
        'load_study': [('ok', (STUDY,)), ('missing', ('owners/o/studies/none',))],
        'update_study': [('ok', (study(STUDY),)), ('missing', (study('owners/o/studies/none'),)), ('bad-name', (study(bad),))],
        'delete_study': [('ok', (STUDY,)), ('missing', ('owners/o/studies/none',)), ('bad-name', (bad,))],
        'list_studies': [('ok', ('owners/o',)), ('missing', ('owners/none',)), ('bad-name', (bad,))],
        'create_trial': [('new', (trial(7),)), ('duplicate', (trial(1),)), ('bad-name', (study_pb2.Trial(name=bad),))],
        'get_trial': [('ok', (T % 1,)), ('missing', (T % 99,))],
        'update_trial': [('ok', (trial(1),)), ('missing', (trial(99),)), ('bad-name', (study_pb2.Trial(name=bad),))],
        'list_trials': [('ok', (STUDY,)), ('missing', ('owners/o/studies/none',)), ('bad-name', (bad,))],
        'delete_trial': [('ok', (T % 1,)), ('missing', (T % 99,))],
        'max_trial_id': [('ok', (STUDY,)), ('missing', ('owners/o/studies/none',)), ('bad-name', (bad,))],
        'create_suggestion_operation': [('new', (operations_pb2.Operation(name=OP % 2),)), ('duplicate', (operations_pb2.Operation(name=OP % 1),)),
                                        ('bad-name', (operations_pb2.Operation(name=bad),))],
        'get_suggestion_operation': [('ok', (OP % 1,)), ('missing', (OP % 9,))],
        'update_suggestion_operation': [('ok', (operations_pb2.Operation(name=OP % 1, done=True),)), ('missing', (operations_pb2.Operation(name=OP % 9),)),
                                        ('bad-name', (operations_pb2.Operation(name=bad),))],
        'list_suggestion_operations': [('ok', (STUDY, 'c')), ('missing', (STUDY, 'nobody')), ('bad-name', (bad, 'c'))],
        'max_suggestion_operation_number': [('ok', (STUDY, 'c')), ('missing', (STUDY, 'nobody')), ('bad-name', (bad, 'c'))],
        'create_early_stopping_operation': [('new', (vizier_oss_pb2.EarlyStoppingOperation(name=EOP % 1),)),
                                            ('duplicate', (vizier_oss_pb2.EarlyStoppingOperation(name=EOP % 2),)),
                                            ('bad-name', (vizier_oss_pb2.EarlyStoppingOperation(name=bad),))],
        'get_early_stopping_operation': [('ok', (EOP % 2,)), ('missing', (EOP % 9,))],
        'update_early_stopping_operation': [('ok', (vizier_oss_pb2.EarlyStoppingOperation(name=EOP % 2, should_stop=True),)),
                                            ('missing', (vizier_oss_pb2.EarlyStoppingOperation(name=EOP % 9),)),
                                            ('bad-name', (vizier_oss_pb2.EarlyStoppingOperation(name=bad),))],
        'update_metadata': [('ok', (STUDY, [kv('a')], [umd('1'), umd('2'), umd('1', 'k2')])),
                            ('study-only', (STUDY, [kv('a')], [])),
                            ('missing-trial', (STUDY, [kv('a')], [umd('1'), umd('99')])),
                            ('missing-trial-first', (STUDY, [kv('a')], [umd('99')])),
                            ('trial-id-0', (STUDY, [kv('a')], [umd('1'), umd('0')])),
                            ('trial-id-abc', (STUDY, [kv('a')], [umd('abc')])),
                            ('missing-study', ('owners/o/studies/none', [kv('a')], [])), ('bad-name', (bad, [], []))],
    }
    return S.get(method, [])


def bracket(a):
    env, vs, study_pb2, key_value_pb2, vizier_oss_pb2, vz, operations_pb2 = _mods()
    import sqlalchemy as sqla
    from vizier._src.service import sql_datastore, datastore as datastore_mod
    before = env.repo_clean_snapshot()
    results = []
    for label, args in _scenarios(a.method, study_pb2, key_value_pb2, vizier_oss_pb2, operations_pb2, datastore_mod):
        path = os.path.join(OUT, 'bracket', '%s__%s.db' % (a.method, label))
        _fresh(path)
        eng = sqla.create_engine(_url(path), connect_args={'check_same_thread': False}, future=True, poolclass=sqla.pool.StaticPool)
        ds = sql_datastore.SQLDataStore(eng)
        ds.create_study(study_pb2.Study(name=STUDY, display_name='s'))
        for i in (1, 2):
            ds.create_trial(study_pb2.Trial(name=STUDY + '/trials/%d' % i, id=str(i), state=study_pb2.Trial.State.ACTIVE))
        ds.create_suggestion_operation(operations_pb2.Operation(name='owners/o/operations/suggestion/s/c/1', done=False))
        ds.create_early_stopping_operation(vizier_oss_pb2.EarlyStoppingOperation(name='owners/o/operations/earlystopping/s/2'))
        trace = []
        armed = {'on': True}

        def before_exec(conn, cursor, statement, parameters, context, executemany, trace=trace, ds=ds, armed=armed):
            if not armed['on']:
                return
            w = statement.split(None, 1)[0].upper()
            kind = 'read' if w in ('SELECT', 'PRAGMA') else ('write' if w in ('INSERT', 'UPDATE', 'DELETE', 'REPLACE') else 'other:' + w)
            trace.append({'ev': kind, 'table': _tab(statement), 'locked': ds._lock.locked()})

        def on_error(ctx, trace=trace, armed=armed):
            if armed['on'] and trace and trace[-1]['ev'] == 'write':
                trace[-1]['ev'] = 'write_failed'
        sqla.event.listen(eng, 'before_cursor_execute', before_exec)
        sqla.event.listen(eng, 'handle_error', on_error)
        sqla.event.listen(eng, 'commit', lambda conn, trace=trace, ds=ds, armed=armed: armed['on'] and trace.append({'ev': 'commit', 'locked': ds._lock.locked()}))
        sqla.event.listen(eng, 'rollback', lambda conn, trace=trace, ds=ds, armed=armed: armed['on'] and trace.append({'ev': 'rollback', 'locked': ds._lock.locked()}))
        committed_pre = snapshot(path, raw=True)
        exc = None
        try:
            getattr(ds, a.method)(*args)
        except BaseException as e:   # noqa
            exc = type(e).__name__
        armed['on'] = False
        committed = snapshot(path, raw=True)
        own = own_view(ds)
        evs = [t['ev'] for t in trace]
        pending = own != committed
        # the same automaton as the static check, on the run-time trace
        dirty = caw = tainted = False
        cbw = cafw = False
        for e in evs:
            if e == 'write':
                if caw:
                    cbw = True
                dirty = True
            elif e == 'write_failed':
                if caw:
                    cbw = True
                tainted = tainted or dirty
            elif e == 'commit':
                if dirty and tainted:
                    cafw = True
                if dirty:
                    caw = True
                dirty = tainted = False
            elif e == 'rollback':
                dirty = tainted = False
        results.append({'scenario': label, 'exit': 'raise' if exc else 'return', 'exception': exc, 'trace': trace,
                        'pending_at_exit': bool(pending), 'automaton_dirty_at_exit': dirty,
                        'commit_between_writes': cbw, 'commit_after_failed_write': cafw, 'commits': evs.count('commit'),
                        'unlocked_access': any(not t['locked'] for t in trace),
                        'partially_applied_on_error': bool(exc and committed != committed_pre),
                        'statement_kinds_other': sorted({e for e in evs if e.startswith('other')})})
        eng.dispose()
    doc = {'method': a.method, 'scenarios': results, 'repo_untouched': before == env.repo_clean_snapshot()}
    json.dump(doc, open(a.out, 'w'), indent=1)
    if not a.keep:
        shutil.rmtree(os.path.join(OUT, 'bracket'), ignore_errors=True)
    print('DONE')


def main():
    ap = argparse.ArgumentParser()
    ap.add_argument('cmd', choices=['finding7', 'finding15', 'bracket', 'crash-enum', 'crash-child'])
    ap.add_argument('--out')
    ap.add_argument('--method')
    ap.add_argument('--rpc')
    ap.add_argument('--db')
    ap.add_argument('--k', type=int, default=0)
    ap.add_argument('--after-ds', dest='after_ds')
    ap.add_argument('--jobs', type=int, default=0)
    ap.add_argument('--keep', action='store_true')
    ap.add_argument('--points', choices=['all', 'between'], default='all')
    a = ap.parse_args()
    os.makedirs(OUT, exist_ok=True)
    if a.out:
        os.makedirs(os.path.dirname(os.path.abspath(a.out)), exist_ok=True)
    try:
        {'finding7': finding7, 'finding15': finding15, 'bracket': bracket, 'crash-enum': crash_enum,
         'crash-child': crash_child}[a.cmd](a)
    except SystemExit:
        raise
    except BaseException:
        traceback.print_exc()
        print('DRIVER-ERROR')
        sys.exit(3)


if __name__ == '__main__':
    main()
