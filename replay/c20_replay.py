"""C20 replay driver: runs the REAL experimenter code of $VERIF_REPO (under /venv/bin/python) on a concrete scenario.

usage:  /venv/bin/python /verif/replay/c20_replay.py <scenario.json>      (or '-' for stdin); prints one JSON object.

scenario kinds
  evaluate           scripted base experimenter (metric values / infeasibility per call and trial come from the scenario,
                     e.g. from a solver model) wrapped by a stack of real wrapper experimenters; evaluates one batch and
                     reports the final state of every trial and the parameters the base experimenter saw
  problem_statement  by-value probe: ps1 = w.problem_statement(); mutate ps1; compare w.problem_statement() with a snapshot
  finding            the fixed witness programs of the recorded known findings (reproduced: true/false)
  imports            which experimenter modules import in this sandbox
"""
import sys
sys.path.insert(0, '/verif/replay')
import env  # noqa: F401,E402  (pb2 shim, equinox stand-in, $VERIF_REPO on sys.path)
import copy  # noqa: E402
import importlib  # noqa: E402
import json  # noqa: E402
import math  # noqa: E402
import traceback  # noqa: E402

PKG = 'vizier._src.benchmarks.experimenters.'


def _f(x):
    """JSON-safe float."""
    if x is None:
        return None
    x = float(x)
    if math.isnan(x):
        return 'nan'
    if math.isinf(x):
        return 'inf' if x > 0 else '-inf'
    return x


def _unf(x):
    return float(x) if isinstance(x, str) else x


def build_problem(vz, spec):
    p = vz.ProblemStatement()
    for prm in spec.get('params', []):
        t = prm.get('type', 'DOUBLE')
        if t == 'DOUBLE':
            lo, hi = prm.get('bounds', [0.0, 1.0])
            p.search_space.root.add_float_param(prm['name'], lo, hi)
        elif t == 'INTEGER':
            lo, hi = prm.get('bounds', [0, 3])
            p.search_space.root.add_int_param(prm['name'], lo, hi)
        elif t == 'DISCRETE':
            p.search_space.root.add_discrete_param(prm['name'], prm['feasible'])
        else:
            p.search_space.root.add_categorical_param(prm['name'], prm['feasible'])
    for m in spec.get('metrics', []):
        kw = {}
        if m.get('safety') is not None:
            kw['safety_threshold'] = m['safety']
        p.metric_information.append(vz.MetricInformation(name=m['name'], goal=getattr(vz.ObjectiveMetricGoal, m.get('goal', 'MINIMIZE')), **kw))
    return p


def make_scripted_base(vz, experimenter_lib, spec, script):
    class ScriptedBase(experimenter_lib.Experimenter):
        """BaseContract-conforming experimenter whose answers are scripted (per call, per trial)."""

        def __init__(self):
            self._ps = build_problem(vz, spec)
            self.calls = []

        def problem_statement(self):
            return copy.deepcopy(self._ps)

        def evaluate(self, suggestions):
            k = len(self.calls) - getattr(self, 'script_offset', 0)      # calls made by wrapper constructors are not scripted
            seen = []
            self.calls.append(seen)
            if spec.get('raises_on_call') == k:
                raise RuntimeError('scripted failure of the wrapped experimenter')
            for i, t in enumerate(suggestions):
                seen.append({n: v.value for n, v in t.parameters.items()})
                entry = None
                if getattr(self, 'scripting', False) and 0 <= k < len(script) and i < len(script[k]):
                    entry = script[k][i]
                if entry is None and spec.get('default_value') is not None:
                    entry = {'metrics': {m['name']: {'value': spec['default_value']} for m in spec.get('metrics', [])}, 'infeasible': False, 'has_fm': True}
                if entry is None:
                    val = sum(float(v.value) for v in t.parameters.values() if isinstance(v.value, (int, float)))
                    entry = {'metrics': {m['name']: {'value': val + j} for j, m in enumerate(spec.get('metrics', []))}, 'infeasible': False, 'has_fm': True}
                metrics = {n: vz.Metric(value=_unf(m['value']), std=_unf(m.get('std'))) for n, m in entry['metrics'].items()}
                if entry.get('infeasible'):
                    if entry.get('has_fm', True):
                        t.complete(vz.Measurement(metrics=metrics if entry.get('infeasible_with_metrics') else {}), infeasibility_reason='scripted')
                    else:
                        t._infeasibility_reason = 'scripted'
                else:
                    t.complete(vz.Measurement(metrics=metrics))
    return ScriptedBase()


def build_wrapper(vz, base, layer):
    import numpy as np
    mod = importlib.import_module(PKG + layer['module'])
    cls = getattr(mod, layer['class'])
    kw = dict(layer.get('kwargs', {}))
    name = layer['class']
    if name == 'ShiftingExperimenter':
        kw['shift'] = np.asarray(kw['shift'], dtype=float)
    if name == 'NoisyExperimenter':
        fn = kw.pop('noise', 'PLUS1')
        noise = {'PLUS1': (lambda v: v + 1.0), 'IDENTITY': (lambda v: v), 'DOUBLE': (lambda v: 2.0 * v)}[fn]
        return cls(base, noise)
    if name == 'NumpyExperimenter':
        return cls(lambda x: float(np.sum(x)), base.problem_statement())
    if name == 'NoisyExperimenter.from_type':
        return mod.NoisyExperimenter.from_type(base, kw['noise_type'], seed=kw.get('seed'))
    if name == 'SparseExperimenter':
        space = build_problem(vz, {'params': kw.pop('sparse_params')}).search_space
        return cls(base, space, **kw)
    if name in ('SwitchExperimenter',):
        return cls([base] + [base] * int(kw.pop('extra', 0)), **kw)
    if name == 'MultiObjectiveExperimenter':
        return cls({n: base for n in kw['names']})
    return cls(base, **kw)


def trial_state(t):
    fm = t.final_measurement
    return {'params': {n: (v.value if not hasattr(v.value, 'item') else v.value.item()) for n, v in t.parameters.items()},
            'param_types': {n: type(v.value).__name__ for n, v in t.parameters.items()},
            'has_fm': fm is not None,
            'metrics': ({n: {'value': _f(m.value), 'std': _f(m.std)} for n, m in fm.metrics.items()} if fm is not None else None),
            'infeasible': bool(t.infeasible), 'status': t.status.name}


def run_evaluate(sc):
    from vizier import pyvizier as vz
    from vizier._src.benchmarks.experimenters import experimenter as experimenter_lib
    base = make_scripted_base(vz, experimenter_lib, sc['base'], sc.get('script', []))
    if sc.get('numpy') is not None:
        # the experimenter under test is a real NumpyExperimenter whose impl answers with the scenario's values, in call order
        from vizier._src.benchmarks.experimenters import numpy_experimenter
        vals = [_unf(v) for v in sc['numpy']['impl_values']]
        it = iter(vals)
        real = numpy_experimenter.NumpyExperimenter(lambda x: next(it), build_problem(vz, sc['base']))
        base.evaluate = real.evaluate
        base.problem_statement = real.problem_statement
    w = base
    out = {'kind': 'evaluate'}
    try:
        for layer in sc.get('wrappers', []):
            w = build_wrapper(vz, w, layer)
    except Exception as e:
        out['init_exception'] = '%s: %s' % (type(e).__name__, str(e)[:300])
        return out
    base.script_offset = len(base.calls)
    base.scripting = True
    out['constructor_calls'] = len(base.calls)
    trials = [vz.Trial(id=i + 1, parameters=dict(t['params'])) for i, t in enumerate(sc['batch'])]
    out['before'] = [trial_state(t) for t in trials]
    try:
        w.evaluate(trials)
        out['exception'] = None
    except Exception as e:
        out['exception'] = '%s: %s' % (type(e).__name__, str(e)[:300])
        out['traceback'] = traceback.format_exc()[-1500:]
    out['after'] = [trial_state(t) for t in trials]
    tables = {}
    for k, v in list(vars(w).items()) if hasattr(w, '__dict__') else []:
        if isinstance(v, dict) and v and all(isinstance(x, dict) for x in v.values()):
            tables[k] = {pn: [[(a if not hasattr(a, 'item') else a.item()), (b if not hasattr(b, 'item') else b.item())] for a, b in row.items()]
                         for pn, row in v.items()}
    out['tables'] = tables
    calls = base.calls[base.script_offset:]
    out['base_calls'] = [[{n: (v if not hasattr(v, 'item') else v.item()) for n, v in seen.items()} for seen in call] for call in calls]
    out['base_seen_types'] = [[{n: type(v).__name__ for n, v in seen.items()} for seen in call] for call in calls]
    try:
        ps = w.problem_statement()
        out['wrapper_metrics'] = [{'name': m.name, 'goal': m.goal.name} for m in ps.metric_information]
    except Exception as e:
        out['wrapper_metrics_exception'] = '%s: %s' % (type(e).__name__, str(e)[:200])
    return out


def ps_fingerprint(ps):
    return {'metrics': [(m.name, m.goal.name) for m in ps.metric_information],
            'params': sorted(p.name for p in ps.search_space.parameters)}


def run_problem_statement(sc):
    from vizier import pyvizier as vz
    from vizier._src.benchmarks.experimenters import experimenter as experimenter_lib
    base = make_scripted_base(vz, experimenter_lib, sc['base'], [])
    w = base
    for layer in sc.get('wrappers', []):
        w = build_wrapper(vz, w, layer)
    ps1 = w.problem_statement()
    snap = ps_fingerprint(ps1)
    ps_again = w.problem_statement()
    same_object = ps1 is ps_again
    shares_metrics = ps1.metric_information is ps_again.metric_information
    shares_space = ps1.search_space is ps_again.search_space
    # a caller corrupts its copy
    ps1.metric_information.append(vz.MetricInformation(name='__corrupt__', goal=vz.ObjectiveMetricGoal.MAXIMIZE))
    ps1.search_space.root.add_float_param('__corrupt_param__', 0.0, 1.0)
    for m in ps1.metric_information:
        m.goal = vz.ObjectiveMetricGoal.MAXIMIZE if m.goal.is_minimize else vz.ObjectiveMetricGoal.MINIMIZE
    after = ps_fingerprint(w.problem_statement())
    return {'kind': 'problem_statement', 'same_object': same_object, 'shares_metrics': shares_metrics, 'shares_space': shares_space,
            'before': snap, 'after_caller_mutation': after, 'by_value': (after == snap and not same_object and not shares_metrics and not shares_space)}


def main():
    src = sys.argv[1] if len(sys.argv) > 1 else '-'
    sc = json.load(sys.stdin if src == '-' else open(src))
    try:
        if sc['kind'] == 'evaluate':
            out = run_evaluate(sc)
        elif sc['kind'] == 'problem_statement':
            out = run_problem_statement(sc)
        elif sc['kind'] == 'noisy_reproducible':
            from vizier import pyvizier as vz
            from vizier._src.benchmarks.experimenters import experimenter as experimenter_lib, noisy_experimenter
            runs = []
            for _ in range(2):
                base = make_scripted_base(vz, experimenter_lib, sc['base'], [])
                if sc.get('via') == 'factory':
                    from vizier._src.benchmarks.experimenters import experimenter_factory as ef
                    fac = ef.SingleObjectiveExperimenterFactory(base_factory=(lambda base=base: base), noise_type=sc['noise_type'], noise_seed=sc['seed'])
                    w = fac()
                elif sc.get('via') == 'create_noise_fn':
                    w = noisy_experimenter.NoisyExperimenter(base, noisy_experimenter._create_noise_fn(sc['noise_type'], dimension=1, seed=sc['seed']))
                else:
                    w = noisy_experimenter.NoisyExperimenter.from_type(base, sc['noise_type'], seed=sc['seed'])
                ts = [vz.Trial(id=i + 1, parameters=dict(t['params'])) for i, t in enumerate(sc['batch'])]
                w.evaluate(ts)
                w.evaluate(ts)
                runs.append([trial_state(t)['metrics'] for t in ts])
            out = {'kind': 'noisy_reproducible', 'reproducible': runs[0] == runs[1], 'runs': runs}
        elif sc['kind'] == 'multi':
            out = {'kind': 'multi', 'results': []}
            for sub in sc['scenarios']:
                try:
                    out['results'].append(run_evaluate(sub) if sub['kind'] == 'evaluate' else run_problem_statement(sub))
                except Exception as e:
                    out['results'].append({'driver_error': '%s: %s' % (type(e).__name__, e), 'traceback': traceback.format_exc()[-1500:]})
        elif sc['kind'] == 'finding':
            # re-run the recorded witness program of a known finding (known_findings.d/C20.json); reproduced = it still fails
            import os
            fs = json.load(open(os.path.join(os.path.dirname(os.path.dirname(os.path.abspath(__file__))), 'known_findings.d', 'C20.json')))['findings']
            out = {'kind': 'finding', 'results': []}
            for f in fs:
                if sc.get('obligation') and f['obligation'] != sc['obligation']:
                    continue
                try:
                    exec(compile(f['witness'], '<witness>', 'exec'), {'__name__': '__witness__'})
                    out['results'].append({'obligation': f['obligation'], 'reproduced': False})
                except Exception as e:
                    out['results'].append({'obligation': f['obligation'], 'reproduced': True, 'failure': '%s: %s' % (type(e).__name__, str(e)[:160])})
        elif sc['kind'] == 'imports':
            out = {'kind': 'imports', 'modules': {}}
            for m in sc['modules']:
                try:
                    importlib.import_module(m)
                    out['modules'][m] = 'ok'
                except Exception as e:
                    out['modules'][m] = '%s: %s' % (type(e).__name__, str(e)[:200])
        else:
            out = {'error': 'unknown scenario kind %r' % sc['kind']}
    except Exception as e:
        out = {'driver_error': '%s: %s' % (type(e).__name__, e), 'traceback': traceback.format_exc()[-2000:]}
    out['repo'] = env.REPO
    print(json.dumps(out, default=str))


if __name__ == '__main__':
    main()
