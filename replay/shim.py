"""Replay-only: install synthesized *_pb2 / *_pb2_grpc modules into vizier._src.service (no /repo edit).

Trusted only for replay of counterexamples, never for a proof (DESIGN.md section 1, 9.8)."""
import sys, os, types
sys.path.insert(0, os.path.dirname(os.path.abspath(__file__)))
import protogen, grpc
from google.protobuf import descriptor_pool, descriptor_pb2 as dp, symbol_database
from google.protobuf.internal import builder
from google.protobuf import any_pb2, duration_pb2, struct_pb2, timestamp_pb2, wrappers_pb2, empty_pb2
from google.longrunning import operations_pb2
REPO = os.environ.get('VERIF_REPO', '/repo')
D = os.path.join(REPO, 'vizier/_src/service')
if REPO not in sys.path[:2]: sys.path.insert(0, REPO)
sys.path.insert(0, os.path.join(os.path.dirname(os.path.abspath(__file__)), 'stubs'))
ORDER = ['key_value.proto', 'study.proto', 'vizier_oss.proto', 'vizier_service.proto', 'pythia_service.proto']
DEPS = ['google/protobuf/any.proto','google/protobuf/duration.proto','google/protobuf/struct.proto','google/protobuf/timestamp.proto','google/protobuf/wrappers.proto','google/protobuf/empty.proto','google/longrunning/operations.proto']

def _cls(pool, fq):
    from google.protobuf import message_factory
    return message_factory.GetMessageClass(pool.FindMessageTypeByName(fq.lstrip('.')))

def make_grpc_module(modname, fdp, pool):
    mod = types.ModuleType(modname); g = mod.__dict__
    for svc in fdp.service:
        full = (fdp.package + '.' if fdp.package else '') + svc.name
        methods = [(m.name, _cls(pool, m.input_type), _cls(pool, m.output_type)) for m in svc.method]
        def stub_init(self, channel, _methods=methods, _full=full):
            for name, req, resp in _methods:
                setattr(self, name, channel.unary_unary('/%s/%s' % (_full, name),
                        request_serializer=req.SerializeToString, response_deserializer=resp.FromString))
        Stub = type(svc.name + 'Stub', (object,), {'__init__': stub_init})
        def _unimpl(name):
            def f(self, request, context):
                context.set_code(grpc.StatusCode.UNIMPLEMENTED); context.set_details('Method not implemented!')
                raise NotImplementedError('Method not implemented!')
            f.__name__ = name; return f
        Servicer = type(svc.name + 'Servicer', (object,), {name: _unimpl(name) for name, _, _ in methods})
        def add(servicer, server, _methods=methods, _full=full):
            handlers = {name: grpc.unary_unary_rpc_method_handler(getattr(servicer, name),
                        request_deserializer=req.FromString, response_serializer=resp.SerializeToString)
                        for name, req, resp in _methods}
            server.add_generic_rpc_handlers((grpc.method_handlers_generic_handler(_full, handlers),))
        g[svc.name + 'Stub'] = Stub; g[svc.name + 'Servicer'] = Servicer
        g['add_%sServicer_to_server' % svc.name] = add
    return mod

def install():
    files = {n: protogen.parse_file(n, open(os.path.join(D, n)).read()) for n in ORDER}
    pool = descriptor_pool.Default(); known = {}
    for depname in DEPS:
        fd = dp.FileDescriptorProto(); pool.FindFileByName(depname).CopyToProto(fd); known.update(protogen.all_types([fd]))
    known.update(protogen.all_types(files.values()))
    import vizier._src.service as pkg
    for n in ORDER:
        f = files[n]; protogen.resolve(f, known)
        base = n[:-6]; modname = 'vizier._src.service.%s_pb2' % base
        mod = types.ModuleType(modname); g = mod.__dict__
        DESCRIPTOR = pool.AddSerializedFile(f.SerializeToString()); g['DESCRIPTOR'] = DESCRIPTOR
        builder.BuildMessageAndEnumDescriptors(DESCRIPTOR, g)
        builder.BuildTopDescriptorsAndMessages(DESCRIPTOR, modname, g)
        sys.modules[modname] = mod; setattr(pkg, base + '_pb2', mod)
        gm = make_grpc_module(modname + '_grpc', f, pool)
        sys.modules[modname + '_grpc'] = gm; setattr(pkg, base + '_pb2_grpc', gm)
if 'vizier._src.service.study_pb2' not in sys.modules: install()
