"""C06 native witness for the client: after a suggestion operation of a worker ended with an error, the next get_suggestions of
the SAME VizierClient object must reach the algorithm again.  prints one JSON line."""
import json, os, sys
sys.path.insert(0, os.path.dirname(os.path.abspath(__file__)))
import env  # noqa
import service_replay as sr  # noqa
from vizier._src.service import vizier_client, study_pb2, vizier_service_pb2 as vs  # noqa

try:
    svc, fac = sr.make_service('ram', {'suggest': [{'raise': 'RuntimeError'}, {'deliver': '+0'}]})
    spec = study_pb2.StudySpec(algorithm='RANDOM_SEARCH')
    spec.metrics.add(metric_id='obj', goal='MAXIMIZE')
    p = spec.parameters.add(parameter_id='x'); p.double_value_spec.min_value = 0.0; p.double_value_spec.max_value = 1.0
    st = svc.CreateStudy(vs.CreateStudyRequest(parent='owners/o', study=study_pb2.Study(display_name='s', study_spec=spec)))
    cl = vizier_client.VizierClient(st.name, 'w', svc)
    outcomes = []
    for i in range(2):
        try:
            r = cl.get_suggestions(suggestion_count=1)
            outcomes.append(['ok', len(r)])
        except BaseException as e:  # noqa
            outcomes.append(['raised', type(e).__name__])
    calls = len([l for l in fac.log if l[0] == 'suggest'])
    print(json.dumps({'reproduced': not (outcomes[1][0] == 'ok' and calls >= 2), 'outcomes': outcomes, 'policy_calls': calls}))
except Exception as e:  # a driver failure is never a verdict
    print(json.dumps({'reproduced': None, 'error': repr(e)}))
