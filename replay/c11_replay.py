"""C11 replay driver: run concrete point sets / trial lists through the REAL functions and evaluate the violated clause.

usage: /venv/bin/python c11_replay.py <mode>  < payload.json      -> one JSON line on stdout
modes: naive_optimal | naive_against | fast_optimal | fast_against | pareto_rank | xla | list_optimal | best_trials |
       enum_fast | enum_xla | np_model | witness <name>
The brute-force reference below is the specification of contracts/c11.py:
    dom(p,q) = all(p >= q) and any(p > q) ;  opt(P,i) = no j with dom(P[j], P[i])
"""
import itertools
import json
import math
import os
import sys

HERE = os.path.dirname(os.path.abspath(__file__))
sys.path.insert(0, HERE)
import env  # noqa: E402,F401

import numpy as np  # noqa: E402


def fl(x):
    return float(x) if not isinstance(x, str) else float(x)


def arr(rows, d=None):
    rows = [[fl(x) for x in r] for r in rows]
    if not rows:
        return np.zeros((0, d or 0))
    return np.array(rows, dtype=float).reshape(len(rows), len(rows[0]))


def dom(p, q):
    return bool(all(a >= b for a, b in zip(p, q)) and any(a > b for a, b in zip(p, q)))


def weak(p, q):
    return bool(all(a >= b for a, b in zip(p, q)))


def spec_optimal(P):
    return [not any(dom(P[j], P[i]) for j in range(len(P))) for i in range(len(P))]


def spec_against(P, A, strict):
    f = dom if strict else weak
    return [not any(f(a, p) for a in A) for p in P]


def spec_rank(P):
    return [sum(1 for j in range(len(P)) if dom(P[j], P[i])) for i in range(len(P))]


def tolist(x):
    x = np.asarray(x)
    if x.ndim == 0:
        return [x.item()]
    return [v.item() if hasattr(v, 'item') else v for v in x]


def call(fn):
    try:
        return {'value': fn()}
    except RecursionError:
        return {'raised': 'RecursionError'}
    except Exception as e:  # noqa: BLE001
        return {'raised': type(e).__name__, 'message': str(e)[:300]}


def out(d):
    def enc(o):
        if isinstance(o, float):
            return 'nan' if math.isnan(o) else 'inf' if o == math.inf else '-inf' if o == -math.inf else o
        if isinstance(o, (np.bool_,)):
            return bool(o)
        if isinstance(o, np.integer):
            return int(o)
        if isinstance(o, np.floating):
            return enc(float(o))
        if isinstance(o, dict):
            return {k: enc(v) for k, v in o.items()}
        if isinstance(o, (list, tuple)):
            return [enc(v) for v in o]
        return o
    print(json.dumps(enc(d)))


def pareto():
    from vizier._src.pyvizier.multimetric import pareto_optimal
    return pareto_optimal


# ------------------------------------------------------------------------------------------ single inputs
def run_naive_optimal(p):
    P = arr(p['points'])
    r = call(lambda: tolist(pareto().NaiveParetoOptimalAlgorithm().is_pareto_optimal(P)))
    exp = spec_optimal(P.tolist())
    return {'got': r, 'expected': exp, 'reproduced': r.get('value') != exp}


def run_naive_against(p):
    P, A = arr(p['points']), arr(p['against'], len(p['points'][0]) if p['points'] else 0)
    if len(A) == 0:
        A = A.reshape(0, P.shape[1])
    r = call(lambda: tolist(pareto().NaiveParetoOptimalAlgorithm().is_pareto_optimal_against(P, A, strict=bool(p['strict']))))
    exp = spec_against(P.tolist(), A.tolist(), bool(p['strict']))
    return {'got': r, 'expected': exp, 'reproduced': r.get('value') != exp}


def fast(threshold):
    po = pareto()
    return po.FastParetoOptimalAlgorithm(po.NaiveParetoOptimalAlgorithm(), recursive_threshold=int(threshold))


def run_fast_optimal(p):
    P = arr(p['points'])
    r = call(lambda: tolist(fast(p['threshold']).is_pareto_optimal(P)))
    exp = spec_optimal(P.tolist())
    return {'got': r, 'expected': exp, 'reproduced': r.get('value') != exp}


def run_fast_against(p):
    P = arr(p['points'])
    A = arr(p['against'], P.shape[1]).reshape(-1, P.shape[1])
    r = call(lambda: tolist(fast(p['threshold']).is_pareto_optimal_against(P, A, strict=bool(p['strict']))))
    exp = spec_against(P.tolist(), A.tolist(), bool(p['strict']))
    return {'got': r, 'expected': exp, 'reproduced': r.get('value') != exp}


def run_pareto_rank(p):
    from vizier._src.algorithms.evolution import nsga2
    P = arr(p['points'])
    r = call(lambda: [int(x) for x in tolist(nsga2._pareto_rank(P))])
    exp = spec_rank(P.tolist())
    return {'got': r, 'expected': exp, 'reproduced': r.get('value') != exp}


# ------------------------------------------------------------------------------------------ ListOptimalTrials
def run_list_optimal(p):
    """payload: metrics [{id, goal}], trials [{succeeded: bool, infeasible: bool?, metrics: [{id, value}]}]
    The state is reached through RPCs only (CreateStudy, CreateTrial, CompleteTrial); RAM datastore."""
    from vizier._src.service import study_pb2, vizier_service_pb2 as vs
    svc = env.new_servicer(None)
    spec = study_pb2.StudySpec(algorithm='RANDOM_SEARCH')
    for m in p['metrics']:
        spec.metrics.add(metric_id=m['id'], goal=m['goal'])
    q = spec.parameters.add(parameter_id='x')
    q.double_value_spec.min_value = 0.0
    q.double_value_spec.max_value = 1.0
    study = svc.CreateStudy(vs.CreateStudyRequest(parent='owners/o', study=study_pb2.Study(display_name='s', study_spec=spec))).name
    for t in p['trials']:
        tr = study_pb2.Trial(state='SUCCEEDED' if t.get('succeeded') else 'REQUESTED')
        tr.parameters.add(parameter_id='x').value.number_value = 0.5
        if t.get('infeasible'):
            created = svc.CreateTrial(vs.CreateTrialRequest(parent=study, trial=tr))
            req = vs.CompleteTrialRequest(name=created.name, trial_infeasible=True, infeasible_reason='replay')
            for m in t.get('metrics', []):
                req.final_measurement.metrics.add(metric_id=m['id'], value=fl(m['value']))
            svc.CompleteTrial(req)
            continue
        for m in t.get('metrics', []):
            tr.final_measurement.metrics.add(metric_id=m['id'], value=fl(m['value']))
        svc.CreateTrial(vs.CreateTrialRequest(parent=study, trial=tr))
    stored = list(svc.ListTrials(vs.ListTrialsRequest(parent=study)).trials)
    r = call(lambda: [t.id for t in svc.ListOptimalTrials(vs.ListOptimalTrialsRequest(parent=study)).optimal_trials])
    # the specification, natively, on the stored trials
    ids = [m['id'] for m in p['metrics']]
    sign = {m['id']: (-1.0 if m['goal'] == 'MINIMIZE' else 1.0) for m in p['metrics']}

    def val(t, mid):
        v = None
        for m in t.final_measurement.metrics:
            if m.metric_id == mid:
                v = m.value
        return v
    cons = [t for t in stored if t.state == study_pb2.Trial.State.SUCCEEDED and all(val(t, i) is not None for i in ids)
            and not any(math.isnan(val(t, i)) for i in ids)]      # the property: SUCCEEDED, every metric, no NaN objective
    vecs = {t.id: [sign[i] * val(t, i) for i in ids] for t in cons}
    exp = [t.id for t in cons if not any(dom(vecs[u.id], vecs[t.id]) for u in cons)]
    got = r.get('value')
    by_id = {t.id: t for t in stored}
    nan_reported = [i for i in (got or []) if i in by_id and any(val(by_id[i], m) is not None and math.isnan(val(by_id[i], m)) for m in ids)]
    not_considered = [i for i in (got or []) if i not in vecs]
    ob = p.get('obligation', '')
    if 'no_nan_objective' in ob:
        rep = bool(nan_reported)
    elif 'considered' in ob:
        rep = bool(not_considered)
    else:
        rep = got != exp
    return {'got': r, 'expected': exp, 'stored': [{'id': t.id, 'state': int(t.state), 'metrics': {m.metric_id: m.value for m in t.final_measurement.metrics}} for t in stored],
            'nan_objective_reported': nan_reported, 'reported_but_not_considered': not_considered, 'reproduced': rep}


# ------------------------------------------------------------------------------------------ xla_pareto
def run_xla(p):
    from vizier._src.jax import xla_pareto
    fn = p.get('fn', 'is_frontier')
    P = arr(p['points'])
    if fn == 'is_frontier':
        r = call(lambda: tolist(xla_pareto.is_frontier(P, num_shards=int(p.get('num_shards', 10)))))
        exp = spec_optimal(P.tolist())
    elif fn == 'JaxParetoOptimalAlgorithm.is_pareto_optimal':
        r = call(lambda: tolist(xla_pareto.JaxParetoOptimalAlgorithm().is_pareto_optimal(P)))
        exp = spec_optimal(P.tolist())
    elif fn == 'pareto_rank':
        r = call(lambda: [int(x) for x in tolist(xla_pareto.pareto_rank(P))])
        exp = spec_rank(P.tolist())
    elif fn == '_is_pareto_optimal_against':
        A = arr(p['against'], P.shape[1]).reshape(-1, P.shape[1])
        r = call(lambda: tolist(xla_pareto._is_pareto_optimal_against(P, A, strict=bool(p['strict']))))
        exp = spec_against(P.tolist(), A.tolist(), bool(p['strict']))
    else:
        return {'error': 'unknown xla function %s' % fn, 'reproduced': False}
    return {'fn': fn, 'got': r, 'expected': exp, 'reproduced': r.get('value') != exp}


# ------------------------------------------------------------------------------------------ exhaustive small scopes (bounded stand-ins)
def point_sets(n_max, d_max, values):
    for d in range(1, d_max + 1):
        rows = list(itertools.product(values, repeat=d))
        for n in range(0, n_max + 1):
            for ps in itertools.product(rows, repeat=n):
                yield n, d, [list(map(float, r)) for r in ps]


def has_tie0(ps):
    xs = [r[0] for r in ps]
    return len(set(xs)) < len(xs)


def run_enum_fast(p):
    """all point sets with n <= n_max, d <= d_max over `values`, thresholds 1..t_max, on the REAL FastParetoOptimalAlgorithm;
    is_pareto_optimal_against additionally against every `against` set with m <= m_max rows."""
    n_max, d_max, t_max, m_max = p.get('n_max', 3), p.get('d_max', 2), p.get('t_max', 3), p.get('m_max', 2)
    values = p.get('values', [0, 1, 2])
    po = pareto()
    checked = {'optimal': 0, 'against': 0}
    bad_opt_tie, bad_opt_other, bad_against = [], [], []
    for n, d, ps in point_sets(n_max, d_max, values):
        if n == 0:
            continue
        P = np.array(ps, dtype=float).reshape(n, d)
        exp = spec_optimal(ps)
        for t in range(1, t_max + 1):
            algo = po.FastParetoOptimalAlgorithm(po.NaiveParetoOptimalAlgorithm(), recursive_threshold=t)
            got = call(lambda: tolist(algo.is_pareto_optimal(P)))
            checked['optimal'] += 1
            if got.get('value') != exp:
                (bad_opt_tie if has_tie0(ps) else bad_opt_other).append({'points': ps, 'threshold': t, 'got': got, 'expected': exp})
    rows_by_d = {d: list(itertools.product(values, repeat=d)) for d in range(1, d_max + 1)}
    for n, d, ps in point_sets(min(n_max, p.get('n_max_against', 3)), d_max, values):
        if n == 0:
            continue
        P = np.array(ps, dtype=float).reshape(n, d)
        for m in range(1, m_max + 1):
            for As in itertools.product(rows_by_d[d], repeat=m):
                A = np.array(As, dtype=float).reshape(m, d)
                for strict in (True, False):
                    exp = spec_against(ps, [list(a) for a in As], strict)
                    for t in range(1, t_max + 1):
                        algo = po.FastParetoOptimalAlgorithm(po.NaiveParetoOptimalAlgorithm(), recursive_threshold=t)
                        got = call(lambda: tolist(algo.is_pareto_optimal_against(P, A, strict=strict)))
                        checked['against'] += 1
                        if got.get('value') != exp and len(bad_against) < 5:
                            bad_against.append({'points': ps, 'against': [list(a) for a in As], 'strict': strict, 'threshold': t, 'got': got, 'expected': exp})
    return {'checked': checked, 'optimal_failures_with_tie_in_coordinate_0': len(bad_opt_tie), 'example_tie': bad_opt_tie[:2],
            'optimal_failures_without_tie': bad_opt_other[:5], 'against_failures': bad_against,
            'reproduced': bool(bad_opt_other or bad_against)}


def run_enum_xla(p):
    from vizier._src.jax import xla_pareto
    n_max, d_max, values = p.get('n_max', 3), p.get('d_max', 2), p.get('values', [0, 1, 2])
    shards = p.get('shards', [1, 2, 3, 4, 10])
    bad = {k: [] for k in shards}
    checked = 0
    for n, d, ps in point_sets(n_max, d_max, values):
        if n == 0:
            continue
        P = np.array(ps, dtype=float).reshape(n, d)
        exp = spec_optimal(ps)
        for k in shards:
            got = call(lambda: tolist(xla_pareto.is_frontier(P, num_shards=k)))
            checked += 1
            if got.get('value') != exp and len(bad[k]) < 3:
                bad[k].append({'points': ps, 'got': got, 'expected': exp})
    # point counts that are not multiples of the shard count / shard size (7 points in 2 shards, 25 in 10, ...): one point
    # that dominates an antichain, placed first, last and in the middle
    for n in list(range(4, 14)) + [21, 25]:
        chain = [[float(i), float(n - i)] for i in range(1, n)]
        top = [float(n), float(n)]
        for ps in (([top] + chain), (chain + [top]), (chain[:n // 2] + [top] + chain[n // 2:])):
            P = np.array(ps, dtype=float)
            exp = spec_optimal(ps)
            for k in shards:
                got = call(lambda: tolist(xla_pareto.is_frontier(P, num_shards=k)))
                checked += 1
                if got.get('value') != exp and len(bad[k]) < 3:
                    bad[k].append({'points': ps, 'got': got, 'expected': exp})
    return {'checked': checked, 'failures_by_num_shards': {str(k): v for k, v in bad.items()},
            'reproduced': any(v for k, v in bad.items())}


# ------------------------------------------------------------------------------------------ InRamPolicySupporter.GetBestTrials
def best_trials_once(goals, trials, count=None):
    """goals: list of 'MAXIMIZE'|'MINIMIZE'; trials: list of None (infeasible) | list of values.  Returns (got ids, spec ids)."""
    from vizier import pyvizier as vz
    from vizier._src.pythia import local_policy_supporters as lps
    problem = vz.ProblemStatement()
    problem.search_space.root.add_float_param('x', 0.0, 1.0)
    for i, g in enumerate(goals):
        problem.metric_information.append(vz.MetricInformation(name='m%d' % i, goal=getattr(vz.ObjectiveMetricGoal, g)))
    sup = lps.InRamPolicySupporter(problem)
    ts = []
    for v in trials:
        t = vz.Trial(parameters={'x': 0.5})
        if v is None or all(x is None for x in v):
            t.complete(vz.Measurement(), infeasibility_reason='replay')
        else:
            # a None component = the trial does not report that metric (its label is NaN)
            t.complete(vz.Measurement(metrics={'m%d' % i: float(x) for i, x in enumerate(v) if x is not None}))
        ts.append(t)
    sup.AddTrials(ts)
    got = call(lambda: [t.id for t in (sup.GetBestTrials() if count is None else sup.GetBestTrials(count=count))])
    ids = [t.id for t in sup.trials]
    vecs = {ids[i]: [(-1.0 if g == 'MINIMIZE' else 1.0) * float(x) for g, x in zip(goals, v)] for i, v in enumerate(trials)
            if v is not None and all(x is not None for x in v)}
    spec = [i for i in ids if i in vecs and not any(dom(vecs[j], vecs[i]) for j in vecs)]
    return got, spec, ids, vecs


def run_best_trials(p):
    if 'trials' in p:
        cnt = p.get('count')
        got, spec, ids, vecs = best_trials_once(p['goals'], p['trials'], cnt)
        if cnt is None:
            return {'got': got, 'expected': spec, 'reproduced': got.get('value') != spec}
        gv = got.get('value')
        if len(p['goals']) > 1:
            # count set, multi-objective: the first min(count, |Pareto set|) trials of the count-unset answer
            return {'got': got, 'expected': spec[:cnt], 'count': cnt, 'reproduced': gv != spec[:cnt]}
        # count set, single objective: min(count, #labelled) distinct labelled trials, none left out is strictly better
        bad = (gv is None or len(gv) != min(cnt, len(vecs)) or len(set(gv)) != len(gv) or any(i not in vecs for i in gv)
               or any(vecs[k][0] > vecs[i][0] for i in gv for k in vecs if k not in gv))
        return {'got': got, 'count': cnt, 'labels': {str(k): v for k, v in vecs.items()}, 'reproduced': bool(bad)}
    n_max, values = p.get('n_max', 3), p.get('values', [0, 1])
    configs = [['MAXIMIZE'], ['MINIMIZE'], ['MAXIMIZE', 'MINIMIZE']]
    checked, tie, infeasible_only, multi_empty, other = 0, [], [], [], []
    for goals in configs:
        cells = [None] + [list(v) for v in itertools.product(values, repeat=len(goals))]
        for n in range(1, n_max + 1):
            for trials in itertools.product(cells, repeat=n):
                got, spec, ids, vecs = best_trials_once(goals, list(trials))
                checked += 1
                g = got.get('value')
                if g == spec or (g is not None and sorted(g) == sorted(spec) and len(goals) > 1):
                    continue
                rec = {'goals': goals, 'trials': list(trials), 'got': got, 'expected': spec}
                if g is not None and not vecs and len(g) >= 1:
                    infeasible_only.append(rec)          # nothing feasible, yet an (infeasible) trial is returned
                elif g is not None and len(goals) == 1 and len(spec) > 1 and len(g) == 1 and g[0] in spec:
                    tie.append(rec)                      # one of several tied best trials
                elif g == [] and len(goals) > 1 and any(t is None for t in trials) and spec:
                    multi_empty.append(rec)              # an infeasible trial (NaN labels) empties the Pareto set
                else:
                    other.append(rec)
    return {'checked': checked, 'single_objective_tie_returns_one': len(tie), 'example_tie': tie[:1],
            'infeasible_only_returns_infeasible': len(infeasible_only), 'example_infeasible_only': infeasible_only[:1],
            'multi_objective_with_infeasible_returns_nothing': len(multi_empty), 'example_multi_objective': multi_empty[:1],
            'other_failures': other[:5], 'reproduced': bool(other)}


# ------------------------------------------------------------------------------------------ recorded witnesses (known_findings.d/C11.json)
def run_witness(name):
    if name == 'nan_objective':
        r = run_list_optimal({'obligation': 'C11.ListOptimalTrials.no_nan_objective', 'metrics': [{'id': 'a', 'goal': 'MAXIMIZE'}],
                              'trials': [{'succeeded': True, 'metrics': [{'id': 'a', 'value': 'nan'}]},
                                         {'succeeded': True, 'metrics': [{'id': 'a', 'value': 1.0}]}]})
    elif name == 'fast_tie':
        r = run_fast_optimal({'points': [[1, 5], [1, 3]], 'threshold': 1})
    elif name == 'best_trials_tie':
        r = run_best_trials({'goals': ['MAXIMIZE'], 'trials': [[1.0], [1.0], [0.0]]})
    elif name == 'best_trials_infeasible_only':
        r = run_best_trials({'goals': ['MAXIMIZE'], 'trials': [None]})
    elif name == 'best_trials_multi_infeasible':
        r = run_best_trials({'goals': ['MAXIMIZE', 'MINIMIZE'], 'trials': [None, [0.0, 0.0]]})
    elif name == 'frontier_one_shard':
        r = run_xla({'fn': 'is_frontier', 'points': [[1, 5], [1, 3]], 'num_shards': 1})
    else:
        return {'error': 'unknown witness %s' % name, 'reproduced': False}
    r['witness'] = name
    return r


# ------------------------------------------------------------------------------------------ main
MODES = {}


def main():
    mode = sys.argv[1]
    payload = None
    if not sys.stdin.isatty():
        txt = sys.stdin.read()
        payload = json.loads(txt) if txt.strip() else None
    snap = env.repo_clean_snapshot()
    fn = MODES.get(mode) or globals().get('run_' + mode)
    if fn is None:
        out({'error': 'unknown mode %s' % mode})
        return 2
    res = fn(payload or {}) if mode != 'witness' else fn(sys.argv[2])
    res['mode'] = mode
    res['repo_untouched'] = env.repo_clean_snapshot() == snap
    out(res)
    return 0


if __name__ == '__main__':
    sys.exit(main())
