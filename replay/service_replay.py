"""Replay driver: drive the REAL VizierServicer through an RPC history (DESIGN.md 2.6).

usage: /venv/bin/python service_replay.py scenario.json   (or '-' for stdin) -> JSON on stdout

scenario = {
  "backend": "ram" | "sql",
  "policy":  {"suggest": [ {"raise": "RuntimeError"} | {"deliver": <int or "+k"/"-k" relative to the request>} , ...],
              "early_stop": [ {"raise": "ValueError"} | {"stop": [ids]} ]},     # per call, the last entry repeats
  "steps": [ {"rpc": "CreateStudy", "owner": "o", "display_name": "s", "goal": "MAXIMIZE"},
             {"rpc": "CreateTrial", "state": "REQUESTED"|"SUCCEEDED", "params": {"x": 0.5}},
             {"rpc": "SuggestTrials", "count": 2, "client": "c"},
             {"rpc": "AddTrialMeasurement", "trial": 1, "value": 1.0, "steps": 1},
             {"rpc": "CompleteTrial", "trial": 1, "value": 1.0 | null, "infeasible": false, "reason": ""},
             {"rpc": "StopTrial", "trial": 1}, {"rpc": "DeleteTrial", "trial": 1}, {"rpc": "GetTrial", "trial": 1},
             {"rpc": "SetStudyState", "state": "INACTIVE"}, {"rpc": "DeleteStudy"}, {"rpc": "ListTrials"},
             {"rpc": "UpdateMetadata", "study": {"k": "v"}, "trials": {"1": {"k": "v"}}, "ns": ""},
             {"rpc": "CheckTrialEarlyStoppingState", "trial": 1}, {"rpc": "ListOptimalTrials"},
             {"rpc": "GetOperation", "name": "..."}, {"rpc": "snapshot"} ] }
The real service's default database (a file inside the repo) is never used.
"""
import json
import os
import sys

HERE = os.path.dirname(os.path.abspath(__file__))
sys.path.insert(0, HERE)
import env  # noqa: E402

from vizier import pythia  # noqa: E402
from vizier import pyvizier as vz  # noqa: E402
from vizier._src.service import pythia_service  # noqa: E402
from vizier._src.service import study_pb2, vizier_service_pb2 as vs  # noqa: E402
from vizier._src.service import vizier_service  # noqa: E402
from google.longrunning import operations_pb2  # noqa: E402


def _exc_class(name):
    b = __import__('builtins')
    return getattr(b, name, None) or getattr(pythia, name)


class ScriptedFactory(pythia.PolicyFactory):
    def __init__(self, script):
        self.script = script or {}
        self.n_suggest = 0
        self.n_stop = 0
        self.log = []

    def __call__(self, problem_statement, algorithm, policy_supporter, study_name):
        fac = self
        # a failure while the policy is being built (outside PythiaServicer's own try/except around policy.suggest)
        sc0 = self.script.get('suggest') or []
        if sc0:
            e0 = sc0[min(self.n_suggest, len(sc0) - 1)]
            if 'raise' in e0 and e0.get('where') == 'factory' and not self.script.get('_early_stop_call'):
                self.n_suggest += 1
                self.log.append(('factory', None, e0))
                raise _exc_class(e0['raise'])('scripted failure while building the policy')

        class Pol(pythia.Policy):
            def suggest(self, request):
                sc = fac.script.get('suggest') or [{'deliver': '+0'}]
                e = sc[min(fac.n_suggest, len(sc) - 1)]
                fac.n_suggest += 1
                fac.log.append(('suggest', request.count, e))
                if 'raise' in e:
                    raise _exc_class(e['raise'])('scripted failure')
                d = e.get('deliver', '+0')
                n = request.count + int(d) if isinstance(d, str) else int(d)
                n = max(n, 0)
                params = e.get('params') or {}
                sugg = [vz.TrialSuggestion(parameters=dict(params) or {'x': 0.1 * (i + 1)}) for i in range(n)]
                return pythia.SuggestDecision(suggestions=sugg, metadata=vz.MetadataDelta())

            def early_stop(self, request):
                sc = fac.script.get('early_stop') or [{'stop': []}]
                e = sc[min(fac.n_stop, len(sc) - 1)]
                fac.n_stop += 1
                fac.log.append(('early_stop', list(request.trial_ids or []), e))
                if 'raise' in e:
                    raise _exc_class(e['raise'])('scripted failure')
                return pythia.EarlyStopDecisions(decisions=[pythia.EarlyStopDecision(id=i, reason='scripted', should_stop=True) for i in e.get('stop', [])])

            @property
            def should_be_cached(self):
                return False

        return Pol()


def make_service(backend, script, tag='replay'):
    # early_stop_recycle_period = 0: a finished early-stopping operation is never 'recent', so every check recomputes
    if backend == 'sql':
        url = 'sqlite:///:memory:'
    elif backend and backend.startswith('sqlite:'):
        url = backend
    else:
        url = None
    fac = ScriptedFactory(script)
    py = pythia_service.PythiaServicer(vizier_service=None, policy_factory=fac)
    import datetime
    svc = vizier_service.VizierServicer(database_url=url, default_pythia_service=py,
                                        early_stop_recycle_period=datetime.timedelta(seconds=0))
    py._vizier_service = svc
    return svc, fac


def err_info(e):
    code = None
    if hasattr(e, 'code') and callable(e.code):
        try:
            code = str(e.code())
        except Exception:
            code = None
    return {'ok': False, 'error_class': type(e).__name__, 'mro': [c.__name__ for c in type(e).__mro__], 'code': code, 'msg': str(e)[:200]}


def trial_summary(t):
    return {'id': t.id, 'name': t.name, 'state': study_pb2.Trial.State.Name(t.state), 'client_id': t.client_id,
            'n_measurements': len(t.measurements), 'has_final': t.HasField('final_measurement'),
            'final_metrics': {m.metric_id: m.value for m in t.final_measurement.metrics},
            'params': {p.parameter_id: (p.value.number_value if p.value.HasField('number_value') else p.value.string_value) for p in t.parameters},
            'metadata': sorted([kv.ns, kv.key, kv.value] for kv in t.metadata), 'infeasible_reason': t.infeasible_reason}


def op_summary(op):
    out = {'name': op.name, 'done': op.done, 'has_error': op.HasField('error'), 'error_code': op.error.code if op.HasField('error') else None}
    if op.HasField('response'):
        r = vs.SuggestTrialsResponse.FromString(op.response.value)
        out['trials'] = [trial_summary(t) for t in r.trials]
    return out


def snapshot(svc, study_name, clients):
    out = {}
    try:
        out['study_state'] = study_pb2.Study.State.Name(svc.GetStudy(vs.GetStudyRequest(name=study_name)).state)
        st = svc.GetStudy(vs.GetStudyRequest(name=study_name))
        out['study_metadata'] = sorted([kv.ns, kv.key, kv.value] for kv in st.study_spec.metadata)
        out['trials'] = [trial_summary(t) for t in svc.ListTrials(vs.ListTrialsRequest(parent=study_name)).trials]
    except Exception as e:  # missing study
        out['study_error'] = err_info(e)
    ops = {}
    for c in clients:
        try:
            ops[c] = [op_summary(o) for o in svc.datastore.list_suggestion_operations(study_name, c, None)]
        except Exception as e:
            ops[c] = []
    out['ops'] = ops
    return out


def run(sc):
    before = env.repo_clean_snapshot()
    svc, fac = make_service(sc.get('backend', 'ram'), sc.get('policy'))
    study = None
    clients = set()
    results = []
    owner = 'o'
    for st in sc['steps']:
        rpc = st['rpc']
        tn = lambda i: '%s/trials/%s' % (study, i)
        try:
            if rpc == 'CreateStudy':
                owner = st.get('owner', 'o')
                spec = study_pb2.StudySpec(algorithm=st.get('algorithm', 'RANDOM_SEARCH'))
                for mname, goal in (st.get('metrics') or {'obj': st.get('goal', 'MAXIMIZE')}).items():
                    spec.metrics.add(metric_id=mname, goal=goal)
                p = spec.parameters.add(parameter_id='x')
                p.double_value_spec.min_value = 0.0
                p.double_value_spec.max_value = 1.0
                r = svc.CreateStudy(vs.CreateStudyRequest(parent='owners/' + owner, study=study_pb2.Study(display_name=st.get('display_name', 's'), study_spec=spec)))
                study = r.name
                res = {'ok': True, 'name': r.name}
            elif rpc == 'CreateTrial':
                t = study_pb2.Trial(state=st.get('state', 'REQUESTED'))
                for k, v in (st.get('params') or {'x': 0.5}).items():
                    t.parameters.add(parameter_id=k).value.number_value = v
                if st.get('final') is not None:
                    t.final_measurement.metrics.add(metric_id='obj', value=st['final'])
                r = svc.CreateTrial(vs.CreateTrialRequest(parent=st.get('parent', study), trial=t))
                res = {'ok': True, 'trial': trial_summary(r)}
            elif rpc == 'SuggestTrials':
                clients.add(st.get('client', 'c'))
                op = svc.SuggestTrials(vs.SuggestTrialsRequest(parent=st.get('parent', study), suggestion_count=st.get('count', 1), client_id=st.get('client', 'c')))
                res = {'ok': True, 'op': op_summary(op)}
            elif rpc == 'AddTrialMeasurement':
                m = study_pb2.Measurement(step_count=st.get('steps', 1))
                if st.get('value') is not None:
                    m.metrics.add(metric_id='obj', value=st['value'])
                r = svc.AddTrialMeasurement(vs.AddTrialMeasurementRequest(trial_name=st.get('name', tn(st['trial'])), measurement=m))
                res = {'ok': True, 'trial': trial_summary(r)}
            elif rpc == 'CompleteTrial':
                req = vs.CompleteTrialRequest(name=st.get('name', tn(st['trial'])), trial_infeasible=bool(st.get('infeasible', False)), infeasible_reason=st.get('reason', ''))
                if st.get('value') is not None:
                    req.final_measurement.metrics.add(metric_id='obj', value=st['value'])
                r = svc.CompleteTrial(req)
                res = {'ok': True, 'trial': trial_summary(r)}
            elif rpc == 'StopTrial':
                r = svc.StopTrial(vs.StopTrialRequest(name=st.get('name', tn(st['trial']))))
                res = {'ok': True, 'trial': trial_summary(r)}
            elif rpc == 'DeleteTrial':
                svc.DeleteTrial(vs.DeleteTrialRequest(name=st.get('name', tn(st['trial']))))
                res = {'ok': True}
            elif rpc == 'GetTrial':
                r = svc.GetTrial(vs.GetTrialRequest(name=st.get('name', tn(st['trial']))))
                res = {'ok': True, 'trial': trial_summary(r)}
            elif rpc == 'ListTrials':
                r = svc.ListTrials(vs.ListTrialsRequest(parent=st.get('parent', study)))
                res = {'ok': True, 'trials': [trial_summary(t) for t in r.trials]}
            elif rpc == 'SetStudyState':
                r = svc.SetStudyState(vs.SetStudyStateRequest(parent=st.get('parent', study), state=st['state']))
                res = {'ok': True, 'state': study_pb2.Study.State.Name(r.state)}
            elif rpc == 'DeleteStudy':
                svc.DeleteStudy(vs.DeleteStudyRequest(name=st.get('name', study)))
                res = {'ok': True}
            elif rpc == 'GetStudy':
                r = svc.GetStudy(vs.GetStudyRequest(name=st.get('name', study)))
                res = {'ok': True, 'state': study_pb2.Study.State.Name(r.state)}
            elif rpc == 'UpdateMetadata':
                req = vs.UpdateMetadataRequest(name=st.get('name', study))
                for k, v in (st.get('study') or {}).items():
                    d = req.delta.add()
                    d.metadatum.key, d.metadatum.ns, d.metadatum.value = k, st.get('ns', ''), v
                for tid, kvs in (st.get('trials') or {}).items():
                    for k, v in kvs.items():
                        d = req.delta.add(trial_id=str(tid))
                        d.metadatum.key, d.metadatum.ns, d.metadatum.value = k, st.get('ns', ''), v
                r = svc.UpdateMetadata(req)
                res = {'ok': True, 'error_details': r.error_details}
            elif rpc == 'CheckTrialEarlyStoppingState':
                r = svc.CheckTrialEarlyStoppingState(vs.CheckTrialEarlyStoppingStateRequest(trial_name=st.get('name', tn(st['trial']))))
                res = {'ok': True, 'should_stop': r.should_stop}
            elif rpc == 'ListOptimalTrials':
                r = svc.ListOptimalTrials(vs.ListOptimalTrialsRequest(parent=st.get('parent', study)))
                res = {'ok': True, 'trials': [trial_summary(t) for t in r.optimal_trials]}
            elif rpc == 'GetOperation':
                r = svc.GetOperation(operations_pb2.GetOperationRequest(name=st['name']))
                res = {'ok': True, 'op': op_summary(r)}
            elif rpc == 'RestartServer':
                # a new server process on the same persistent store: every in-memory attribute is back to its __init__ value,
                # the datastore keeps its contents
                old = svc
                svc, fac2 = make_service(sc.get('backend', 'ram'), sc.get('policy'))
                svc.datastore = old.datastore
                fac2.n_suggest, fac2.n_stop, fac2.log = fac.n_suggest, fac.n_stop, fac.log
                fac = fac2
                res = {'ok': True}
            elif rpc == 'snapshot':
                res = {'ok': True, 'snapshot': snapshot(svc, study, clients)}
            else:
                res = {'ok': False, 'error_class': 'ReplayError', 'msg': 'unknown rpc ' + rpc}
        except BaseException as e:  # noqa: the point is to observe what escapes
            res = err_info(e)
        res['rpc'] = rpc
        results.append(res)
    out = {'results': results, 'final': snapshot(svc, study, clients) if study else None, 'policy_log': fac.log,
           'repo_untouched': env.repo_clean_snapshot() == before}
    return out


if __name__ == '__main__':
    src = sys.stdin.read() if sys.argv[1] == '-' else open(sys.argv[1]).read()
    print(json.dumps(run(json.loads(src)), default=str))
