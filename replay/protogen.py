"""Probe: build FileDescriptorProtos for vizier's .proto files without protoc."""
import re, sys, os
from google.protobuf import descriptor_pb2 as dp

TOK = re.compile(r'\s+|//[^\n]*|/\*.*?\*/|("(?:[^"\\]|\\.)*")|([A-Za-z_][\w.]*|\.[\w.]+)|(-?\d+)|(.)', re.S)
def lex(src):
    out = []
    for m in TOK.finditer(src):
        s, ident, num, ch = m.groups()
        if s is not None: out.append(('str', s[1:-1]))
        elif ident is not None: out.append(('id', ident))
        elif num is not None: out.append(('num', int(num)))
        elif ch is not None: out.append(('ch', ch))
    return out

SCALARS = {k: getattr(dp.FieldDescriptorProto, 'TYPE_' + k.upper()) for k in
           'double float int32 int64 uint32 uint64 sint32 sint64 fixed32 fixed64 sfixed32 sfixed64 bool string bytes'.split()}

class P:
    def __init__(self, toks): self.t = toks; self.i = 0
    def peek(self): return self.t[self.i] if self.i < len(self.t) else (None, None)
    def next(self): x = self.t[self.i]; self.i += 1; return x
    def expect(self, v):
        k, x = self.next()
        assert x == v, (v, x, self.t[self.i-5:self.i+5])
    def skip_balanced(self, open_, close):
        depth = 1
        while depth:
            k, x = self.next()
            if k == 'ch' and x == open_: depth += 1
            elif k == 'ch' and x == close: depth -= 1
    def skip_stmt(self):
        # skip until ';' at depth 0, handling {...}
        while True:
            k, x = self.next()
            if k == 'ch' and x == '{': self.skip_balanced('{', '}')
            elif k == 'ch' and x == ';': return

def parse_file(name, src):
    p = P(lex(src)); f = dp.FileDescriptorProto(name=name, syntax='proto3')
    while p.peek()[0] is not None:
        k, x = p.next()
        if x == 'syntax': p.skip_stmt()
        elif x == 'package': f.package = p.next()[1]; p.expect(';')
        elif x == 'import':
            k2, s = p.next()
            if s in ('public', 'weak'): k2, s = p.next()
            p.expect(';')
            if not s.startswith('google/api/'): f.dependency.append(s)
        elif x == 'option': p.skip_stmt()
        elif x == 'message': parse_message(p, f.message_type.add())
        elif x == 'enum': parse_enum(p, f.enum_type.add())
        elif x == 'service': parse_service(p, f.service.add())
        elif x == ';': pass
        else: raise SyntaxError((name, x))
    return f

def parse_enum(p, e):
    e.name = p.next()[1]; p.expect('{')
    while True:
        k, x = p.next()
        if x == '}': return
        if x in ('option', 'reserved'): p.skip_stmt(); continue
        p.expect('='); num = p.next()[1]
        if p.peek()[1] == '[': p.next(); p.skip_balanced('[', ']')
        p.expect(';'); e.value.add(name=x, number=num)

def parse_field(p, m, first, oneof_index=None):
    label = dp.FieldDescriptorProto.LABEL_OPTIONAL; proto3_optional = False
    if first == 'repeated': label = dp.FieldDescriptorProto.LABEL_REPEATED; first = p.next()[1]
    elif first == 'optional': proto3_optional = True; first = p.next()[1]
    if first == 'map': raise NotImplementedError('map fields')
    ftype = first; fname = p.next()[1]; p.expect('='); num = p.next()[1]
    if p.peek()[1] == '[': p.next(); p.skip_balanced('[', ']')
    p.expect(';')
    fd = m.field.add(name=fname, number=num, label=label, json_name=to_json(fname))
    if ftype in SCALARS: fd.type = SCALARS[ftype]
    else: fd.type_name = ftype  # resolved later
    if oneof_index is not None: fd.oneof_index = oneof_index
    if proto3_optional: fd.proto3_optional = True
    return fd

def to_json(n):
    parts = n.split('_'); return parts[0] + ''.join(s[:1].upper() + s[1:] for s in parts[1:])

def parse_message(p, m):
    m.name = p.next()[1]; p.expect('{'); synthetic = []
    while True:
        k, x = p.next()
        if x == '}': break
        if x == 'message': parse_message(p, m.nested_type.add())
        elif x == 'enum': parse_enum(p, m.enum_type.add())
        elif x in ('option', 'reserved', 'extensions'): p.skip_stmt()
        elif x == 'oneof':
            idx = len(m.oneof_decl); m.oneof_decl.add(name=p.next()[1]); p.expect('{')
            while True:
                k2, y = p.next()
                if y == '}': break
                if y == 'option': p.skip_stmt(); continue
                parse_field(p, m, y, oneof_index=idx)
        elif x == ';': pass
        else:
            fd = parse_field(p, m, x)
            if fd.proto3_optional: synthetic.append(fd)
    for fd in synthetic:  # synthetic oneofs must come after real ones
        fd.oneof_index = len(m.oneof_decl); m.oneof_decl.add(name='_' + fd.name)

def parse_service(p, s):
    s.name = p.next()[1]; p.expect('{')
    while True:
        k, x = p.next()
        if x == '}': return
        if x == 'option': p.skip_stmt(); continue
        assert x == 'rpc', x
        mname = p.next()[1]; p.expect('(')
        cs = p.peek()[1] == 'stream'
        if cs: p.next()
        it = p.next()[1]; p.expect(')'); p.expect('returns'); p.expect('(')
        ss = p.peek()[1] == 'stream'
        if ss: p.next()
        ot = p.next()[1]; p.expect(')')
        k2, y = p.next()
        if y == '{': p.skip_balanced('{', '}')
        s.method.add(name=mname, input_type=it, output_type=ot, client_streaming=cs, server_streaming=ss)

def all_types(pool_files):
    """fully-qualified name -> 'message'|'enum' for every type in the given FileDescriptorProtos."""
    out = {}
    def walk(prefix, msgs, enums):
        for e in enums: out[prefix + '.' + e.name] = 'enum'
        for m in msgs:
            out[prefix + '.' + m.name] = 'message'; walk(prefix + '.' + m.name, m.nested_type, m.enum_type)
    for f in pool_files: walk('.' + f.package if f.package else '', f.message_type, f.enum_type)
    return out

def resolve(f, known):
    def res(name, scope):
        if name.startswith('.'): return name
        parts = scope.split('.')
        while True:
            cand = '.'.join(parts + [name]) if parts != [''] else '.' + name
            if not cand.startswith('.'): cand = '.' + cand
            if cand in known: return cand
            if not parts or parts == ['']: raise KeyError((name, scope))
            parts = parts[:-1]
    def walk(scope, m):
        me = scope + '.' + m.name
        for fd in m.field:
            if fd.type_name:
                fq = res(fd.type_name, me); fd.type_name = fq
                fd.type = dp.FieldDescriptorProto.TYPE_ENUM if known[fq] == 'enum' else dp.FieldDescriptorProto.TYPE_MESSAGE
        for n in m.nested_type: walk(me, n)
    pk = '.' + f.package if f.package else ''
    for m in f.message_type: walk(pk, m)
    for s in f.service:
        for me in s.method:
            me.input_type = res(me.input_type, pk); me.output_type = res(me.output_type, pk)
