"""Replay environment: real vizier code from $VERIF_REPO (default /repo) + pb2 shim + equinox stand-in.

Never uses the service's default database (a sqlite file inside the repo)."""
import os, sys, subprocess
HERE = os.path.dirname(os.path.abspath(__file__))
REPO = os.environ.get('VERIF_REPO', '/repo')
sys.path.insert(0, HERE)
os.environ.setdefault('JAX_PLATFORMS', 'cpu')
import logging
logging.disable(logging.CRITICAL)
import shim  # noqa: E402  (installs pb2 modules)
try:
    from absl import logging as _al
    _al.set_verbosity(_al.FATAL)
except Exception:
    pass

def new_servicer(database_url=None, **kw):
    from vizier._src.service import vizier_service
    return vizier_service.VizierServicer(database_url=database_url, **kw)

def repo_clean_snapshot():
    return subprocess.run(['git', '-C', REPO, 'status', '--porcelain'], capture_output=True, text=True).stdout
