"""C19 conformance tests: every ASSUMED contract of pyvc/jx_model.py is run against the real jax / numpy / tfp here.

usage: /venv/bin/python c19_conformance.py [quick|thorough]   -> one JSON line {contract: {"ok": bool, "detail": ...}}
A failing entry means an assumption used by the proofs of contracts/c19.py does not hold for the installed library: the
check reports the obligations that use it as violated (reproduced natively by this very test).
"""
import itertools
import json
import math
import os
import sys

HERE = os.path.dirname(os.path.abspath(__file__))
sys.path.insert(0, HERE)
import env  # noqa: E402,F401

import warnings  # noqa: E402
warnings.filterwarnings('ignore')
import numpy as np  # noqa: E402
import jax  # noqa: E402
import jax.numpy as jnp  # noqa: E402
from tensorflow_probability.substrates import jax as tfp  # noqa: E402

tfd = tfp.distributions
NAN, INF = float('nan'), float('inf')
NEG_NAN = float(np.copysign(np.nan, -1.0))
TIER = sys.argv[1] if len(sys.argv) > 1 else 'quick'
RES = {}


def record(name, ok, detail=None):
    cur = RES.setdefault(name, {'ok': True, 'cases': 0})
    cur['cases'] += 1
    if not ok and cur['ok']:
        cur['ok'] = False
        cur['detail'] = detail


def guard(name, fn):
    try:
        fn()
    except Exception as ex:  # a crash of a conformance test is a failed test, never silently passed
        record(name, False, 'exception %s: %s' % (type(ex).__name__, str(ex)[:300]))


def vectors(n):
    rng = np.random.RandomState(n)
    pool = [0.0, 1.0, 1.0, -2.5, 3.0, INF, -INF, NAN, NEG_NAN, 0.5]
    out = [rng.choice(pool, size=n).astype(np.float32) for _ in range(12 if TIER == 'quick' else 60)]
    out.append(np.arange(n, dtype=np.float32))
    out.append(np.zeros(n, dtype=np.float32))
    return out


def t_argpartition():
    for n in (1, 2, 5, 7):
        for x in vectors(n):
            for kth in range(n):
                p = np.asarray(jnp.argpartition(jnp.asarray(x), kth))
                ok = sorted(p.tolist()) == list(range(n))
                for a in range(n):
                    for b in range(n):
                        if a <= kth <= b and a != b:
                            xa, xb = float(x[p[a]]), float(x[p[b]])
                            if not (math.isnan(xa) or math.isnan(xb) or xa <= xb):
                                ok = False
                record('argpartition.permutation_and_nan_guarded_partition', ok, {'x': [str(v) for v in x], 'kth': kth, 'p': p.tolist()})
    # documented hazard (finding nan_ranked_best): the negated NaN comes FIRST
    p = np.asarray(jnp.argpartition(-jnp.asarray([1.0, NAN, 3.0]), 0))
    record('argpartition.nan_order_is_unspecified_in_the_model', True, {'negated_nan_first': bool(p[0] == 1)})
    for bad in (3, -4):
        try:
            jnp.argpartition(jnp.asarray([1.0, 2.0, 3.0]), bad)
            record('argpartition.kth_out_of_bounds_raises', False, {'kth': bad})
        except Exception:
            record('argpartition.kth_out_of_bounds_raises', True)


def t_argsort_argmin():
    for n in (1, 4, 6):
        for x in vectors(n):
            p = np.asarray(jnp.argsort(jnp.asarray(x)))
            record('argsort.permutation', sorted(p.tolist()) == list(range(n)), {'x': [str(v) for v in x], 'p': p.tolist()})
            srt = [float(x[i]) for i in p]
            ok = all(math.isnan(srt[b]) or (not math.isnan(srt[a]) and srt[a] <= srt[b]) for a in range(n) for b in range(a + 1, n))
            record('argsort.ascending_nan_last', ok, {'x': [str(v) for v in x], 'sorted': [str(v) for v in srt]})
            for f, nm in ((jnp.argmin, 'argmin'), (jnp.argmax, 'argmax')):
                r = int(f(jnp.asarray(x)))
                record('argmin_argmax.index_in_range', 0 <= r < n, {'x': [str(v) for v in x], nm: r})
    m = jnp.asarray(np.array([[3.0, NAN, 1.0], [NAN, NAN, NAN]], dtype=np.float32))
    r = np.asarray(jnp.argmin(m, axis=-1))
    record('argmin_argmax.index_in_range', bool(((r >= 0) & (r < 3)).all()) and r.shape == (2,), {'r': r.tolist()})


def t_clip_and_elementwise():
    x = jnp.asarray([NAN, -1.0, 2.0, INF, -INF, 0.5, 0.0, 1.0])
    y = np.asarray(jnp.clip(x, 0.0, 1.0))
    exp = [NAN, 0.0, 1.0, 1.0, 0.0, 0.5, 0.0, 1.0]
    record('clip.nan_stays_nan_else_into_bounds', all((math.isnan(a) and math.isnan(b)) or a == b for a, b in zip(y.tolist(), exp)), y.tolist())
    a = jnp.asarray([NAN, 1.0, -INF, INF, 2.0])
    b = jnp.asarray([1.0, NAN, 5.0, -INF, 2.0])
    mx, mn = np.asarray(jnp.maximum(a, b)), np.asarray(jnp.minimum(a, b))
    record('maximum_minimum.nan_propagates', bool(np.isnan(mx[:2]).all() and np.isnan(mn[:2]).all() and mx[2] == 5 and mn[2] == -INF and mx[3] == INF
                                                  and mn[3] == -INF and mx[4] == 2), [mx.tolist(), mn.tolist()])
    z = np.asarray(jnp.nan_to_num(jnp.asarray([NAN, INF, -INF, 1.5]), 0))
    record('nan_to_num.nan_to_zero_inf_to_finite', bool(z[0] == 0 and np.isfinite(z).all() and z[1] > 0 > z[2] and z[3] == 1.5), z.tolist())
    v = jnp.asarray([NAN, INF, -INF, 0.0])
    record('float_predicates', np.asarray(jnp.isfinite(v)).tolist() == [False, False, False, True] and np.asarray(jnp.isneginf(v)).tolist() == [False, False, True, False]
           and np.asarray(jnp.isnan(v)).tolist() == [True, False, False, False])
    one = jnp.ones(3)
    ieee = [bool((np.asarray(-jnp.inf * one) == -INF).all()), bool((np.asarray(one * -jnp.inf) == -INF).all()),
            bool(np.asarray(jnp.asarray(-INF) + 3.0) == -INF), bool(np.isnan(np.asarray(jnp.asarray(-INF) + INF))),
            bool(np.isnan(np.asarray(jnp.asarray(0.0) / 0.0))), bool(np.asarray(jnp.asarray(1.0) / 0.0) == INF),
            bool(np.isnan(np.asarray(jnp.asarray(INF) * 0.0))), bool(np.asarray(jnp.asarray(1.0) / INF) == 0.0),
            bool(np.isnan(np.asarray(jnp.asarray(-INF) - (-INF)))), not bool(np.asarray(jnp.asarray(NAN) >= 0.0)), not bool(np.asarray(jnp.asarray(NAN) < 1.0))]
    record('ieee_specials_in_arithmetic', all(ieee), ieee)
    w = np.asarray(jnp.where(jnp.asarray([True, False, True]), jnp.asarray([1.0, 2.0, 3.0]), -jnp.inf))
    record('where_concatenate_reshape', w.tolist() == [1.0, -INF, 3.0])
    c = np.asarray(jnp.concatenate([jnp.asarray([[1, 2]]), jnp.asarray([[3, 4], [5, 6]])], axis=0))
    record('where_concatenate_reshape', c.tolist() == [[1, 2], [3, 4], [5, 6]])
    base = np.arange(24).reshape(4, 6)
    r1 = np.asarray(jnp.reshape(jnp.asarray(base)[:4], (2, 2, 6)))
    r2 = np.asarray(jnp.reshape(jnp.asarray(base.reshape(2, 2, 6)), (2, -1)))
    r3 = np.asarray(jnp.reshape(jnp.asarray(base.reshape(2, 12)), (2, 2, 6)))
    record('where_concatenate_reshape', bool((r1 == base.reshape(2, 2, 6)).all() and (r2 == base.reshape(2, 12)).all() and (r3 == base.reshape(2, 2, 6)).all()))
    record('where_concatenate_reshape', np.asarray(jnp.flip(jnp.asarray([1, 2, 3]))).tolist() == [3, 2, 1]
           and np.asarray(jnp.squeeze(jnp.ones((2, 1, 3)), axis=1)).shape == (2, 3) and np.asarray(jnp.expand_dims(jnp.ones((3,)), axis=0)).shape == (1, 3)
           and np.asarray(jnp.asarray([1, 2, 3])[:, jnp.newaxis]).shape == (3, 1) and np.asarray(jnp.ones((2, 3))[..., jnp.newaxis, jnp.newaxis]).shape == (2, 3, 1, 1))
    bc = np.asarray(jnp.arange(3) < jnp.asarray([1, 3])[:, jnp.newaxis])
    record('broadcasting', bc.tolist() == [[True, False, False], [True, True, True]])
    bc2 = np.asarray(jnp.where(jnp.asarray([False, True]), jnp.zeros((2, 1, 2)), jnp.ones((2, 1, 2))))
    record('broadcasting', bc2.tolist() == [[[1.0, 0.0]], [[1.0, 0.0]]])


def t_indexing():
    x = jnp.arange(5) * 10
    f = jax.jit(lambda a, i: a[i])
    for i in range(-12, 13):
        got = int(f(x, i))
        pos = i + 5 if i < 0 else i
        pos = min(max(pos, 0), 4)
        record('traced_index.wrap_once_then_clamp', got == pos * 10, {'i': i, 'got': got})
    g = jax.jit(lambda a, idx: a[idx])
    m = jnp.arange(12).reshape(4, 3)
    got = np.asarray(g(m, jnp.asarray([3, 0, 7, -1, -9])))
    record('traced_index.wrap_once_then_clamp', got[:, 0].tolist() == [9, 0, 9, 9, 0], got.tolist())
    for i in range(-8, 9):
        s = np.asarray(jax.jit(lambda a, j: a.at[j].set(99))(x, i))
        a = np.asarray(jax.jit(lambda a, j: a.at[j].add(1))(x, i))
        pos = i + 5 if i < 0 else i
        exp_s, exp_a = (np.arange(5) * 10), (np.arange(5) * 10)
        if 0 <= pos < 5:
            exp_s[pos], exp_a[pos] = 99, exp_a[pos] + 1
        record('at_set_add.wrapped_index_dropped_when_out_of_bounds', s.tolist() == exp_s.tolist() and a.tolist() == exp_a.tolist(), {'i': i, 'set': s.tolist()})
    rows = np.asarray(jax.jit(lambda a, j: a.at[j].set(jnp.asarray([7, 7, 7])))(m, 2))
    record('at_set_add.wrapped_index_dropped_when_out_of_bounds', rows[2].tolist() == [7, 7, 7] and rows[1].tolist() == [3, 4, 5])


def t_lax():
    x = jnp.arange(10)
    ds = jax.jit(lambda a, s: jax.lax.dynamic_slice_in_dim(a, s, 4))
    for s in range(-14, 15):
        got = np.asarray(ds(x, s)).tolist()
        st = s + 10 if s < 0 else s
        st = min(max(st, 0), 6)
        record('dynamic_slice_in_dim.start_wrapped_then_clamped', got == list(range(st, st + 4)), {'start': s, 'got': got})
    du = jax.jit(lambda a, s: jax.lax.dynamic_update_slice_in_dim(a, jnp.asarray([100, 101, 102]), s, axis=0))
    for s in range(-14, 15):
        got = np.asarray(du(x, s)).tolist()
        st = s + 10 if s < 0 else s
        st = min(max(st, 0), 7)
        exp = list(range(10))
        exp[st:st + 3] = [100, 101, 102]
        record('dynamic_update_slice_in_dim.start_wrapped_then_clamped', got == exp, {'start': s, 'got': got})
    c = jax.jit(lambda p, a: jax.lax.cond(p, lambda v: v + 1, lambda v: v * 2, a))
    record('cond.selects_branch', int(c(True, 5)) == 6 and int(c(False, 5)) == 10)
    c2 = jax.jit(lambda p, a, b: jax.lax.cond(p, lambda *args: args, lambda u, v: (v, u), a, b))
    record('cond.selects_branch', [int(v) for v in c2(True, 1, 2)] == [1, 2] and [int(v) for v in c2(False, 1, 2)] == [2, 1])
    body = lambda i, v: (v[0] * 2 + i, v[1] + v[0])
    for lo, hi in ((0, 0), (0, 1), (2, 6), (5, 3)):
        got = jax.lax.fori_loop(lo, hi, body, (jnp.asarray(1), jnp.asarray(0)))
        v = (1, 0)
        for i in range(lo, hi):
            v = (v[0] * 2 + i, v[1] + v[0])
        record('fori_loop.is_the_python_loop', (int(got[0]), int(got[1])) == v, {'lo': lo, 'hi': hi})


def t_vmap_tree():
    # the exact axis wiring used by eagle_strategy._create_categorical_feature_logits
    pool, batch, par, nfeat, ncat = 3, 2, 2, 2, 4
    rng = np.random.RandomState(0)
    feats = rng.randint(0, ncat, size=(pool, par, nfeat))
    fb = rng.randint(0, ncat, size=(batch, par, nfeat))
    scale = rng.rand(batch, pool).astype(np.float32)
    sizes = np.array([3, 4])

    def vec(f_one, member, sc, size):          # [pool], scalar, [pool], scalar -> [ncat]
        return jnp.where(jnp.arange(ncat) < size, jnp.sum(jnp.where(jnp.arange(ncat)[:, None] == f_one, sc, 0.0), axis=-1), -jnp.inf).at[member].add(1.0)
    one_feature = lambda f, b, s, z: jax.vmap(jax.vmap(vec, in_axes=(-1, -1, None, None)), in_axes=(None, 0, 0, None))(f, b, s, z)
    out = np.asarray(jax.vmap(one_feature, in_axes=(-1, -1, None, 0), out_axes=2)(jnp.asarray(feats), jnp.asarray(fb), jnp.asarray(scale), jnp.asarray(sizes)))
    ok = out.shape == (batch, par, nfeat, ncat)
    for b, p, d in itertools.product(range(batch), range(par), range(nfeat)):
        ref = np.asarray(vec(jnp.asarray(feats[:, p, d]), fb[b, p, d], jnp.asarray(scale[b]), sizes[d]))
        ok = ok and np.allclose(out[b, p, d], ref, equal_nan=True)
    record('vmap.pointwise_map_with_in_axes_out_axes', bool(ok))
    from vizier._src.jax import types
    t = types.ContinuousAndCategorical(jnp.ones((2, 3)), jnp.zeros((2, 1), jnp.int32))
    m = jax.tree_util.tree_map(lambda a, b: a[:1] + b, t, types.ContinuousAndCategorical(1, 2))
    record('tree_map.over_continuous_and_categorical', isinstance(m, types.ContinuousAndCategorical) and np.asarray(m.continuous).tolist() == [[2.0, 2.0, 2.0]]
           and np.asarray(m.categorical).tolist() == [[2]] and jax.tree_util.tree_map(lambda a: a, None) is None
           and len(jax.tree_util.tree_leaves(types.ContinuousAndCategorical(3, 4))) == 2)
    from vizier._src.algorithms.optimizers import eagle_strategy as es
    st = es.VectorizedEagleStrategyState(iterations=jnp.asarray(0), features=t, rewards=jnp.ones(2), best_reward=jnp.asarray(0.0), perturbations=jnp.ones(2))
    record('tree_map.over_continuous_and_categorical', len(jax.tree_util.tree_leaves(st)) == 6)
    cfg = es.EagleStrategyConfig()
    record('tree_map.static_fields_are_not_leaves', len(jax.tree_util.tree_leaves(cfg)) == len([f for f in cfg.__dataclass_fields__.values()
                                                                                              if f.metadata.get('pytree_node', True)]))


def t_random():
    key = jax.random.PRNGKey(7)
    a, b = jax.random.split(key)
    a2, b2 = jax.random.split(key)
    k3 = jax.random.split(key, num=3)
    record('random.split_is_a_function_of_the_key', bool((np.asarray(a) == np.asarray(a2)).all() and (np.asarray(b) == np.asarray(b2)).all()
                                                         and not (np.asarray(a) == np.asarray(b)).all() and len(k3) == 3))
    n = 200000 if TIER == 'quick' else 5000000
    u = np.asarray(jax.random.uniform(a, shape=(n,)))
    record('random.uniform_in_unit_interval', bool((u >= 0).all() and (u < 1).all()), [float(u.min()), float(u.max())])
    u2 = np.asarray(jax.random.uniform(a, shape=(n,)))
    record('random.functions_of_the_key', bool((u == u2).all()))
    lp = np.asarray(jax.random.laplace(b, shape=(n,)))
    record('random.laplace_finite', bool(np.isfinite(lp).all()), [float(lp.min()), float(lp.max())])
    record('random.uniform_shape', np.asarray(jax.random.uniform(a, shape=(2, 1, 3))).shape == (2, 1, 3) and np.asarray(jax.random.laplace(a, shape=(2, 1, 0))).shape == (2, 1, 0))


def t_categorical():
    rows = [[NAN, -INF, -INF], [-INF, -INF, -INF], [-INF, 0.0, -INF], [INF, 0.0, 0.0], [-INF, NAN, 0.0], [0.0, NAN, -INF], [0.0, 0.0, -INF],
            [-INF, -INF, 1.0], [0.3, -2.0, 5.0], [NEG_NAN, 0.0, 0.0], [0.0, -INF, NEG_NAN]]
    L = jnp.asarray(np.array(rows, dtype=np.float32))
    n = 400 if TIER == 'quick' else 5000
    s = tfd.Categorical(logits=L).sample((n, 2), seed=jax.random.PRNGKey(3))
    sa = np.asarray(s)
    ok = sa.shape == (n, 2, len(rows)) and np.issubdtype(sa.dtype, np.integer)
    record('categorical.shape_is_sample_shape_plus_batch_shape', bool(ok), list(sa.shape))
    for r, row in enumerate(rows):
        ks = set(sa[..., r].ravel().tolist())
        nan_pos = [c for c, v in enumerate(row) if math.isnan(v)]
        good = all(0 <= k < 3 for k in ks)
        if nan_pos:
            good = good and ks == {nan_pos[0]}
        elif any(v != -INF for v in row):
            good = good and all(row[k] != -INF for k in ks)
        else:
            good = good and ks == {0}
        record('categorical.first_nan_else_supported_logit_else_zero', bool(good), {'row': [str(v) for v in row], 'sampled': sorted(ks)})
    s0 = tfd.Categorical(logits=L[2:4]).sample(seed=jax.random.PRNGKey(1))
    record('categorical.shape_is_sample_shape_plus_batch_shape', np.asarray(s0).shape == (2,))
    L4 = jnp.where(jnp.arange(4) < jnp.asarray([[2], [4], [0]]), 0.0, -jnp.inf)      # the sampler's logits
    s4 = np.asarray(tfd.Categorical(logits=L4).sample((300, 1), seed=jax.random.PRNGKey(5)))
    record('categorical.first_nan_else_supported_logit_else_zero', bool((s4[..., 0] < 2).all() and (s4[..., 1] < 4).all() and (s4[..., 2] == 0).all()))
    s5 = np.asarray(tfd.Categorical(logits=L).sample((3,), seed=jax.random.PRNGKey(3)))
    s6 = np.asarray(tfd.Categorical(logits=L).sample((3,), seed=jax.random.PRNGKey(3)))
    record('random.functions_of_the_key', bool((s5 == s6).all()))


def main():
    for nm, fn in (('argpartition', t_argpartition), ('argsort_argmin', t_argsort_argmin), ('clip_and_elementwise', t_clip_and_elementwise),
                   ('indexing', t_indexing), ('lax', t_lax), ('vmap_tree', t_vmap_tree), ('random', t_random), ('categorical', t_categorical)):
        guard('conformance_test_ran.' + nm, fn)
        record('conformance_test_ran.' + nm, True)
    print(json.dumps(RES))


if __name__ == '__main__':
    main()
