"""Forced-interleaving replay (C04): park one thread of the REAL servicer right after its n-th call of a datastore
method, run another RPC to completion meanwhile, resume, and report what happened.

usage: /venv/bin/python c04_interleave.py '{"backend":"ram","victim":{"rpc":"SuggestTrials","count":1,"client":"c"},
         "park_after":["max_trial_id",2],"intruder":{"rpc":"CreateTrial"},"setup":[...steps...]}'
Prints one JSON line: outcomes of both calls, stored operations (done flags), trials (id, state, client).
"""
import json
import sys
import threading
import os

sys.path.insert(0, os.path.dirname(os.path.abspath(__file__)))
import env  # noqa
import service_replay as SR  # noqa
from vizier._src.service import vizier_service_pb2 as vs, study_pb2  # noqa


class Proxy:
    def __init__(self, inner, victim, method, nth):
        self._i, self._victim, self._method, self._nth, self._count = inner, victim, method, nth, 0
        self.parked, self.resume = threading.Event(), threading.Event()

    def __getattr__(self, name):
        f = getattr(self._i, name)

        def g(*a, **k):
            r = f(*a, **k)
            if name == self._method and threading.current_thread().name == self._victim:
                self._count += 1
                if self._count == self._nth:
                    self.parked.set()
                    self.resume.wait(15)
            return r
        return g


def call(svc, study, st):
    rpc = st['rpc']
    if rpc == 'SuggestTrials':
        op = svc.SuggestTrials(vs.SuggestTrialsRequest(parent=study, suggestion_count=st.get('count', 1), client_id=st.get('client', 'c')))
        return {'ok': True, 'op': SR.op_summary(op)}
    if rpc == 'CreateTrial':
        t = svc.CreateTrial(vs.CreateTrialRequest(parent=study, trial=study_pb2.Trial()))
        return {'ok': True, 'trial': SR.trial_summary(t)}
    if rpc == 'CompleteTrial':
        req = vs.CompleteTrialRequest(name='%s/trials/%s' % (study, st['trial']))
        req.final_measurement.metrics.add(metric_id='obj', value=1.0)
        return {'ok': True, 'trial': SR.trial_summary(svc.CompleteTrial(req))}
    if rpc == 'AddTrialMeasurement':
        m = study_pb2.Measurement(step_count=st.get('steps', 1))
        return {'ok': True, 'trial': SR.trial_summary(svc.AddTrialMeasurement(vs.AddTrialMeasurementRequest(trial_name='%s/trials/%s' % (study, st['trial']), measurement=m)))}
    if rpc == 'StopTrial':
        return {'ok': True, 'trial': SR.trial_summary(svc.StopTrial(vs.StopTrialRequest(name='%s/trials/%s' % (study, st['trial']))))}
    raise ValueError(rpc)


def main(sc):
    before = env.repo_clean_snapshot()
    svc, fac = SR.make_service(sc.get('backend', 'ram'), sc.get('policy'))
    res = SR.run.__globals__  # noqa
    # setup through the ordinary replay steps
    study = None
    steps = [{'rpc': 'CreateStudy'}] + list(sc.get('setup', []))
    r = svc.CreateStudy(vs.CreateStudyRequest(parent='owners/o', study=study_pb2.Study(display_name='s', study_spec=_spec())))
    study = r.name
    for st in sc.get('setup', []):
        call(svc, study, st)
    method, nth = sc['park_after']
    px = Proxy(svc.datastore, 'victim', method, nth)
    svc.datastore = px
    out = {}

    def victim():
        try:
            out['victim'] = call(svc, study, sc['victim'])
        except BaseException as e:  # noqa
            out['victim'] = SR.err_info(e)

    t = threading.Thread(target=victim, name='victim')
    t.start()
    parked = px.parked.wait(20)
    try:
        out['intruder'] = call(svc, study, sc['intruder']) if parked else {'ok': False, 'error_class': 'NotParked'}
    except BaseException as e:  # noqa
        out['intruder'] = SR.err_info(e)
    px.resume.set()
    t.join(30)
    out['deadlock'] = t.is_alive()
    svc.datastore = px._i
    out['final'] = SR.snapshot(svc, study, {sc['victim'].get('client', 'c')})
    out['parked'] = parked
    out['repo_untouched'] = env.repo_clean_snapshot() == before
    return out


def _spec():
    spec = study_pb2.StudySpec(algorithm='RANDOM_SEARCH')
    spec.metrics.add(metric_id='obj', goal='MAXIMIZE')
    p = spec.parameters.add(parameter_id='x')
    p.double_value_spec.min_value, p.double_value_spec.max_value = 0.0, 1.0
    return spec


if __name__ == '__main__':
    print(json.dumps(main(json.loads(sys.argv[1])), default=str))
