"""C09 replay driver: runs concrete values through the REAL converters (under /venv/bin/python).

usage: c09_replay.py <job.json> | --json '<job>' | findings
A job is {"kind": <converter>, "x": <encoded value>, "clause": "roundtrip.<field>" | "idempotent.<field>" | ...};
the driver prints one JSON line (what happened + the natively evaluated clauses of the property) and then
REPRODUCED / NOT-REPRODUCED (REPRODUCED = the real code violates the named clause on this input).

The oracle below is an independent plain-Python statement of the property: equality is the attrs-generated `__eq__`
(field list and eq flags read from the *runtime* attrs metadata), minus the fields documented as not transmitted,
numbers compared by value, NaN equal to NaN, times to the microsecond.
"""
import datetime
import json
import math
import os
import sys

sys.path.insert(0, os.path.dirname(os.path.abspath(__file__)))
import env  # noqa: E402,F401
import attr  # noqa: E402
from vizier._src.pyvizier.oss import proto_converters as pc  # noqa: E402
from vizier._src.pyvizier.shared import trial as trial_lib  # noqa: E402
from vizier._src.pyvizier.shared import parameter_config as pcl  # noqa: E402
from vizier._src.pyvizier.shared import base_study_config as bsc  # noqa: E402
from vizier._src.pyvizier.shared import common  # noqa: E402

EXCLUDED = {('Metric', 'std'), ('Measurement', 'checkpoint_path'), ('Trial', 'related_links'), ('EarlyStopDecisions', 'metadata')}
TEXT_ONLY = {('Trial', 'stopping_reason')}        # transmitted as present/absent only (the text is documented as lost)
MICRO = {('Measurement', 'elapsed_secs')}


# ---------------------------------------------------------------------------------------- scalars
def dec(tv):
    if tv is None:
        return None
    t, v = tv['t'], tv['v']
    if t == 'none':
        return None
    if t == 'bool':
        return bool(v)
    if t == 'int':
        return int(v)
    if t == 'float':
        return float(v)
    return str(v)


def enc(v):
    if v is None:
        return {'t': 'none', 'v': None}
    if isinstance(v, bool):
        return {'t': 'bool', 'v': v}
    if isinstance(v, int):
        return {'t': 'int', 'v': v}
    if isinstance(v, float):
        return {'t': 'float', 'v': repr(v)}
    return {'t': 'str', 'v': str(v)}


def fl(s):
    return None if s is None else float(s)


# ---------------------------------------------------------------------------------------- the oracle
def same(a, b, path=''):
    """list of (path, equal?) leaves of the structural comparison a == b as the property means it."""
    if isinstance(a, float) or isinstance(b, float):
        if isinstance(a, (bool, int, float)) and isinstance(b, (bool, int, float)):
            if isinstance(a, float) and isinstance(b, float) and math.isnan(a) and math.isnan(b):
                return [(path, True)]
            return [(path, a == b)]
        return [(path, False)]
    if attr.has(type(a)) and type(a) is type(b):
        out = []
        cn = type(a).__name__
        for f in attr.fields(type(a)):
            nm = f.name.lstrip('_')
            if f.eq is False or (cn, nm) in EXCLUDED:
                continue
            x, y = getattr(a, f.name), getattr(b, f.name)
            p = (path + '.' if path else '') + nm
            if (cn, nm) in TEXT_ONLY:
                # exempt text; presence matters only where it determines the status (not on completed/infeasible trials)
                completed = getattr(a, 'final_measurement', None) is not None or getattr(a, 'infeasible', False)
                out.append((p, True if completed else (x is None) == (y is None)))
            elif (cn, nm) in MICRO:
                out.append((p, abs(x - y) < 1e-6))
            elif f.eq_key is not None:
                out += same(f.eq_key(x), f.eq_key(y), p)
            else:
                out += same(x, y, p)
        return out
    if isinstance(a, datetime.datetime) and isinstance(b, datetime.datetime):
        return [(path, abs(a.timestamp() - b.timestamp()) < 1e-6)]
    if hasattr(a, 'items') and hasattr(b, 'items') and not attr.has(type(a)):
        da, db = dict(a.items()), dict(b.items())
        if set(da) != set(db):
            return [(path, False)]
        out = [(path, True)]
        for k in da:
            out += same(da[k], db[k], path)
        return out
    if isinstance(a, (list, tuple)) and isinstance(b, (list, tuple)):
        if len(a) != len(b) or isinstance(a, tuple) != isinstance(b, tuple):
            return [(path, False)]
        out = [(path, True)]
        for x, y in zip(a, b):
            out += same(x, y, path)
        return out
    try:
        return [(path, bool(a == b))]
    except Exception:
        return [(path, False)]


def clauses_of(x, y):
    out = {}
    for p, ok in same(x, y):
        top = p.split('.')[0] if p else 'value'
        out[top] = out.get(top, True) and ok
    return out


def proto_clauses(p, p2):
    out = {}
    for fd in p.DESCRIPTOR.fields:
        a, b = getattr(p, fd.name), getattr(p2, fd.name)
        ok = (a == b)
        repeated = getattr(fd, 'is_repeated', None)
        if repeated is None:
            repeated = fd.label == fd.LABEL_REPEATED
        if not repeated and fd.message_type is not None:
            ok = ok and (p.HasField(fd.name) == p2.HasField(fd.name))
        out[fd.name] = bool(ok)
    for od in p.DESCRIPTOR.oneofs:
        out[od.name] = p.WhichOneof(od.name) == p2.WhichOneof(od.name)
    return out


# ---------------------------------------------------------------------------------------- builders (JSON -> real objects)
def build_measurement(d):
    metrics = {}
    for k, v, std in d.get('metrics', []):
        metrics[k] = trial_lib.Metric(value=float(v), std=fl(std))
    return trial_lib.Measurement(metrics=metrics, elapsed_secs=float(d.get('elapsed_secs', '0.0')), steps=int(d.get('steps', 0)),
                                 checkpoint_path=d.get('checkpoint_path', ''))


def build(kind, x):
    if kind == 'ParameterValue':
        return trial_lib.ParameterValue(dec(x['value']))
    if kind == 'Measurement':
        return build_measurement(x)
    b = BUILDERS.get(kind)
    if b is None:
        raise KeyError('unknown kind %s' % kind)
    return b(x)


def build_dt(v):
    return None if v is None else datetime.datetime.fromtimestamp(float(v)).astimezone()


def build_trial(d):
    params = {k: dec(v) for k, v in d.get('parameters', [])}
    kw = {}
    if 'creation_time' in d:
        kw['creation_time'] = build_dt(d['creation_time'])
    t = trial_lib.Trial(
        parameters=params, id=int(d.get('id', 0)), is_requested=bool(d.get('is_requested', False)),
        assigned_worker=d.get('assigned_worker'), stopping_reason=d.get('stopping_reason'),
        infeasibility_reason=d.get('infeasibility_reason'), description=d.get('description'),
        final_measurement=None if d.get('final_measurement') is None else build_measurement(d['final_measurement']),
        measurements=[build_measurement(x) for x in d.get('measurements', [])],
        completion_time=build_dt(d.get('completion_time')), **kw)
    for ns, k, v in d.get('metadata', []):
        t.metadata.abs_ns(common.Namespace(tuple(ns)))[k] = v
    return t


def build_metric_information(d):
    kw = {}
    for k in ('safety_threshold', 'safety_std_threshold', 'desired_min_safe_trials_fraction', 'min_value', 'max_value'):
        if d.get(k) is not None:
            kw[k] = float(d[k])
    return bsc.MetricInformation(name=d.get('name', ''), goal=bsc.ObjectiveMetricGoal[d.get('goal', 'MAXIMIZE')], **kw)


def build_pc(d):
    kw = {}
    if d.get('feasible_values') is not None:
        kw['feasible_values'] = [dec(v) for v in d['feasible_values']]
    elif d.get('bounds') is not None:
        kw['bounds'] = (dec(d['bounds'][0]), dec(d['bounds'][1]))
    if d.get('scale_type'):
        kw['scale_type'] = pcl.ScaleType[d['scale_type']]
    if d.get('default_value') is not None:
        kw['default_value'] = dec(d['default_value'])
    if d.get('external_type'):
        kw['external_type'] = pcl.ExternalType[d['external_type']]
    if d.get('children'):
        kw['children'] = [([dec(v) for v in vals], build_pc(c)) for vals, c in d['children']]
    return pcl.ParameterConfig.factory(d.get('name', 'p'), **kw)


def build_suggestion(d):
    t = trial_lib.TrialSuggestion(parameters={k: dec(v) for k, v in d.get('parameters', [])})
    for ns, k, v in d.get('metadata', []):
        t.metadata.abs_ns(common.Namespace(tuple(ns)))[k] = v
    return t


def build_study_state(d):
    from vizier._src.pyvizier.pythia import study as study_lib
    return study_lib.StudyState[d['state']]


def build_earlystop_decisions(d):
    from vizier._src.pythia import policy
    ds = [policy.EarlyStopDecision(id=int(e['id']), reason=e['reason'], should_stop=bool(e['should_stop']),
                                   predicted_final_measurement=None if e.get('predicted_final_measurement') is None
                                   else build_measurement(e['predicted_final_measurement'])) for e in d.get('decisions', [])]
    return policy.EarlyStopDecisions(decisions=ds)


BUILDERS = {'Trial': build_trial, 'TrialSuggestion': build_suggestion, 'EarlyStopDecisions': build_earlystop_decisions, 'StudyState': build_study_state, 'MetricInformation': build_metric_information, 'ParameterConfig': build_pc,
            'ConditionalParameterConfig': build_pc}


def converters(kind, x):
    """(to_proto, from_proto) callables of the pair."""
    if kind == 'ParameterValue':
        nm = x.get('name', 'p')
        return (lambda o: pc.ParameterValueConverter.to_proto(o, nm)), pc.ParameterValueConverter.from_proto
    if kind == 'Measurement':
        return pc.MeasurementConverter.to_proto, pc.MeasurementConverter.from_proto
    c = CONVERTERS.get(kind)
    if c is None:
        raise KeyError('unknown kind %s' % kind)
    return c(x)


CONVERTERS = {'Trial': lambda x: (pc.TrialConverter.to_proto, pc.TrialConverter.from_proto),
              'TrialSuggestion': lambda x: (pc.TrialSuggestionConverter.to_proto, pc.TrialSuggestionConverter.from_proto),
              'StudyState': lambda x: (pc.StudyStateConverter.to_proto, pc.StudyStateConverter.from_proto),
              'EarlyStopDecisions': lambda x: (pc.EarlyStopConverter.to_decisions_proto, pc.EarlyStopConverter.from_decisions_proto),
              'MetricInformation': lambda x: (pc.MetricInformationConverter.to_proto, pc.MetricInformationConverter.from_proto),
              'ParameterConfig': lambda x: (pc.ParameterConfigConverter.to_proto, pc.ParameterConfigConverter.from_proto),
              'ConditionalParameterConfig': lambda x: (pc.ParameterConfigConverter.to_proto, pc.ParameterConfigConverter.from_proto)}


def run_job(job):
    kind, clause = job['kind'], job.get('clause', '')
    res = {'kind': kind, 'clause': clause}
    try:
        x = build(kind, job['x'])
    except Exception as e:  # the input itself is rejected by the real constructors: not a witness
        res['build_error'] = repr(e)
        return res, False
    res['x'] = repr(x)[:600]
    to_p, from_p = converters(kind, job['x'])
    try:
        p = to_p(x)
        y = from_p(p)
        p2 = to_p(y)
    except Exception as e:
        res['exception'] = repr(e)[:400]
        return res, clause.endswith('no_exception') or clause.startswith('roundtrip') or clause.startswith('idempotent')
    res['y'] = repr(y)[:600]
    rt = clauses_of(x, y)
    idem = proto_clauses(p, p2)
    res['roundtrip'] = rt
    res['idempotent'] = idem
    part, _, field = clause.partition('.')
    if field == 'no_exception':
        return res, False           # no exception occurred
    table = rt if part == 'roundtrip' else idem
    if field in table:
        return res, not table[field]
    # a clause the native oracle does not know by that name: any failed clause of the same part counts
    return res, not all(table.values())


# ---------------------------------------------------------------------------------------- recorded findings (witnesses)
def load_findings():
    """open entries of /verif/known_findings.d/C09.json: {obligation: witness job}"""
    path = os.path.join(os.path.dirname(os.path.dirname(os.path.abspath(__file__))), 'known_findings.d', 'C09.json')
    out = {}
    if os.path.exists(path):
        for e in json.load(open(path)).get('findings', []):
            if e.get('status', 'open') == 'open' and isinstance(e.get('witness'), dict):
                out[e['obligation']] = {k: v for k, v in e['witness'].items() if k != 'how'}
    return out


# ---------------------------------------------------------------------------------------- bounded stand-in: metadata
def _any(n):
    from google.protobuf import any_pb2, duration_pb2
    a = any_pb2.Any()
    a.Pack(duration_pb2.Duration(seconds=n))
    return a


def _md_items(md):
    """{(namespace tuple, key): value} over all namespaces (protos compared by serialisation)"""
    out = {}
    for ns, k, v in md.all_items():
        out[(tuple(ns), k)] = v if isinstance(v, str) else ('<any>', v.SerializeToString())
    return out


def _md_build(entries):
    md = common.Metadata()
    for ns, k, v in entries:
        md.abs_ns(common.Namespace(tuple(ns)))[k] = v
    return md


def _md_pool():
    """entries (namespace, key, value) over separator / unicode / empty components (no component ends in a backslash:
    the recorded C10 finding about Namespace.encode/decode)"""
    nss = [(), ('a',), ('a', 'b:c'), ('',), ('\u00fc', 'x\\y'), (':',)]
    keys = ['', 'k', 'k:2']
    vals = ['', 'v', _any(3)]
    pool = []
    for i, ns in enumerate(nss):
        for j, k in enumerate(keys):
            pool.append((ns, k, vals[(i + j) % 3]))
    return pool


def _md_family():
    import itertools
    pool = _md_pool()
    fam = [[]] + [[e] for e in pool]
    fam += [list(c) for c in itertools.combinations(pool[::2], 2)]
    fam += [[pool[0], pool[3], pool[4]], [pool[4], pool[0], pool[3]]]      # order of insertion
    return fam


def standin_metadata():
    """exhaustive over the family above: MetadataDeltaConverter, make_key_value_list/from_key_value_list, and the metadata
    field of Trial / TrialSuggestion; returns (cases, [counterexample records])"""
    from vizier._src.pyvizier.oss import metadata_util
    fam = _md_family()
    bad, n = [], 0

    def record(clause, desc, detail):
        if len(bad) < 12:
            bad.append({'clause': clause, 'input': desc, 'detail': detail})
    for ents in fam:
        desc = repr([(ns, k, v if isinstance(v, str) else '<Any>') for ns, k, v in ents])
        md = _md_build(ents)
        # key-value lists
        n += 1
        try:
            kv = metadata_util.make_key_value_list(md)
            back = metadata_util.from_key_value_list(kv)
            if _md_items(back) != _md_items(md):
                record('C09.KeyValueList.roundtrip.metadata', desc, repr(_md_items(back))[:300])
            if [m.SerializeToString() for m in metadata_util.make_key_value_list(back)] != [m.SerializeToString() for m in kv]:
                record('C09.KeyValueList.idempotent.metadata', desc, 'second conversion differs')
        except Exception as e:  # noqa: BLE001
            record('C09.KeyValueList.roundtrip.no_exception', desc, repr(e))
        # Trial / TrialSuggestion metadata
        for kind, mk, conv in (('Trial', lambda: trial_lib.Trial(id=1, description='d'), pc.TrialConverter),
                               ('TrialSuggestion', lambda: trial_lib.TrialSuggestion(), pc.TrialSuggestionConverter)):
            n += 1
            try:
                t = mk()
                for ns, k, v in ents:
                    t.metadata.abs_ns(common.Namespace(tuple(ns)))[k] = v
                p = conv.to_proto(t)
                y = conv.from_proto(p)
                if _md_items(y.metadata) != _md_items(t.metadata):
                    record('C09.%s.roundtrip.metadata' % kind, desc, repr(_md_items(y.metadata))[:300])
                if list(conv.to_proto(y).metadata) != list(p.metadata):
                    record('C09.%s.idempotent.metadata' % kind, desc, 'second conversion differs')
            except Exception as e:  # noqa: BLE001
                record('C09.%s.roundtrip.no_exception' % kind, desc, repr(e))
    # metadata deltas: on_study x on_trials
    small = [f for f in fam if len(f) <= 1][:8] + fam[-2:]
    trial_sets = [{}, {1: small[1]}, {0: small[2], 7: small[-1]}, {3: small[3], 4: small[3]}, {12: small[5]}]
    for s_ents in small:
        for ts in trial_sets:
            n += 1
            desc = repr({'on_study': [(ns, k, v if isinstance(v, str) else '<Any>') for ns, k, v in s_ents],
                         'on_trials': {i: [(ns, k, v if isinstance(v, str) else '<Any>') for ns, k, v in e] for i, e in ts.items()}})
            try:
                d = trial_lib.MetadataDelta(on_study=_md_build(s_ents))
                for tid, ents in ts.items():
                    for ns, k, v in ents:
                        d.on_trials[tid].abs_ns(common.Namespace(tuple(ns)))[k] = v
                protos = pc.MetadataDeltaConverter.to_protos(d)
                y = pc.MetadataDeltaConverter.from_protos(protos)
                if _md_items(y.on_study) != _md_items(d.on_study):
                    record('C09.MetadataDelta.roundtrip.on_study', desc, repr(_md_items(y.on_study))[:300])
                want = {tid: _md_items(m) for tid, m in d.on_trials.items() if _md_items(m)}
                got = {tid: _md_items(m) for tid, m in y.on_trials.items() if _md_items(m)}
                if want != got:
                    record('C09.MetadataDelta.roundtrip.on_trials', desc, repr(got)[:300])
                p2 = pc.MetadataDeltaConverter.to_protos(y)
                if [m.SerializeToString() for m in p2] != [m.SerializeToString() for m in protos]:
                    record('C09.MetadataDelta.idempotent.updates', desc, 'second conversion differs')
            except Exception as e:  # noqa: BLE001
                record('C09.MetadataDelta.roundtrip.no_exception', desc, repr(e))
    return n, bad


# ---------------------------------------------------------------------------------------- bounded stand-in: composite configs
def _spaces():
    """search spaces composed of parameters *outside* the witness classes of the recorded element findings (truthy
    defaults, no UNIFORM_DISCRETE, conditional depth <= 1), so that only the composition is examined here"""
    P, S, X = pcl.ParameterConfig.factory, pcl.ScaleType, pcl.ExternalType
    flats = [
        P('d', bounds=(0.0, 1.5), scale_type=S.LOG, default_value=0.5),
        P('i', bounds=(-2, 5), default_value=3, external_type=X.INTEGER),
        P('disc', feasible_values=[1.0, 2.5, 7.0], scale_type=S.REVERSE_LOG, external_type=X.FLOAT),
        P('cat', feasible_values=['', 'a', 'b:c', '\u00fc'], default_value='a'),
        P('bool', feasible_values=['False', 'True'], external_type=X.BOOLEAN),
        P('0', bounds=(0.0, 0.0), scale_type=S.LINEAR),
    ]
    cond = P('root', feasible_values=['x', 'y'], children=[(['x'], P('cx', bounds=(0.0, 1.0))), (['x', 'y'], P('cxy', bounds=(1, 3))),
                                                          (['y'], P('cy', feasible_values=[1.0, 2.0]))])
    icond = P('iroot', bounds=(0, 2), children=[([0, 2], P('k', bounds=(0.0, 1.0), default_value=0.25))])
    out = [[], [flats[0]], flats[:3], flats, [cond], [icond, flats[3]], list(reversed(flats))]
    spaces = []
    for pcs in out:
        sp = pcl.SearchSpace()
        for c in pcs:
            sp.add(c)
        spaces.append(sp)
    return spaces


def _metric_sets():
    G, MI = bsc.ObjectiveMetricGoal, bsc.MetricInformation
    return [[], [MI(name='', goal=G.MAXIMIZE)], [MI(name='a', goal=G.MINIMIZE), MI(name='b:c', goal=G.MAXIMIZE, safety_threshold=0.0)],
            [MI(name='s', goal=G.MINIMIZE, safety_threshold=-1.5, desired_min_safe_trials_fraction=0.0),
             MI(name='\u00fc', goal=G.MAXIMIZE, safety_threshold=2.0, desired_min_safe_trials_fraction=1.0)]]


def _eq_problem(a, b):
    return (a.search_space == b.search_space and list(a.metric_information) == list(b.metric_information)
            and _md_items(a.metadata) == _md_items(b.metadata))


def standin_configs():
    from vizier._src.pythia import policy
    from vizier._src.pyvizier.pythia import study as study_lib
    from vizier._src.pyvizier.oss import study_config as sc
    from vizier._src.pyvizier.oss import automated_stopping
    bad, n = [], 0

    def record(clause, desc, detail):
        if len(bad) < 12:
            bad.append({'clause': clause, 'input': desc, 'detail': detail})

    def pair(clause, desc, x, to_p, from_p, eq, ser=lambda p: p.SerializeToString()):
        nonlocal n
        n += 1
        try:
            p = to_p(x)
            y = from_p(p)
            if not eq(x, y):
                record('C09.%s.roundtrip' % clause, desc, repr(y)[:400])
            if ser(to_p(y)) != ser(p):
                record('C09.%s.idempotent' % clause, desc, 'second conversion differs')
        except Exception as e:  # noqa: BLE001
            record('C09.%s.roundtrip.no_exception' % clause, desc, repr(e)[:300])
    mds = [_md_build(e) for e in _md_family()[:1] + _md_family()[1:19:6] + _md_family()[-2:]]
    for si, sp in enumerate(_spaces()):
        desc = 'search space #%d %r' % (si, [c.name for c in sp.parameters])
        pair('SearchSpace', desc, sp, lambda s_: study_pb2_spec(s_), lambda p: pc.SearchSpaceConverter.from_proto(p), lambda a, b: a == b)
        for mi, ms in enumerate(_metric_sets()):
            for di, md in enumerate(mds if (si + mi) % 3 == 0 else mds[:2]):
                d2 = desc + ' metrics #%d metadata #%d' % (mi, di)
                ps = bsc.ProblemStatement(search_space=sp, metric_information=ms, metadata=md)
                pair('ProblemStatement', d2, ps, pc.ProblemStatementConverter.to_proto, pc.ProblemStatementConverter.from_proto, _eq_problem)
                sd = study_lib.StudyDescriptor(config=ps, guid='owners/o/studies/s%d' % di, max_trial_id=di * 7)
                eq_sd = lambda a, b: _eq_problem(a.config, b.config) and a.guid == b.guid and a.max_trial_id == b.max_trial_id
                pair('StudyDescriptor', d2, sd, pc.StudyDescriptorConverter.to_proto, pc.StudyDescriptorConverter.from_proto, eq_sd)
                for count, ckpt in ((1, None), (2, ''), (5, 'dir/x')):
                    rq = policy.SuggestRequest(study_descriptor=sd, count=count, checkpoint_dir=ckpt)
                    eq_rq = lambda a, b: eq_sd(a._study_descriptor, b._study_descriptor) and a.count == b.count and (a.checkpoint_dir or None) == (b.checkpoint_dir or None)
                    if count > 0:
                        pair('SuggestRequest', d2 + ' count=%d' % count, rq, pc.SuggestConverter.to_request_proto, pc.SuggestConverter.from_request_proto, eq_rq)
                for ids in (None, [], [1, 5]):
                    er = policy.EarlyStopRequest(study_descriptor=sd, trial_ids=ids, checkpoint_dir='c' if ids else None)
                    eq_er = lambda a, b: eq_sd(a._study_descriptor, b._study_descriptor) and (a.trial_ids or frozenset()) == (b.trial_ids or frozenset()) and (a.checkpoint_dir or None) == (b.checkpoint_dir or None)
                    pair('EarlyStopRequest', d2 + ' ids=%r' % (ids,), er, pc.EarlyStopConverter.to_request_proto, pc.EarlyStopConverter.from_request_proto, eq_er)
                for algo, noise, stop in (('RANDOM_SEARCH', sc.ObservationNoise.HIGH, None), ('', sc.ObservationNoise.OBSERVATION_NOISE_UNSPECIFIED, True),
                                          ('my_algo', sc.ObservationNoise.LOW, True)):
                    kw = {}
                    if stop:
                        kw['automated_stopping_config'] = automated_stopping.AutomatedStoppingConfig.default_stopping_spec()
                    cfg = sc.StudyConfig(search_space=sp, metric_information=ms, metadata=md, algorithm=algo, observation_noise=noise, **kw)
                    eq_cfg = lambda a, b: (_eq_problem(a, b) and a.algorithm == b.algorithm and a.observation_noise == b.observation_noise
                                           and (a.automated_stopping_config is None) == (b.automated_stopping_config is None)
                                           and a.pythia_endpoint == b.pythia_endpoint)
                    pair('StudyConfig', d2 + ' algo=%r' % algo, cfg, lambda c: c.to_proto(), sc.StudyConfig.from_proto, eq_cfg)
    # suggest decisions: suggestions + metadata delta
    for ents in _md_family()[:12:3]:
        for params in ({}, {'a': 1.5, 'b': 'x', 'c': True, '': 0}):
            sg = trial_lib.TrialSuggestion(parameters=params, metadata=_md_build(ents))
            for k in (0, 1, 2):
                dl = trial_lib.MetadataDelta(on_study=_md_build(ents))
                if k:
                    dl.on_trials[k].abs_ns(common.Namespace(('n',)))['key'] = 'v'
                dec_ = policy.SuggestDecision(suggestions=[sg] * k, metadata=dl)
                eq_dec = lambda a, b: (len(a.suggestions) == len(b.suggestions)
                                       and all(x.parameters == y.parameters and _md_items(x.metadata) == _md_items(y.metadata) for x, y in zip(a.suggestions, b.suggestions))
                                       and _md_items(a.metadata.on_study) == _md_items(b.metadata.on_study)
                                       and {t: _md_items(m) for t, m in a.metadata.on_trials.items() if _md_items(m)} == {t: _md_items(m) for t, m in b.metadata.on_trials.items() if _md_items(m)})
                pair('SuggestDecision', 'k=%d params=%r' % (k, params), dec_, pc.SuggestConverter.to_decision_proto, pc.SuggestConverter.from_decision_proto, eq_dec)
    return n, bad


def study_pb2_spec(space):
    from vizier._src.service import study_pb2
    return study_pb2.StudySpec(parameters=pc.SearchSpaceConverter.parameter_protos(space))


# ---------------------------------------------------------------------------------------- bounded stand-in: IEEE time split
def standin_times():
    """the seconds/nanos split `int(x)`, `int(1e9 * (x - int(x)))` in IEEE double arithmetic (the proofs treat it as real
    arithmetic): Measurement.elapsed_secs -> Duration and Trial creation/completion time -> Timestamp -> datetime"""
    import random
    rnd = random.Random(9)
    bad, n = [], 0

    def record(clause, desc, detail):
        if len(bad) < 12:
            bad.append({'clause': clause, 'input': desc, 'detail': detail})
    fracs = [0.0, 1e-6, 2e-6, 0.1, 0.25, 0.3, 0.5, 0.999999, 0.999998, 0.000001, 0.123456, 0.654321, 0.7, 0.9]
    wholes = [0, 1, 59, 3600, 86399, 10 ** 6, 2 ** 31 - 1, 2 ** 32 + 5]
    xs = [w + f for w in wholes for f in fracs] + [rnd.randrange(0, 2 ** 32) + rnd.randrange(0, 10 ** 6) / 1e6 for _ in range(1500)]
    for x in xs:
        n += 1
        p = pc.MeasurementConverter.to_proto(trial_lib.Measurement(elapsed_secs=x))
        back = p.elapsed_duration.seconds + p.elapsed_duration.nanos / 1e9
        if not abs(back - x) < 1e-6 or not (0 <= p.elapsed_duration.nanos < 10 ** 9):
            record('C09.Measurement.ieee.elapsed_duration', repr(x), 'seconds=%d nanos=%d' % (p.elapsed_duration.seconds, p.elapsed_duration.nanos))
    for x in xs:
        if x > 4 * 10 ** 9:
            continue
        n += 1
        t0 = datetime.datetime.fromtimestamp(x).astimezone()
        t = trial_lib.Trial(id=1, description='d', creation_time=t0, completion_time=t0, final_measurement=trial_lib.Measurement())
        p = pc.TrialConverter.to_proto(t)
        y = pc.TrialConverter.from_proto(p)
        for nm in ('creation_time', 'completion_time'):
            d = abs(getattr(y, nm).timestamp() - getattr(t, nm).timestamp())
            if not d < 1e-6:
                record('C09.Trial.ieee.%s' % nm, repr(x), 'off by %r s' % d)
        p2 = pc.TrialConverter.to_proto(y)
        for nm in ('start_time', 'end_time'):
            a, b = getattr(p, nm), getattr(p2, nm)
            if abs((a.seconds + a.nanos / 1e9) - (b.seconds + b.nanos / 1e9)) >= 1e-6:
                record('C09.Trial.ieee.idempotent.%s' % nm, repr(x), '%r vs %r' % ((a.seconds, a.nanos), (b.seconds, b.nanos)))
    return n, bad


def main(argv):
    if argv and argv[0] == 'findings':
        ok = True
        for name, job in load_findings().items():
            try:
                res, rep = run_job(job)
            except Exception as e:  # noqa: BLE001
                res, rep = {'error': repr(e)}, False
            print(json.dumps({'finding': name, 'reproduced': bool(rep), 'result': res}, default=repr)[:1500])
            ok = ok and rep
        print('REPRODUCED' if ok else 'NOT-REPRODUCED')
        return 0
    if argv and argv[0] == 'standin_metadata':
        n, bad = standin_metadata()
        print(json.dumps({'cases': n, 'counterexamples': bad}, default=repr))
        print('REPRODUCED' if bad else 'NOT-REPRODUCED')
        return 0
    if argv and argv[0] == 'standin_times':
        n, bad = standin_times()
        print(json.dumps({'cases': n, 'counterexamples': bad}, default=repr))
        print('REPRODUCED' if bad else 'NOT-REPRODUCED')
        return 0
    if argv and argv[0] == 'standin_configs':
        n, bad = standin_configs()
        print(json.dumps({'cases': n, 'counterexamples': bad}, default=repr))
        print('REPRODUCED' if bad else 'NOT-REPRODUCED')
        return 0
    if argv and argv[0] == '--json':
        job = json.loads(argv[1])
    else:
        job = json.load(open(argv[0]))
    job = job.get('job', job)
    res, rep = run_job(job)
    print(json.dumps(res, default=repr))
    print('REPRODUCED' if rep else 'NOT-REPRODUCED')
    return 0


if __name__ == '__main__':
    sys.exit(main(sys.argv[1:]))
