"""C09 replay driver: runs concrete values through the REAL converters (under /venv/bin/python).

usage: c09_replay.py <job.json> | --json '<job>' | findings
A job is {"kind": <converter>, "x": <encoded value>, "clause": "roundtrip.<field>" | "idempotent.<field>" | ...};
the driver prints one JSON line (what happened + the natively evaluated clauses of the property) and then
REPRODUCED / NOT-REPRODUCED (REPRODUCED = the real code violates the named clause on this input).

The oracle below is an independent plain-Python statement of the property: equality is the attrs-generated `__eq__`
(field list and eq flags read from the *runtime* attrs metadata), minus the fields documented as not transmitted,
numbers compared by value, NaN equal to NaN, times to the microsecond.
"""
import datetime
import json
import math
import os
import sys

sys.path.insert(0, os.path.dirname(os.path.abspath(__file__)))
import env  # noqa: E402,F401
import attr  # noqa: E402
from vizier._src.pyvizier.oss import proto_converters as pc  # noqa: E402
from vizier._src.pyvizier.shared import trial as trial_lib  # noqa: E402
from vizier._src.pyvizier.shared import parameter_config as pcl  # noqa: E402
from vizier._src.pyvizier.shared import base_study_config as bsc  # noqa: E402
from vizier._src.pyvizier.shared import common  # noqa: E402

EXCLUDED = {('Metric', 'std'), ('Measurement', 'checkpoint_path'), ('Trial', 'related_links')}
TEXT_ONLY = {('Trial', 'stopping_reason')}        # transmitted as present/absent only (the text is documented as lost)
MICRO = {('Measurement', 'elapsed_secs')}


# ---------------------------------------------------------------------------------------- scalars
def dec(tv):
    if tv is None:
        return None
    t, v = tv['t'], tv['v']
    if t == 'none':
        return None
    if t == 'bool':
        return bool(v)
    if t == 'int':
        return int(v)
    if t == 'float':
        return float(v)
    return str(v)


def enc(v):
    if v is None:
        return {'t': 'none', 'v': None}
    if isinstance(v, bool):
        return {'t': 'bool', 'v': v}
    if isinstance(v, int):
        return {'t': 'int', 'v': v}
    if isinstance(v, float):
        return {'t': 'float', 'v': repr(v)}
    return {'t': 'str', 'v': str(v)}


def fl(s):
    return None if s is None else float(s)


# ---------------------------------------------------------------------------------------- the oracle
def same(a, b, path=''):
    """list of (path, equal?) leaves of the structural comparison a == b as the property means it."""
    if isinstance(a, float) or isinstance(b, float):
        if isinstance(a, (bool, int, float)) and isinstance(b, (bool, int, float)):
            if isinstance(a, float) and isinstance(b, float) and math.isnan(a) and math.isnan(b):
                return [(path, True)]
            return [(path, a == b)]
        return [(path, False)]
    if attr.has(type(a)) and type(a) is type(b):
        out = []
        cn = type(a).__name__
        for f in attr.fields(type(a)):
            nm = f.name.lstrip('_')
            if f.eq is False or (cn, nm) in EXCLUDED:
                continue
            x, y = getattr(a, f.name), getattr(b, f.name)
            p = (path + '.' if path else '') + nm
            if (cn, nm) in TEXT_ONLY:
                out.append((p, (x is None) == (y is None)))
            elif (cn, nm) in MICRO:
                out.append((p, abs(x - y) < 1e-6))
            elif f.eq_key is not None:
                out += same(f.eq_key(x), f.eq_key(y), p)
            else:
                out += same(x, y, p)
        return out
    if isinstance(a, datetime.datetime) and isinstance(b, datetime.datetime):
        return [(path, abs(a.timestamp() - b.timestamp()) < 1e-6)]
    if hasattr(a, 'items') and hasattr(b, 'items') and not attr.has(type(a)):
        da, db = dict(a.items()), dict(b.items())
        if set(da) != set(db):
            return [(path, False)]
        out = [(path, True)]
        for k in da:
            out += same(da[k], db[k], path)
        return out
    if isinstance(a, (list, tuple)) and isinstance(b, (list, tuple)):
        if len(a) != len(b) or isinstance(a, tuple) != isinstance(b, tuple):
            return [(path, False)]
        out = [(path, True)]
        for x, y in zip(a, b):
            out += same(x, y, path)
        return out
    try:
        return [(path, bool(a == b))]
    except Exception:
        return [(path, False)]


def clauses_of(x, y):
    out = {}
    for p, ok in same(x, y):
        top = p.split('.')[0] if p else 'value'
        out[top] = out.get(top, True) and ok
    return out


def proto_clauses(p, p2):
    out = {}
    for fd in p.DESCRIPTOR.fields:
        a, b = getattr(p, fd.name), getattr(p2, fd.name)
        ok = (a == b)
        repeated = getattr(fd, 'is_repeated', None)
        if repeated is None:
            repeated = fd.label == fd.LABEL_REPEATED
        if not repeated and fd.message_type is not None:
            ok = ok and (p.HasField(fd.name) == p2.HasField(fd.name))
        out[fd.name] = bool(ok)
    for od in p.DESCRIPTOR.oneofs:
        out[od.name] = p.WhichOneof(od.name) == p2.WhichOneof(od.name)
    return out


# ---------------------------------------------------------------------------------------- builders (JSON -> real objects)
def build_measurement(d):
    metrics = {}
    for k, v, std in d.get('metrics', []):
        metrics[k] = trial_lib.Metric(value=float(v), std=fl(std))
    return trial_lib.Measurement(metrics=metrics, elapsed_secs=float(d.get('elapsed_secs', '0.0')), steps=int(d.get('steps', 0)),
                                 checkpoint_path=d.get('checkpoint_path', ''))


def build(kind, x):
    if kind == 'ParameterValue':
        return trial_lib.ParameterValue(dec(x['value']))
    if kind == 'Measurement':
        return build_measurement(x)
    b = BUILDERS.get(kind)
    if b is None:
        raise KeyError('unknown kind %s' % kind)
    return b(x)


def build_dt(v):
    return None if v is None else datetime.datetime.fromtimestamp(float(v)).astimezone()


def build_trial(d):
    params = {k: dec(v) for k, v in d.get('parameters', [])}
    kw = {}
    if 'creation_time' in d:
        kw['creation_time'] = build_dt(d['creation_time'])
    t = trial_lib.Trial(
        parameters=params, id=int(d.get('id', 0)), is_requested=bool(d.get('is_requested', False)),
        assigned_worker=d.get('assigned_worker'), stopping_reason=d.get('stopping_reason'),
        infeasibility_reason=d.get('infeasibility_reason'), description=d.get('description'),
        final_measurement=None if d.get('final_measurement') is None else build_measurement(d['final_measurement']),
        measurements=[build_measurement(x) for x in d.get('measurements', [])],
        completion_time=build_dt(d.get('completion_time')), **kw)
    for ns, k, v in d.get('metadata', []):
        t.metadata.abs_ns(common.Namespace(tuple(ns)))[k] = v
    return t


def build_metric_information(d):
    kw = {}
    for k in ('safety_threshold', 'safety_std_threshold', 'desired_min_safe_trials_fraction', 'min_value', 'max_value'):
        if d.get(k) is not None:
            kw[k] = float(d[k])
    return bsc.MetricInformation(name=d.get('name', ''), goal=bsc.ObjectiveMetricGoal[d.get('goal', 'MAXIMIZE')], **kw)


def build_pc(d):
    kw = {}
    if d.get('feasible_values') is not None:
        kw['feasible_values'] = [dec(v) for v in d['feasible_values']]
    elif d.get('bounds') is not None:
        kw['bounds'] = (dec(d['bounds'][0]), dec(d['bounds'][1]))
    if d.get('scale_type'):
        kw['scale_type'] = pcl.ScaleType[d['scale_type']]
    if d.get('default_value') is not None:
        kw['default_value'] = dec(d['default_value'])
    if d.get('external_type'):
        kw['external_type'] = pcl.ExternalType[d['external_type']]
    if d.get('children'):
        kw['children'] = [([dec(v) for v in vals], build_pc(c)) for vals, c in d['children']]
    return pcl.ParameterConfig.factory(d.get('name', 'p'), **kw)


BUILDERS = {'Trial': build_trial, 'MetricInformation': build_metric_information, 'ParameterConfig': build_pc,
            'ConditionalParameterConfig': build_pc}


def converters(kind, x):
    """(to_proto, from_proto) callables of the pair."""
    if kind == 'ParameterValue':
        nm = x.get('name', 'p')
        return (lambda o: pc.ParameterValueConverter.to_proto(o, nm)), pc.ParameterValueConverter.from_proto
    if kind == 'Measurement':
        return pc.MeasurementConverter.to_proto, pc.MeasurementConverter.from_proto
    c = CONVERTERS.get(kind)
    if c is None:
        raise KeyError('unknown kind %s' % kind)
    return c(x)


CONVERTERS = {'Trial': lambda x: (pc.TrialConverter.to_proto, pc.TrialConverter.from_proto),
              'MetricInformation': lambda x: (pc.MetricInformationConverter.to_proto, pc.MetricInformationConverter.from_proto),
              'ParameterConfig': lambda x: (pc.ParameterConfigConverter.to_proto, pc.ParameterConfigConverter.from_proto),
              'ConditionalParameterConfig': lambda x: (pc.ParameterConfigConverter.to_proto, pc.ParameterConfigConverter.from_proto)}


def run_job(job):
    kind, clause = job['kind'], job.get('clause', '')
    res = {'kind': kind, 'clause': clause}
    try:
        x = build(kind, job['x'])
    except Exception as e:  # the input itself is rejected by the real constructors: not a witness
        res['build_error'] = repr(e)
        return res, False
    res['x'] = repr(x)[:600]
    to_p, from_p = converters(kind, job['x'])
    try:
        p = to_p(x)
        y = from_p(p)
        p2 = to_p(y)
    except Exception as e:
        res['exception'] = repr(e)[:400]
        return res, clause.endswith('no_exception') or clause.startswith('roundtrip') or clause.startswith('idempotent')
    res['y'] = repr(y)[:600]
    rt = clauses_of(x, y)
    idem = proto_clauses(p, p2)
    res['roundtrip'] = rt
    res['idempotent'] = idem
    part, _, field = clause.partition('.')
    if field == 'no_exception':
        return res, False           # no exception occurred
    table = rt if part == 'roundtrip' else idem
    if field in table:
        return res, not table[field]
    # a clause the native oracle does not know by that name: any failed clause of the same part counts
    return res, not all(table.values())


# ---------------------------------------------------------------------------------------- recorded findings (witnesses)
FINDINGS = {
    'nanos_dropped': {'kind': 'Measurement', 'clause': 'roundtrip.elapsed_secs',
                      'x': {'metrics': [['a', '1.0', None]], 'elapsed_secs': '1.5', 'steps': 3}},
}


def main(argv):
    if argv and argv[0] == 'findings':
        ok = True
        for name, job in FINDINGS.items():
            res, rep = run_job(job)
            print(json.dumps({'finding': name, 'reproduced': rep, 'result': res}, default=repr))
            ok = ok and rep
        print('REPRODUCED' if ok else 'NOT-REPRODUCED')
        return 0
    if argv and argv[0] == '--json':
        job = json.loads(argv[1])
    else:
        job = json.load(open(argv[0]))
    job = job.get('job', job)
    res, rep = run_job(job)
    print(json.dumps(res, default=repr))
    print('REPRODUCED' if rep else 'NOT-REPRODUCED')
    return 0


if __name__ == '__main__':
    sys.exit(main(sys.argv[1:]))
