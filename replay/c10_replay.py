"""C10 replay drivers: run the REAL vizier code (from $VERIF_REPO) under /venv/bin/python.

usage: c10_replay.py <command>      (JSON payload on stdin where needed; the last stdout line is a JSON object)

  merge            payload {which: study|trial, md0: [[ns,key,value],..], updates: [[trial_id|null,ns,key,value],..], trial_id}
                   runs merge_study_metadata / merge_trial_metadata and evaluates every C10.merge_* clause natively
  ram_partial      finding 7a: RAM update_metadata merges study metadata, then meets a missing trial (raw KeyError)
  servicer_join    finding 7b: VizierServicer.UpdateMetadata on a missing trial: ';'.join(e.args) TypeError, partial update
  trial_id_zero    finding 7c: trial_id '0' -> ValueError escapes update_metadata / UpdateMetadata after the study merge
  update_metadata  payload {delta: [[trial_id|null,ns,key,value],..], trials: n}: UpdateMetadata through the real servicer (RAM),
                   checks ok => D' = D (+) delta, error => D' = D
  namespace        bounded stand-in: exhaustive Namespace.encode/_parse inverse + injectivity over a small alphabet
  metadata_core    native cross-check of the Metadata store contracts on sampled namespaces
"""
import itertools
import json
import sys

sys.path.insert(0, '/verif/replay')
import env  # noqa: E402,F401


def out(d):
    print(json.dumps(d, default=str))


def kv(ns, key, value):
    from vizier._src.service import key_value_pb2
    return key_value_pb2.KeyValue(ns=ns, key=key, value=value)


def view(kvs):
    d = {}
    for m in kvs:
        d[(m.ns, m.key)] = m.SerializeToString(deterministic=True)
    return d


def cmd_merge_batch(p):
    """engine cross-check: run many merge payloads, print the list of results."""
    global out
    res = []
    real_out = out
    out = lambda d: res.append(d)
    try:
        for q in p['batch']:
            try:
                cmd_merge(q)
            except BaseException as e:  # noqa
                res.append({'exception': type(e).__name__})
    finally:
        out = real_out
    out({'results': res})


def cmd_merge_native(p):
    """bounded stand-in on the REAL merge functions: exhaustive small scope with namespaces/keys that contain ':' (and empty ones):
    |existing| <= 1, |updates| <= 2 over 4 namespaces x 4 keys; every C10.merge_* clause evaluated natively."""
    global out
    nss = p.get('namespaces', ['', ':a', 'a', ':a:b'])
    keys = p.get('keys', ['k', 'a:k', 'b:k', ''])
    entries = [(n, k) for n in nss for k in keys]
    failures = {'study': {}, 'trial': {}}
    runs = 0
    real_out = out
    got = []
    out = lambda d: got.append(d)
    try:
        for which in ('study', 'trial'):
            for old in [None] + entries:
                md0 = [[old[0], old[1], 'old']] if old is not None else []
                for e1 in entries:
                    for e2 in [None] + entries:
                        ups = [['7' if which == 'trial' else None, e1[0], e1[1], 'u1']]
                        if e2 is not None:
                            ups.append(['7' if which == 'trial' else None, e2[0], e2[1], 'u2'])
                        q = {'which': which, 'md0': md0, 'updates': ups, 'trial_id': '7'}
                        del got[:]
                        try:
                            cmd_merge(q)
                            cl = got[0]['clauses']
                        except BaseException as e:  # noqa
                            cl = {'no_raise': False, 'exception': type(e).__name__}
                        runs += 1
                        for c in ('sorted_unique', 'last_writer_wins', 'wrong_trial_ignored', 'frame', 'no_raise'):
                            if cl.get(c) is False and c not in failures[which]:
                                failures[which][c] = {'inputs': q, 'native': cl}
    finally:
        out = real_out
    out({'runs': runs, 'failures': failures, 'reproduced': any(failures[w] for w in failures)})


def cmd_merge(p):
    from vizier._src.pyvizier.oss import metadata_util
    from vizier._src.service import study_pb2, vizier_service_pb2
    md0 = [kv(*x) for x in p['md0']]
    res = {}
    if p['which'] == 'study':
        c = study_pb2.StudySpec(algorithm='X', metadata=md0)
        c.observation_noise = 1
        ups = [kv(*x[1:]) for x in p['updates']]
        sel = [True] * len(ups)
        data = ups
        before = study_pb2.StudySpec()
        before.CopyFrom(c)
        ups_before = [u.SerializeToString(deterministic=True) for u in ups]
        metadata_util.merge_study_metadata(c, ups)
    else:
        c = study_pb2.Trial(id=p['trial_id'], name='owners/o/studies/s/trials/' + p['trial_id'], state=study_pb2.Trial.ACTIVE,
                            client_id='w', metadata=md0)
        ups = [vizier_service_pb2.UnitMetadataUpdate(trial_id=x[0], metadatum=kv(*x[1:])) if x[0] is not None
               else vizier_service_pb2.UnitMetadataUpdate(metadatum=kv(*x[1:])) for x in p['updates']]
        sel = [u.trial_id == c.id for u in ups]
        data = [u.metadatum for u in ups]
        before = study_pb2.Trial()
        before.CopyFrom(c)
        ups_before = [u.SerializeToString(deterministic=True) for u in ups]
        metadata_util.merge_trial_metadata(c, ups)
    result = list(c.metadata)
    keys = [(m.ns, m.key) for m in result]
    res['sorted_unique'] = all(keys[i] < keys[i + 1] for i in range(len(keys) - 1))
    expected = view(md0)
    for s, d in zip(sel, data):
        if s:
            expected[(d.ns, d.key)] = d.SerializeToString(deterministic=True)
    got = view(result)
    res['last_writer_wins'] = (got == expected and len(result) == len(expected))
    allowed = {m.SerializeToString(deterministic=True) for m in md0} | {d.SerializeToString(deterministic=True) for s, d in zip(sel, data) if s}
    res['wrong_trial_ignored'] = all(m.SerializeToString(deterministic=True) in allowed for m in result)
    a, b = type(c)(), type(c)()
    a.CopyFrom(before)
    b.CopyFrom(c)
    a.ClearField('metadata')
    b.ClearField('metadata')
    res['frame'] = (a == b) and ups_before == [u.SerializeToString(deterministic=True) for u in ups]
    res['result'] = [[m.ns, m.key, m.value] for m in result]
    out({'clauses': res})


def _servicer_with_study(ntrials=1):
    from vizier._src.service import study_pb2, vizier_service_pb2
    svc = env.new_servicer(None)
    spec = study_pb2.StudySpec(algorithm='RANDOM_SEARCH')
    spec.parameters.add(parameter_id='x', double_value_spec=study_pb2.StudySpec.ParameterSpec.DoubleValueSpec(min_value=0, max_value=1))
    spec.metrics.add(metric_id='m', goal=study_pb2.StudySpec.MetricSpec.MAXIMIZE)
    st = svc.CreateStudy(vizier_service_pb2.CreateStudyRequest(parent='owners/o', study=study_pb2.Study(display_name='s', study_spec=spec)))
    for _ in range(ntrials):
        svc.CreateTrial(vizier_service_pb2.CreateTrialRequest(parent=st.name, trial=study_pb2.Trial()))
    return svc, st.name


def _snapshot(svc, name):
    from vizier._src.service import vizier_service_pb2
    st = svc.GetStudy(vizier_service_pb2.GetStudyRequest(name=name))
    trials = svc.ListTrials(vizier_service_pb2.ListTrialsRequest(parent=name)).trials
    return (st.SerializeToString(deterministic=True), [t.SerializeToString(deterministic=True) for t in trials])


def _md(svc, name):
    from vizier._src.service import vizier_service_pb2
    st = svc.GetStudy(vizier_service_pb2.GetStudyRequest(name=name))
    trials = svc.ListTrials(vizier_service_pb2.ListTrialsRequest(parent=name)).trials
    return ([[m.ns, m.key, m.value] for m in st.study_spec.metadata], {t.id: [[m.ns, m.key, m.value] for m in t.metadata] for t in trials})


def cmd_ram_partial(p):
    from vizier._src.service import vizier_service_pb2
    svc, name = _servicer_with_study(1)
    before = _snapshot(svc, name)
    U = vizier_service_pb2.UnitMetadataUpdate
    exc = None
    try:
        svc.datastore.update_metadata(name, [kv('', 'a', '1')], [U(trial_id='1', metadatum=kv('', 'x', '1')), U(trial_id='99', metadatum=kv('', 'y', '2'))])
    except BaseException as e:  # noqa
        exc = e
    after = _snapshot(svc, name)
    r = {'exception': type(exc).__name__ if exc is not None else None, 'args': [repr(a) for a in getattr(exc, 'args', ())],
         'is_not_found_error': type(exc).__name__ == 'NotFoundError', 'changed': before != after, 'metadata_after': _md(svc, name)}
    r['reproduced'] = exc is not None and r['changed']
    out(r)


def cmd_servicer_join(p):
    from vizier._src.service import vizier_service_pb2
    svc, name = _servicer_with_study(1)
    before = _snapshot(svc, name)
    U = vizier_service_pb2.UnitMetadataUpdate
    req = vizier_service_pb2.UpdateMetadataRequest(name=name, delta=[U(metadatum=kv('', 'a', '1')), U(trial_id='99', metadatum=kv('', 'y', '2'))])
    exc, resp = None, None
    try:
        resp = svc.UpdateMetadata(req)
    except BaseException as e:  # noqa
        exc = e
    after = _snapshot(svc, name)
    r = {'exception': type(exc).__name__ if exc is not None else None, 'message': str(exc) if exc is not None else None,
         'error_details': resp.error_details if resp is not None else None, 'changed': before != after, 'metadata_after': _md(svc, name)}
    r['reproduced'] = type(exc).__name__ == 'TypeError'
    r['partial_update'] = r['changed']
    out(r)


def cmd_trial_id_zero(p):
    from vizier._src.service import vizier_service_pb2
    svc, name = _servicer_with_study(1)
    before = _snapshot(svc, name)
    U = vizier_service_pb2.UnitMetadataUpdate
    req = vizier_service_pb2.UpdateMetadataRequest(name=name, delta=[U(metadatum=kv('', 'a', '1')), U(trial_id='0', metadatum=kv('', 'y', '2'))])
    exc, resp = None, None
    try:
        resp = svc.UpdateMetadata(req)
    except BaseException as e:  # noqa
        exc = e
    after = _snapshot(svc, name)
    r = {'exception': type(exc).__name__ if exc is not None else None, 'message': str(exc) if exc is not None else None,
         'error_details': resp.error_details if resp is not None else None, 'changed': before != after}
    r['reproduced'] = type(exc).__name__ == 'ValueError'
    out(r)


def cmd_update_metadata(p):
    from vizier._src.service import vizier_service_pb2
    svc, name = _servicer_with_study(int(p.get('trials', 2)))
    for pre in p.get('history', []):
        svc.UpdateMetadata(_req(name, pre))
    before_md = _md(svc, name)
    before = _snapshot(svc, name)
    exc, resp = None, None
    try:
        resp = svc.UpdateMetadata(_req(name, p['delta']))
    except BaseException as e:  # noqa
        exc = e
    after_md = _md(svc, name)
    after = _snapshot(svc, name)
    # reference: last writer wins per (ns,key), sorted
    exp_study = {(a, b): c for a, b, c in before_md[0]}
    exp_trials = {tid: {(a, b): c for a, b, c in l} for tid, l in before_md[1].items()}
    missing = False
    for tid, ns, key, value in p['delta']:
        if tid is None:
            exp_study[(ns, key)] = value
        elif tid in exp_trials:
            exp_trials[tid][(ns, key)] = value
        else:
            missing = True
    flat = lambda d: [[a, b, c] for (a, b), c in sorted(d.items())]
    ok = exc is None and resp is not None and resp.error_details == ''
    r = {'exception': type(exc).__name__ if exc is not None else None, 'error_details': resp.error_details if resp is not None else None,
         'missing_trial': missing, 'changed': before != after}
    r['ok_effect'] = (not ok) or (after_md[0] == flat(exp_study) and all(after_md[1][t] == flat(exp_trials[t]) for t in exp_trials))
    r['error_reported_and_unchanged'] = (not missing) or (exc is None and resp is not None and resp.error_details != '' and before == after)
    r['ok_implies_no_missing'] = (not ok) or (not missing)
    out(r)


def _req(name, delta):
    from vizier._src.service import vizier_service_pb2
    U = vizier_service_pb2.UnitMetadataUpdate
    return vizier_service_pb2.UpdateMetadataRequest(name=name, delta=[
        U(metadatum=kv(ns, key, value)) if tid is None else U(trial_id=tid, metadatum=kv(ns, key, value)) for tid, ns, key, value in delta])


def cmd_namespace(p):
    """exhaustive: all tuples of <= max_comp components, each of length <= max_len over the alphabet {':', '\\', 'a'} (and '')."""
    from vizier._src.pyvizier.shared import common
    alphabet = p.get('alphabet', [':', '\\', 'a'])
    max_len, max_comp = int(p.get('max_len', 4)), int(p.get('max_comp', 3))
    comps = ['']
    for n in range(1, max_len + 1):
        comps += [''.join(t) for t in itertools.product(alphabet, repeat=n)]
    total = 0
    bad_inverse, bad_inverse_outside = 0, []
    enc = {}
    collisions, collisions_outside = 0, []
    first_inverse, first_collision = None, None
    ends_bs = lambda t: any(c.endswith('\\') for c in t)
    for k in range(0, max_comp + 1):
        for t in itertools.product(comps, repeat=k):
            total += 1
            ns = common.Namespace(t)
            e = ns.encode()
            back = tuple(common.Namespace.decode(e))
            if back != t:
                bad_inverse += 1
                if first_inverse is None:
                    first_inverse = [list(t), e, list(back)]
                if not ends_bs(t) and len(bad_inverse_outside) < 5:
                    bad_inverse_outside.append([list(t), e, list(back)])
            if e in enc:
                collisions += 1
                o = enc[e]
                if first_collision is None:
                    first_collision = [list(o), list(t), e]
                if not ends_bs(t) and not ends_bs(o) and len(collisions_outside) < 5:
                    collisions_outside.append([list(o), list(t), e])
            else:
                enc[e] = t
    w1, w2 = common.Namespace(('a\\', 'b')), common.Namespace(('a:b',))
    out({'tuples': total, 'components': len(comps), 'inverse_failures': bad_inverse, 'collisions': collisions,
         'inverse_failures_outside_class': bad_inverse_outside, 'collisions_outside_class': collisions_outside,
         'first_inverse_failure': first_inverse, 'first_collision': first_collision,
         'witness_collides': w1.encode() == w2.encode() and w1 != w2, 'witness_encoding': w1.encode(),
         'witness_decode': list(common.Namespace.decode(w1.encode()))})


def cmd_metadata_core(p):
    """native cross-check of the Metadata store contracts proved in C10 (sampled namespaces incl. empty components)."""
    from vizier._src.pyvizier.shared import common
    comps = ['', 'a', 'b', ':', 'a:b']
    nss = [()] + [(c,) for c in comps] + [(c, d) for c in comps for d in comps]
    bad = []
    for n1 in nss:
        for n2 in nss:
            md = common.Metadata()
            md.abs_ns(n1)['k'] = 'v1'
            got = md.abs_ns(n2).get('k')
            if (got == 'v1') != (n1 == n2):
                bad.append(['setitem_getitem', list(n1), list(n2), got])
            md.abs_ns(n2)['k'] = 'v2'
            items = sorted((tuple(ns), k, v) for ns, k, v in md.all_items())
            want = sorted({(n1, 'k', 'v1' if n1 != n2 else 'v2'), (n2, 'k', 'v2')})
            if items != want:
                bad.append(['all_items', list(n1), list(n2), items])
    # ns() == abs_ns(current + (c,)) ; attach copies the subtree below other's current namespace under self's current namespace
    md = common.Metadata()
    md.ns('x').ns('y')['k'] = 'v'
    if md.abs_ns(('x', 'y')).get('k') != 'v' or md.ns('x').ns('y').current_ns() != common.Namespace(('x', 'y')):
        bad.append(['ns'])
    other = common.Metadata()
    other.abs_ns(('p', 'q'))['k'] = 'w'
    other.abs_ns(('z',))['k'] = 'outside'
    tgt = common.Metadata()
    tgt['user'] = 'u'
    tgt.ns('root').attach(other.ns('p'))
    items = sorted((tuple(ns), k, v) for ns, k, v in tgt.all_items())
    if items != [((), 'user', 'u'), (('root', 'q'), 'k', 'w')]:
        bad.append(['attach', items])
    out({'checked': len(nss) ** 2, 'failures': bad[:10], 'ok': not bad})


def cmd_policy_ns(p):
    """run the real PartiallySerializableDesignerPolicy.suggest with a tiny designer and list the namespaces it writes."""
    from vizier import pyvizier as vz
    from vizier._src.algorithms.core import abstractions as vza
    from vizier._src.algorithms.policies import designer_policy as dp
    from vizier._src.pythia import local_policy_supporters as lps
    from vizier import pythia

    class D(vza.PartiallySerializableDesigner):
        def __init__(self, problem, **kw):
            self.n = 0

        def update(self, completed, all_active):
            self.n += len(completed.trials)

        def suggest(self, count=None):
            return [vz.TrialSuggestion({'x': 0.5}) for _ in range(count or 1)]

        def dump(self):
            md = vz.Metadata()
            md['n'] = str(self.n)
            md.ns('deep')['k'] = 'v'
            return md

        def load(self, md):
            self.n = int(md['n'])

    problem = vz.ProblemStatement()
    problem.search_space.root.add_float_param('x', 0.0, 1.0)
    problem.metric_information.append(vz.MetricInformation(name='m', goal=vz.ObjectiveMetricGoal.MAXIMIZE))
    problem.metadata['user'] = 'u'
    sup = lps.InRamPolicySupporter(problem)
    root = 'root_ns'
    pol = dp.PartiallySerializableDesignerPolicy(problem, sup, D, ns_root=root)
    dec = pol.suggest(pythia.SuggestRequest(study_descriptor=sup.study_descriptor(), count=1))
    nss = [tuple(ns) for ns, k, v in dec.metadata.on_study.all_items()]
    outside = [list(n) for n in nss if n[:1] != (root,)]
    out({'namespaces': [list(n) for n in nss], 'outside_ns_root': outside, 'on_trials': len(dec.metadata.on_trials), 'reproduced': bool(outside) or not nss})


def cmd_inram_update_metadata(p):
    """InRamPolicySupporter._UpdateMetadata with a delta that names a missing trial: partial update + raw KeyError."""
    from vizier import pyvizier as vz
    from vizier._src.pythia import local_policy_supporters as lps
    pr = vz.ProblemStatement()
    pr.search_space.root.add_float_param('x', 0.0, 1.0)
    pr.metric_information.append(vz.MetricInformation(name='m', goal=vz.ObjectiveMetricGoal.MAXIMIZE))
    pr.metadata['user'] = 'u'
    sup = lps.InRamPolicySupporter(pr)
    sup.AddTrials([vz.Trial(parameters={'x': 0.1})])
    snap = lambda: (sorted((tuple(ns), k, v) for ns, k, v in sup.study_config.metadata.all_items()),
                    sorted((tuple(ns), k, v) for ns, k, v in sup._trials[1].metadata.all_items()))
    before = snap()
    d = vz.MetadataDelta()
    d.on_study.ns('alg')['k'] = 'v'
    d.on_trials[1].ns('alg')['a'] = '1'
    d.on_trials[99].ns('alg')['b'] = '2'
    exc = None
    try:
        sup._UpdateMetadata(d)
    except BaseException as e:  # noqa
        exc = e
    after = snap()
    d2 = vz.MetadataDelta()
    d2.on_study.ns('alg')['k2'] = 'v2'
    d2.on_trials[0].ns('alg')['b'] = '2'
    exc2 = None
    try:
        sup._UpdateMetadata(d2)
    except BaseException as e:  # noqa
        exc2 = e
    after2 = snap()
    # a delta whose Metadata objects are VIEWS positioned at a non-root namespace of a larger tree: _UpdateMetadata must apply every
    # entry of the tree at its ABSOLUTE namespace (read-back of every namespace)
    view_bad = []
    for cur in (('algo',), ('algo', 'sub'), ('other',)):
        pr2 = vz.ProblemStatement()
        pr2.search_space.root.add_float_param('x', 0.0, 1.0)
        pr2.metric_information.append(vz.MetricInformation(name='m', goal=vz.ObjectiveMetricGoal.MAXIMIZE))
        pr2.metadata['k'] = 'user'
        pr2.metadata.abs_ns(('algo',))['k'] = 'stale'
        sup2 = lps.InRamPolicySupporter(pr2)
        sup2.AddTrials([vz.Trial(parameters={'x': 0.1})])
        sup2._trials[1].metadata['k'] = 'user_t'
        tree, ttree = vz.Metadata(), vz.Metadata()
        for t_, tag in ((tree, 's'), (ttree, 't')):
            t_['rootkey'] = 'r' + tag
            t_.abs_ns(('algo',))['k'] = 'new' + tag
            t_.abs_ns(('algo', 'sub'))['deep'] = 'd' + tag
        flat = lambda md: {(tuple(ns), k): v for ns, k, v in md.all_items()}
        want_s = dict(flat(sup2.study_config.metadata))
        want_s.update(flat(tree))
        want_t = dict(flat(sup2._trials[1].metadata))
        want_t.update(flat(ttree))
        d3 = vz.MetadataDelta(on_study=tree.abs_ns(cur), on_trials={1: ttree.abs_ns(cur)})
        try:
            sup2._UpdateMetadata(d3)
            got_s, got_t = flat(sup2.study_config.metadata), flat(sup2._trials[1].metadata)
            if got_s != want_s or got_t != want_t:
                view_bad.append({'delta_view_positioned_at': list(cur), 'study_after': sorted(map(list, [(list(a), b, c) for (a, b), c in got_s.items()])),
                                 'study_expected': sorted(map(list, [(list(a), b, c) for (a, b), c in want_s.items()]))})
        except BaseException as e:  # noqa
            view_bad.append({'delta_view_positioned_at': list(cur), 'exception': type(e).__name__})
    out({'exception': type(exc).__name__ if exc is not None else None, 'args': [repr(a) for a in getattr(exc, 'args', ())],
         'view_failures': view_bad[:2], 'view_reproduced': bool(view_bad),
         'before': before, 'after': after, 'reproduced': exc is not None and before != after,
         'bad_id_exception': type(exc2).__name__ if exc2 is not None else None, 'bad_id_reproduced': exc2 is not None and after2 != after})


def cmd_sql_effect(p):
    """bounded stand-in for the SQL path of UpdateMetadata: D' = D (+) delta stated PER NAMED TRIAL (every order of naming the
    trials of a 3-trial study, 1..3 trials named, repeated ids), through the real servicer on sqlite:///:memory:."""
    import itertools
    from vizier._src.service import study_pb2, vizier_service_pb2
    failures, n = [], 0
    orders = [list(o) for k in (1, 2, 3) for o in itertools.permutations(['1', '2', '3'], k)] + [['3', '1', '3'], ['2', '2', '1']]
    for order in orders:
        svc = env.new_servicer('sqlite:///:memory:')
        spec = study_pb2.StudySpec(algorithm='RANDOM_SEARCH')
        spec.parameters.add(parameter_id='x', double_value_spec=study_pb2.StudySpec.ParameterSpec.DoubleValueSpec(min_value=0, max_value=1))
        spec.metrics.add(metric_id='m', goal=study_pb2.StudySpec.MetricSpec.MAXIMIZE)
        st = svc.CreateStudy(vizier_service_pb2.CreateStudyRequest(parent='owners/o', study=study_pb2.Study(display_name='s', study_spec=spec)))
        for _ in range(3):
            svc.CreateTrial(vizier_service_pb2.CreateTrialRequest(parent=st.name, trial=study_pb2.Trial()))
        svc.UpdateMetadata(_req(st.name, [['2', '', 'old', 'o2'], [None, '', 'user', 'u']]))
        delta = [[tid, 'ns', 'k', 'v%s_%d' % (tid, i)] for i, tid in enumerate(order)] + [[None, 'alg', 's', 'sv']]
        before = _md(svc, st.name)
        resp = svc.UpdateMetadata(_req(st.name, delta))
        after = _md(svc, st.name)
        exp_study = {(a, b): c for a, b, c in before[0]}
        exp_trials = {tid: {(a, b): c for a, b, c in l} for tid, l in before[1].items()}
        for tid, ns, key, value in delta:
            (exp_study if tid is None else exp_trials[tid])[(ns, key)] = value
        flat = lambda d: [[a, b, c] for (a, b), c in sorted(d.items())]
        n += 1
        if resp.error_details != '' or after[0] != flat(exp_study) or any(after[1][t] != flat(exp_trials[t]) for t in exp_trials):
            failures.append({'named_trials_in_order': order, 'error_details': resp.error_details,
                             'trial_metadata_after': after[1], 'expected': {t: flat(exp_trials[t]) for t in exp_trials}})
        # a missing trial: error reported, nothing stored
        b2 = _snapshot(svc, st.name)
        r2 = svc.UpdateMetadata(_req(st.name, [['1', 'ns', 'z', 'z'], ['99', 'ns', 'z', 'z'], [None, '', 'late', 'l']]))
        if r2.error_details == '' or _snapshot(svc, st.name) != b2:
            failures.append({'missing_trial_after': order, 'error_details': r2.error_details, 'changed': _snapshot(svc, st.name) != b2})
    out({'scenarios': n, 'failures': failures[:4], 'reproduced': bool(failures)})


def main():
    cmd = sys.argv[1]
    payload = {}
    if not sys.stdin.isatty():
        raw = sys.stdin.read()
        if raw.strip():
            payload = json.loads(raw)
    before = env.repo_clean_snapshot()
    globals()['cmd_' + cmd](payload)
    if env.repo_clean_snapshot() != before:
        print(json.dumps({'error': 'replay modified the repository working tree'}))
        sys.exit(3)


if __name__ == '__main__':
    main()
