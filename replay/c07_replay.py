"""C07 replay / bounded stand-in: the abstract DataStore contract (DESIGN Appendix A) evaluated at run time around the REAL
datastores of $VERIF_REPO -- NestedDictRAMDataStore, SQLDataStore on sqlite :memory:, SQLDataStore on a sqlite file under
/verif/out/c07/ -- on enumerated operation sequences; runs under /venv/bin/python.

usage: c07_replay.py explore '<json>'   {"maxlen": 3, "alphabet": "quick"|"thorough", "workers": 16, "backends": [...]}
       c07_replay.py run '<json>'       {"sequences": [[op, ...], ...], "backends": [...]}
An op is a JSON list [method, arg...] over the universe owner 'o' (and the study-less owner 'q'), studies s1 s2, trial ids
1..3, clients c1 c2 (see ALPHABET).  The last stdout line is one JSON object.

Per step the response of every backend (value or error class) is compared with the model's; after the last step the
complete contents (read back through the API) are compared with the model's state.  After every call the caller's
argument messages and the returned messages are mutated (pass-by-value probe).  A backend that diverges from the contract
is re-checked against the contract *plus its recorded deviations* (known findings): only a divergence that is not explained
by them is reported as unexplained.
"""
import collections
import itertools
import json
import multiprocessing
import os
import sys
import time

sys.path.insert(0, '/verif/replay')
import env  # noqa: E402,F401

OUT = '/verif/out/c07'
OWNER, OWNER2 = 'o', 'q'


def so(s):
    """a study token is 'study_id' (owner OWNER) or 'owner|study_id'."""
    return tuple(s.split('|', 1)) if '|' in s else (OWNER, s)


def sname(s):
    return 'owners/%s/studies/%s' % so(s)


def tname(s, t):
    return '%s/trials/%s' % (sname(s), t)


def opname(s, c, n):
    return 'owners/%s/operations/suggestion/%s/%s/%s' % (so(s) + (c, n))


def eopname(s, t):
    return 'owners/%s/operations/earlystopping/%s/%s' % (so(s) + (t,))


# ------------------------------------------------------------------------------------------ the executable contract
class Unspecified(Exception):
    """the call is outside the contract's precondition (nothing is claimed about it or about what follows)."""


class Err(Exception):
    def __init__(self, *classes):
        self.classes = classes


NOTFOUND, EXISTS, MALFORMED = ('NotFoundError',), ('AlreadyExistsError',), ('ValueError', 'NotFoundError')


class Model:
    """Appendix A over python dicts; messages are kept as deterministic serialisations (pass-by-value by construction).
    `dev` = set of recorded deviations to emulate:
       'sql_delete_keeps_ops'   finding 10: SQL delete_study keeps suggestion / early-stopping operation rows, and the SQL
                                operation queries never look at the studies table
       'ram_update_op_upserts'  RAM update_suggestion_operation / update_early_stopping_operation insert a missing operation
                                when its container (client node / study) exists"""

    def __init__(self, dev=()):
        self.dev = set(dev)
        self.owners = set()
        self.studies = collections.OrderedDict()        # s -> bytes
        self.trials = {}                                 # s -> OrderedDict id -> bytes
        self.sops = {}                                   # (s, c) -> OrderedDict n -> bytes
        self.eops = {}                                   # s -> {tid: bytes}

    # -- studies
    def create_study(self, s, blob):
        if s in self.studies:
            raise Err(*EXISTS)
        self.owners.add(so(s)[0])
        self.studies[s] = blob
        self.trials[s] = collections.OrderedDict()
        if 'sql_delete_keeps_ops' in self.dev:
            self.eops.setdefault(s, {})      # rows of an earlier incarnation of the study are still there
        else:
            self.eops[s] = {}
        return 'resource'

    def need_study(self, s):
        if s not in self.studies:
            raise Err(*NOTFOUND)

    def load_study(self, s):
        self.need_study(s)
        return self.studies[s]

    def update_study(self, s, blob):
        self.need_study(s)
        self.studies[s] = blob
        return 'resource'

    def delete_study(self, s):
        self.need_study(s)
        del self.studies[s]
        del self.trials[s]
        if 'sql_delete_keeps_ops' not in self.dev:
            self.eops.pop(s, None)
            for k in [k for k in self.sops if k[0] == s]:
                del self.sops[k]
        return None

    def list_studies(self, owner):
        if owner not in self.owners:
            raise Err(*NOTFOUND)
        return [b for s, b in self.studies.items() if so(s)[0] == owner]

    # -- trials
    def create_trial(self, s, t, blob):
        if s not in self.studies:
            raise Unspecified('create_trial requires an existing study')
        if t in self.trials[s]:
            raise Err(*EXISTS)
        self.trials[s][t] = blob
        return 'resource'

    def need_trial(self, s, t):
        if s not in self.studies or t not in self.trials[s]:
            raise Err(*NOTFOUND)

    def get_trial(self, s, t):
        self.need_trial(s, t)
        return self.trials[s][t]

    def update_trial(self, s, t, blob):
        self.need_trial(s, t)
        self.trials[s][t] = blob
        return 'resource'

    def delete_trial(self, s, t):
        self.need_trial(s, t)
        del self.trials[s][t]
        return None

    def list_trials(self, s):
        self.need_study(s)
        return list(self.trials[s].values())

    def max_trial_id(self, s):
        self.need_study(s)
        return max(list(self.trials[s]) + [0])

    # -- suggestion operations
    def study_for_ops(self, s):
        return s in self.studies or 'sql_delete_keeps_ops' in self.dev

    def create_sop(self, s, c, n, blob):
        if s not in self.studies:
            raise Unspecified('create_suggestion_operation requires an existing study')
        ops = self.sops.get((s, c), {})
        if n in ops:
            raise Err(*EXISTS)
        if n != len(ops) + 1 and 'sql_delete_keeps_ops' not in self.dev:
            raise Unspecified('operation numbers of one client are allocated 1..k without gaps (Inv4)')
        self.sops.setdefault((s, c), collections.OrderedDict())[n] = blob
        return 'resource'

    def need_sop(self, s, c, n):
        if not self.study_for_ops(s) or n not in self.sops.get((s, c), {}):
            raise Err(*NOTFOUND)

    def get_sop(self, s, c, n):
        self.need_sop(s, c, n)
        return self.sops[(s, c)][n]

    def update_sop(self, s, c, n, blob):
        if 'ram_update_op_upserts' in self.dev and s in self.studies and self.sops.get((s, c)):
            if n not in self.sops[(s, c)] and n != len(self.sops[(s, c)]) + 1:
                raise Unspecified('upsert would leave a gap in the operation numbers (Inv4)')
            self.sops[(s, c)][n] = blob
            return 'resource'
        self.need_sop(s, c, n)
        self.sops[(s, c)][n] = blob
        return 'resource'

    def need_client(self, s, c):
        if not self.study_for_ops(s) or not self.sops.get((s, c)):
            raise Err(*NOTFOUND)

    def list_sops(self, s, c, only_done=False, done_of=None):
        self.need_client(s, c)
        return [b for b in self.sops[(s, c)].values() if not only_done or done_of(b)]

    def max_sop(self, s, c):
        self.need_client(s, c)
        return max(self.sops[(s, c)])

    # -- early stopping operations
    def create_eop(self, s, t, blob):
        if s not in self.studies:
            raise Unspecified('create_early_stopping_operation requires an existing study')
        if t in self.eops.get(s, {}):
            raise Err(*EXISTS)
        self.eops.setdefault(s, {})[t] = blob
        return 'resource'

    def get_eop(self, s, t):
        if not self.study_for_ops(s) or t not in self.eops.get(s, {}):
            raise Err(*NOTFOUND)
        return self.eops[s][t]

    def update_eop(self, s, t, blob):
        if 'ram_update_op_upserts' in self.dev and s in self.studies:
            self.eops.setdefault(s, {})[t] = blob
            return 'resource'
        if not self.study_for_ops(s) or t not in self.eops.get(s, {}):
            raise Err(*NOTFOUND)
        self.eops[s][t] = blob
        return 'resource'

    # -- metadata (merge = the real merge_* functions applied to copies: they are contract functions of C10)
    def update_metadata(self, s, study_kvs, trial_updates, merge_study, merge_trial):
        self.need_study(s)
        for tid, _ in trial_updates:
            try:
                i = int(tid)
            except ValueError:
                raise Err(*NOTFOUND)
            if i <= 0 or i not in self.trials[s]:
                raise Err(*NOTFOUND)
            if str(i) != tid:
                raise Unspecified('non-canonical trial id in a metadata update')
        self.studies[s] = merge_study(self.studies[s], study_kvs)
        by_trial = collections.OrderedDict()
        for tid, kv in trial_updates:
            by_trial.setdefault(int(tid), []).append((tid, kv))
        for i, ups in by_trial.items():
            self.trials[s][i] = merge_trial(self.trials[s][i], ups)
        return None


# ------------------------------------------------------------------------------------------ real backends
def pb():
    from vizier._src.service import study_pb2, key_value_pb2, vizier_oss_pb2, vizier_service_pb2
    from google.longrunning import operations_pb2
    return study_pb2, key_value_pb2, vizier_oss_pb2, vizier_service_pb2, operations_pb2


_SQL = {}


def new_backend(kind, tag=''):
    """A fresh, empty datastore.  SQL engines are reused inside one process (tables emptied between sequences)."""
    if kind == 'ram':
        from vizier._src.service import ram_datastore
        return ram_datastore.NestedDictRAMDataStore()
    import sqlalchemy as sqla
    from vizier._src.service import sql_datastore
    if kind not in _SQL:
        if kind == 'sql_mem':
            url = 'sqlite:///:memory:'
        else:
            os.makedirs(OUT, exist_ok=True)
            path = os.path.join(OUT, 'c07_%d%s.db' % (os.getpid(), tag))
            if os.path.exists(path):
                os.remove(path)
            url = 'sqlite:///' + path
        engine = sqla.create_engine(url)
        if kind == 'sql_file':
            # speed only (no durability needed here): do not fsync on every commit
            @sqla.event.listens_for(engine, 'connect')
            def _pragma(dbapi_con, rec):   # noqa
                cur = dbapi_con.cursor()
                cur.execute('PRAGMA synchronous=OFF')
                cur.close()
        _SQL[kind] = sql_datastore.SQLDataStore(engine)
        return _SQL[kind]
    ds = _SQL[kind]
    with ds._lock:
        for tbl in reversed(ds._root_metadata.sorted_tables):
            ds._connection.execute(tbl.delete())
        ds._connection.commit()
    return ds


def cleanup_files():
    for ds in _SQL.values():
        try:
            ds._connection.close()
            ds._engine.dispose()
        except Exception:
            pass
    _SQL.clear()
    if os.path.isdir(OUT):
        for n in os.listdir(OUT):
            if n.startswith('c07_%d' % os.getpid()) and n.endswith('.db'):
                try:
                    os.remove(os.path.join(OUT, n))
                except OSError:
                    pass


def ser(m):
    return m.SerializeToString(deterministic=True).hex()


def mk_study(s, version=0):
    study_pb2 = pb()[0]
    st = study_pb2.Study(name=sname(s), display_name='%s-v%d' % (s, version))
    st.study_spec.algorithm = 'RANDOM_SEARCH'
    st.study_spec.metadata.add(key='zz', ns='', value='initial')
    return st


def mk_trial(s, t, version=0):
    study_pb2 = pb()[0]
    tr = study_pb2.Trial(name=tname(s, t), id=str(t), state=study_pb2.Trial.ACTIVE if version == 0 else study_pb2.Trial.SUCCEEDED)
    tr.client_id = 'w%d' % version
    return tr


def mk_op(s, c, n, done=False):
    operations_pb2 = pb()[4]
    return operations_pb2.Operation(name=opname(s, c, n), done=done)


def mk_eop(s, t, version=0):
    vizier_oss_pb2 = pb()[2]
    return vizier_oss_pb2.EarlyStoppingOperation(name=eopname(s, t), status=1 + version, should_stop=bool(version))


def mk_kv(key, value):
    key_value_pb2 = pb()[1]
    return key_value_pb2.KeyValue(key=key, ns='', value=value)


def mk_update(tid, key, value):
    vizier_service_pb2 = pb()[3]
    return vizier_service_pb2.UnitMetadataUpdate(trial_id=tid, metadatum=mk_kv(key, value))


def merge_study_blob(blob, kvs):
    from vizier._src.pyvizier.oss import metadata_util
    study_pb2 = pb()[0]
    st = study_pb2.Study.FromString(bytes.fromhex(blob))
    metadata_util.merge_study_metadata(st.study_spec, [mk_kv(k, v) for k, v in kvs])
    return ser(st)


def merge_trial_blob(blob, ups):
    from vizier._src.pyvizier.oss import metadata_util
    study_pb2 = pb()[0]
    tr = study_pb2.Trial.FromString(bytes.fromhex(blob))
    metadata_util.merge_trial_metadata(tr, [mk_update(tid, k, v) for tid, (k, v) in ups])
    return ser(tr)


def scribble(m):
    """mutate a message the caller owns (argument after the call / returned value): must not reach the store."""
    try:
        name = type(m).__name__
        if name == 'Study':
            m.display_name = 'SCRIBBLED'
            m.study_spec.metadata.add(key='scribble', ns='x', value='1')
        elif name == 'Trial':
            m.client_id = 'SCRIBBLED'
            m.metadata.add(key='scribble', ns='x', value='1')
        elif name == 'Operation':
            m.done = not m.done
            m.error.message = 'SCRIBBLED'
        elif name == 'EarlyStoppingOperation':
            m.failure_message = 'SCRIBBLED'
        elif name == 'KeyValue':
            m.value = 'SCRIBBLED'
        elif name == 'UnitMetadataUpdate':
            m.metadatum.value = 'SCRIBBLED'
    except Exception:
        pass


def norm(v):
    if v is None or isinstance(v, (int, str)):
        return v
    if isinstance(v, (list, tuple)):
        return [norm(x) for x in v]
    if hasattr(v, 'SerializeToString'):
        return ser(v)
    return 'resource'


def call(fn, args, probe):
    """(outcome, returned python value) ; outcome = ['ok', normalised] | ['err', class name]"""
    try:
        r = fn(*args)
    except Exception as e:     # noqa
        return ['err', type(e).__name__], None
    out = ['ok', norm(r)]
    if probe in ('both', 'result'):
        for m in (r if isinstance(r, list) else [r]):
            if hasattr(m, 'SerializeToString'):
                scribble(m)
    return out, r


# ------------------------------------------------------------------------------------------ one operation
import re  # noqa: E402

RX = {
    'load_study': r'^owners/([^/]+)/studies/([^/]+)$', 'delete_study': r'^owners/([^/]+)/studies/([^/]+)$',
    'list_trials': r'^owners/([^/]+)/studies/([^/]+)$', 'max_trial_id': r'^owners/([^/]+)/studies/([^/]+)$',
    'get_trial': r'^owners/([^/]+)/studies/([^/]+)/trials/([^/]+)$', 'delete_trial': r'^owners/([^/]+)/studies/([^/]+)/trials/([^/]+)$',
    'get_suggestion_operation': r'^owners/([^/]+)/operations/suggestion/([^/]+)/([^/]+)/([^/]+)$',
    'get_early_stopping_operation': r'^owners/([^/]+)/operations/earlystopping/([^/]+)/([^/]+)$',
    'list_studies': r'^owners/([^/]+)$',
}


def model_raw(model, method, name):
    m = re.match(RX[method], name)
    if not m:
        raise Err(*MALFORMED)
    g = m.groups()
    if method in ('get_trial', 'delete_trial', 'get_suggestion_operation', 'get_early_stopping_operation'):
        try:
            i = int(g[-1])
        except ValueError:
            raise Err(*MALFORMED)
        if str(i) != g[-1] or i < 0:
            raise Unspecified('non-canonical resource name %r (RAM resolves it through int(), SQL compares the text)' % name)
    raise Unspecified('raw names are only used for malformed / non-canonical names')


def apply_model(model, op):
    k = op[0]
    try:
        if k == 'create_study':
            return ['ok', model.create_study(op[1], ser(mk_study(op[1], op[2])))]
        if k == 'load_study':
            return ['ok', model.load_study(op[1])]
        if k == 'update_study':
            return ['ok', model.update_study(op[1], ser(mk_study(op[1], op[2])))]
        if k == 'delete_study':
            return ['ok', model.delete_study(op[1])]
        if k == 'list_studies':
            return ['ok', model.list_studies(op[1])]
        if k == 'create_trial':
            return ['ok', model.create_trial(op[1], op[2], ser(mk_trial(op[1], op[2], op[3])))]
        if k == 'get_trial':
            return ['ok', model.get_trial(op[1], op[2])]
        if k == 'update_trial':
            return ['ok', model.update_trial(op[1], op[2], ser(mk_trial(op[1], op[2], op[3])))]
        if k == 'delete_trial':
            return ['ok', model.delete_trial(op[1], op[2])]
        if k == 'list_trials':
            return ['ok', model.list_trials(op[1])]
        if k == 'max_trial_id':
            return ['ok', model.max_trial_id(op[1])]
        if k == 'create_sop_next':
            try:
                n = model.max_sop(op[1], op[2]) + 1
            except Err:
                n = 1
            model.create_sop(op[1], op[2], n, ser(mk_op(op[1], op[2], n)))
            return ['ok', 'created %d' % n]
        if k == 'create_sop':
            return ['ok', model.create_sop(op[1], op[2], op[3], ser(mk_op(op[1], op[2], op[3])))]
        if k == 'get_sop':
            return ['ok', model.get_sop(op[1], op[2], op[3])]
        if k == 'update_sop':
            return ['ok', model.update_sop(op[1], op[2], op[3], ser(mk_op(op[1], op[2], op[3], op[4])))]
        if k == 'list_sops':
            operations_pb2 = pb()[4]
            done_of = lambda b: operations_pb2.Operation.FromString(bytes.fromhex(b)).done
            return ['ok', model.list_sops(op[1], op[2], op[3], done_of)]
        if k == 'max_sop':
            return ['ok', model.max_sop(op[1], op[2])]
        if k == 'create_eop':
            return ['ok', model.create_eop(op[1], op[2], ser(mk_eop(op[1], op[2])))]
        if k == 'get_eop':
            return ['ok', model.get_eop(op[1], op[2])]
        if k == 'update_eop':
            return ['ok', model.update_eop(op[1], op[2], ser(mk_eop(op[1], op[2], op[3])))]
        if k == 'update_metadata':
            return ['ok', model.update_metadata(op[1], [tuple(x) for x in op[2]], [(x[0], (x[1], x[2])) for x in op[3]],
                                                merge_study_blob, merge_trial_blob)]
        if k == 'raw':
            return ['ok', model_raw(model, op[1], op[2])]
    except Err as e:
        return ['err', list(e.classes)]
    except Unspecified as e:
        return ['unspecified', str(e)]
    raise ValueError('unknown op %r' % (op,))


def apply_backend(ds, op, probe='both'):
    k = op[0]
    args, fn = [], None
    if k in ('create_study', 'update_study'):
        fn, args = getattr(ds, k), [mk_study(op[1], op[2])]
    elif k in ('load_study', 'delete_study', 'list_trials', 'max_trial_id'):
        fn, args = getattr(ds, k), [sname(op[1])]
    elif k == 'list_studies':
        fn, args = ds.list_studies, ['owners/' + op[1]]
    elif k in ('create_trial', 'update_trial'):
        fn, args = getattr(ds, k), [mk_trial(op[1], op[2], op[3])]
    elif k in ('get_trial', 'delete_trial'):
        fn, args = getattr(ds, k), [tname(op[1], op[2])]
    elif k == 'create_sop_next':
        try:
            n = ds.max_suggestion_operation_number(sname(op[1]), op[2]) + 1
        except KeyError:
            n = 1
        except Exception as e:   # noqa
            return ['err', type(e).__name__]
        arg = mk_op(op[1], op[2], n)
        out, _ = call(ds.create_suggestion_operation, [arg], probe)
        if probe in ('both', 'arg'):
            scribble(arg)
        return ['ok', 'created %d' % n] if out[0] == 'ok' else out
    elif k == 'create_sop':
        fn, args = ds.create_suggestion_operation, [mk_op(op[1], op[2], op[3])]
    elif k == 'get_sop':
        fn, args = ds.get_suggestion_operation, [opname(op[1], op[2], op[3])]
    elif k == 'update_sop':
        fn, args = ds.update_suggestion_operation, [mk_op(op[1], op[2], op[3], op[4])]
    elif k == 'list_sops':
        fn, args = ds.list_suggestion_operations, [sname(op[1]), op[2]] + ([lambda o: o.done] if op[3] else [])
    elif k == 'max_sop':
        fn, args = ds.max_suggestion_operation_number, [sname(op[1]), op[2]]
    elif k == 'create_eop':
        fn, args = ds.create_early_stopping_operation, [mk_eop(op[1], op[2])]
    elif k == 'get_eop':
        fn, args = ds.get_early_stopping_operation, [eopname(op[1], op[2])]
    elif k == 'update_eop':
        fn, args = ds.update_early_stopping_operation, [mk_eop(op[1], op[2], op[3])]
    elif k == 'update_metadata':
        fn, args = ds.update_metadata, [sname(op[1]), [mk_kv(a, b) for a, b in op[2]], [mk_update(*x) for x in op[3]]]
    elif k == 'raw':
        fn, args = getattr(ds, op[1]), [op[2]]
    else:
        raise ValueError('unknown op %r' % (op,))
    out, _ = call(fn, args, probe)
    if probe in ('both', 'arg'):
        for a in args:
            for m in (a if isinstance(a, list) else [a]):
                if hasattr(m, 'SerializeToString'):
                    scribble(m)
    return out


METHOD_OF = {'create_sop_next': 'create_suggestion_operation', 'create_sop': 'create_suggestion_operation', 'get_sop': 'get_suggestion_operation',
             'update_sop': 'update_suggestion_operation', 'list_sops': 'list_suggestion_operations', 'max_sop': 'max_suggestion_operation_number',
             'create_eop': 'create_early_stopping_operation', 'get_eop': 'get_early_stopping_operation', 'update_eop': 'update_early_stopping_operation'}


def method_of(op):
    return op[1] if op[0] == 'raw' else METHOD_OF.get(op[0], op[0])


STUDIES, TRIALS, CLIENTS = ['s1', 's2'], [1, 2, 3], ['c1', 'c2']


def dump_ops(studies=None, owners=None, trials=None, clients=None):
    studies, owners = studies or STUDIES, owners or [OWNER, OWNER2]
    TRIALS, CLIENTS = trials or globals()['TRIALS'], clients or globals()['CLIENTS']
    ops = [['list_studies', o] for o in owners]
    for s in studies:
        ops += [['load_study', s], ['list_trials', s], ['max_trial_id', s]]
        for c in CLIENTS:
            ops += [['list_sops', s, c, False], ['max_sop', s, c]]
        for t in TRIALS:
            ops += [['get_eop', s, t]]
    return ops


DUMP = dump_ops()
_STD = (set(STUDIES), {OWNER, OWNER2}, set(TRIALS), set(CLIENTS))


def dump_for(seq):
    """the read-back covers every study / owner / trial id / client the sequence mentions (and the standard universe)."""
    st, ow, tr, cl = set(), set(), set(), set()
    for op in seq:
        k = op[0]
        if k == 'raw':
            continue
        if k == 'list_studies':
            ow.add(op[1])
            continue
        st.add(op[1])
        ow.add(so(op[1])[0])
        if k in ('create_trial', 'get_trial', 'update_trial', 'delete_trial', 'create_eop', 'get_eop', 'update_eop'):
            tr.add(op[2])
        if k in ('create_sop_next', 'create_sop', 'get_sop', 'update_sop', 'list_sops', 'max_sop'):
            cl.add(op[2])
    if st <= _STD[0] and ow <= _STD[1] and tr <= _STD[2] and cl <= _STD[3]:
        return DUMP
    return dump_ops(STUDIES + sorted(st - _STD[0]), [OWNER, OWNER2] + sorted(ow - _STD[1]), TRIALS + sorted(tr - _STD[2]), CLIENTS + sorted(cl - _STD[3]))


def agree(model_out, real_out):
    if model_out[0] == 'unspecified':
        return True
    if model_out[0] == 'ok':
        return real_out[0] == 'ok' and real_out[1] == model_out[1]
    return real_out[0] == 'err' and real_out[1] in model_out[1]


# ------------------------------------------------------------------------------------------ one sequence
DEVIATIONS = {'ram': ['ram_update_op_upserts'], 'sql_mem': ['sql_delete_keeps_ops'], 'sql_file': ['sql_delete_keeps_ops']}


def run_model(seq, dev=()):
    """(step outcomes, dump outcomes, index of the first unspecified step or None)"""
    model = Model(dev)
    outs, stop = [], None
    for i, op in enumerate(seq):
        o = apply_model(model, op)
        outs.append(o)
        if o[0] == 'unspecified':
            stop = i
            break
    dump = [apply_model(model, op) for op in dump_for(seq)] if stop is None else None
    return outs, dump, stop


def run_backend(kind, seq, upto, probe='both', only=None):
    """Outcomes of seq[:upto], then (if the whole sequence ran) of the read-back DUMP twice: once with the pass-by-value
    probe on the returned messages, once plain.  `only` = index of the single call around which messages are scribbled."""
    ds = new_backend(kind)
    mode = lambda j: (probe if (only is None or only == j) else 'none')
    outs = [apply_backend(ds, op, mode(j)) for j, op in enumerate(seq[:upto])]
    if upto == len(seq):
        if probed_dump(seq):
            outs += [apply_backend(ds, op, mode(upto + j)) for j, op in enumerate(dump_for(seq))]
        outs += [apply_backend(ds, op, 'none') for op in dump_for(seq)]
    return outs


PROBE_READS_MAXLEN = [10 ** 6]


def probed_dump(seq):
    """the pass-by-value probe of the read-back calls does not depend on how the state was reached: beyond a length
    bound only the plain read-back is done (the probe of the calls of the sequence itself is always on)."""
    return len(seq) <= PROBE_READS_MAXLEN[0]


def first_divergence(seq, m_all, outs):
    ext = list(seq) + (dump_for(seq) + dump_for(seq) if probed_dump(seq) else dump_for(seq))
    for i, (a, b) in enumerate(zip(m_all, outs)):
        if not agree(a, b):
            if i < len(seq):
                return {'kind': 'response', 'step': i, 'method': method_of(seq[i]), 'op': seq[i], 'expected': a, 'observed': b}
            # the contents read back differ: either the read method or an earlier mutator is at fault
            return {'kind': 'contents', 'step': len(seq), 'method': method_of(ext[i]), 'read': ext[i],
                    'mutators': sorted({method_of(o) for o in seq}), 'expected': a, 'observed': b}
    return None


def model_all(seq, dev=()):
    m_outs, m_dump, stop = run_model(seq, dev)
    return (m_outs + m_dump + (m_dump if probed_dump(seq) else [])) if stop is None else m_outs, stop


_BUDGET = {}


def check_sequence(seq, backends):
    """list of divergence records for this sequence (one per diverging backend), plus notes.
    A backend is compared with the contract and, if it diverges, with the contract plus each recorded deviation of that
    backend; it is *explained* if one of these references describes the whole run.  Otherwise the divergence from the
    reference that describes the longest prefix of the run is reported (so that a recorded deviation early in a sequence
    does not hide -- or get blamed for -- a different defect later in it)."""
    m_all, stop = model_all(seq)
    upto = len(seq) if stop is None else stop + 1
    res, notes, real = [], [], {}
    for b in backends:
        outs = run_backend(b, seq, upto)
        real[b] = outs
        d = first_divergence(seq, m_all, outs)
        if d is None:
            continue
        best = (None, m_all, len(m_all), d)          # (deviation, reference outcomes, comparable length, divergence)
        explained = None
        for dev in DEVIATIONS.get(b, []):
            x_all, x_stop = model_all(seq, [dev])
            n = min(len(x_all), len(outs)) if x_stop is None else x_stop
            dx = first_divergence(seq, x_all[:n], outs[:n])
            if dx is None:
                explained = dev
                break
            if dx['step'] > best[3]['step'] or (dx['step'] == best[3]['step'] and dx['kind'] == 'contents' and best[3]['kind'] == 'response'):
                best = (dev, x_all, n, dx)
        if explained is not None:
            d['backend'], d['sequence'], d['explained_by'] = b, seq, explained
            res.append(d)
            continue
        dev, ref, n, d = best
        d['backend'], d['sequence'], d['explained_by'] = b, seq, None
        if dev is not None:
            d['relative_to'] = 'contract + recorded deviation ' + dev
        # pass-by-value?  the divergence disappears when the caller's messages are left alone
        div = lambda outs_: first_divergence(seq, ref[:n], outs_[:n])
        if div(run_backend(b, seq, upto, 'none')) is None:
            arg = div(run_backend(b, seq, upto, 'arg')) is not None
            d['kind'] = 'by_value.argument' if arg else 'by_value.result'
            key = (b, d['kind'])
            _BUDGET[key] = _BUDGET.get(key, 0) + 1
            if _BUDGET[key] <= 4:      # locating the leaking call costs one run per call: only for the first few
                ext = list(seq[:upto]) + (dump_for(seq) if (upto == len(seq) and probed_dump(seq)) else [])
                for i in range(len(ext)):
                    if div(run_backend(b, seq, upto, 'arg' if arg else 'result', only=i)) is not None:
                        d['method'] = method_of(ext[i])
                        d['leaking_call'] = ext[i]
                        break
            else:
                d['method'] = 'not-located'
        res.append(d)
    if stop is not None:
        notes.append({'op': seq[stop], 'why': m_all[stop][1], 'outcomes': {b: real[b][stop] for b in backends}})
    return res, notes, stop is not None


# ------------------------------------------------------------------------------------------ alphabets
def alphabet(name):
    A = [
        ['create_study', 's1', 0], ['create_study', 's2', 0], ['delete_study', 's1'], ['update_study', 's1', 1],
        ['create_trial', 's1', 1, 0], ['create_trial', 's1', 3, 0], ['update_trial', 's1', 1, 1], ['update_trial', 's1', 2, 1],
        ['delete_trial', 's1', 3], ['get_trial', 's1', 1],
        ['create_sop_next', 's1', 'c1'], ['create_sop', 's1', 'c1', 1], ['update_sop', 's1', 'c1', 1, True], ['update_sop', 's1', 'c1', 2, True],
        ['list_sops', 's1', 'c1', True], ['get_sop', 's1', 'c1', 1],
        ['create_eop', 's1', 1], ['update_eop', 's1', 1, 1], ['update_eop', 's1', 2, 1],
        ['update_metadata', 's1', [['a', 'x']], []], ['update_metadata', 's1', [['b', 'y']], [['3', 'k', 'w'], ['1', 'k', 'v']]],
        ['update_metadata', 's1', [['c', 'z']], [['1', 'k', 'v'], ['0', 'k', 'w']]],
        ['raw', 'get_trial', 'owners/o/studies/s1/trials/001'], ['raw', 'get_trial', 'owners/o/studies/s1'],
        ['raw', 'load_study', 'owners/o'],
    ]
    if name == 'thorough':
        A += [
            ['load_study', 's1'], ['list_studies', 'o'], ['list_studies', 'q'], ['delete_study', 's2'],
            ['create_trial', 's1', 2, 0], ['create_trial', 's2', 1, 0], ['delete_trial', 's1', 1], ['list_trials', 's1'], ['max_trial_id', 's1'],
            ['create_sop_next', 's1', 'c2'], ['create_sop_next', 's2', 'c1'], ['list_sops', 's1', 'c1', False], ['max_sop', 's1', 'c1'],
            ['list_sops', 's1', 'c2', False], ['get_eop', 's1', 1], ['create_eop', 's1', 2],
            ['update_metadata', 's1', [], [['x', 'k', 'v']]], ['update_metadata', 's2', [['a', 'x']], [['2', 'k', 'v']]],
            ['raw', 'delete_trial', 'owners/o/studies/s1/trials/+1'], ['raw', 'get_suggestion_operation', 'owners/o/operations/suggestion/s1/c1/01'],
            ['raw', 'list_studies', 'owners'],
        ]
    return A


# sequences that are always run (whatever the bound): the recorded findings and the scenarios named in the property
TARGETED = [
    # delete + re-create: the operation numbering after re-creation (finding 10: RAM .../c1/1, SQL .../c1/2)
    [['create_study', 's1', 0], ['create_sop_next', 's1', 'c1'], ['delete_study', 's1'], ['create_study', 's1', 1], ['create_sop_next', 's1', 'c1']],
    [['create_study', 's1', 0], ['create_trial', 's1', 1, 0], ['create_eop', 's1', 1], ['delete_study', 's1'], ['create_study', 's1', 1], ['get_eop', 's1', 1]],
    [['create_study', 's1', 0], ['create_trial', 's1', 1, 0], ['create_trial', 's1', 2, 0], ['delete_study', 's1'], ['create_study', 's1', 1],
     ['list_trials', 's1'], ['max_trial_id', 's1'], ['create_trial', 's1', 1, 1]],
    # metadata updates naming missing / ill-formed trials change nothing
    [['create_study', 's1', 0], ['create_trial', 's1', 1, 0], ['update_metadata', 's1', [['a', 'x']], [['1', 'k', 'v'], ['2', 'k', 'w']]], ['load_study', 's1'], ['get_trial', 's1', 1]],
    [['create_study', 's1', 0], ['create_trial', 's1', 1, 0], ['update_metadata', 's1', [['a', 'x']], [['1', 'k', 'v'], ['x', 'k', 'w']]], ['update_metadata', 's1', [['b', 'y']], [['1', 'k', 'v']]]],
    # RAM update_*_operation on a missing operation (recorded finding)
    [['create_study', 's1', 0], ['create_sop_next', 's1', 'c1'], ['update_sop', 's1', 'c1', 2, True], ['list_sops', 's1', 'c1', False]],
    [['create_study', 's1', 0], ['update_eop', 's1', 1, 1], ['get_eop', 's1', 1]],
    # adversarial study names: '_' and '%' (SQL LIKE wildcards), names differing in letter case only, names that are prefixes
    # of each other, the same study name under two owners -- every table must be addressed by key equality
] + [
    sum([[['create_study', s, 0], ['create_trial', s, 1, 0], ['create_trial', s, 2, 0], ['create_sop_next', s, 'c1'], ['create_eop', s, 1]]
         for s in names], []) + tail
    for names in (['run_1', 'run-1', 'runX1', 'RUN_1', 'run_10', 'run', 'p|run_1'], ['a%', 'ab', 'a%c', 'abc', 'A%', 'p|a%'])
    for tail in (
        [['delete_study', names[0]]],
        [['delete_trial', names[0], 1], ['update_metadata', names[0], [['m', 'x']], [['2', 'k', 'v']]], ['update_trial', names[0], 2, 1],
         ['update_sop', names[0], 'c1', 1, True], ['update_eop', names[0], 1, 1], ['update_study', names[0], 1], ['list_trials', names[0]],
         ['list_studies', 'o'], ['list_studies', 'p']],
        [['delete_study', names[-1]], ['delete_study', names[3]], ['create_study', names[3], 1], ['create_sop_next', names[3], 'c1']],
    )
] + [
    # one metadata update naming several trials in an order that is neither the order of their names nor of their ids,
    # read back afterwards (each named trial gets exactly its own group, every other trial is untouched)
    [['create_study', 's1', 0], ['create_trial', 's1', 1, 0], ['create_trial', 's1', 2, 0], ['create_trial', 's1', 3, 0],
     ['update_metadata', 's1', [['a', 'x']], [['3', 'k', 'three'], ['2', 'k', 'two'], ['3', 'j', 'three-j']]],
     ['get_trial', 's1', 2], ['get_trial', 's1', 3], ['get_trial', 's1', 1], ['list_trials', 's1']],
    [['create_study', 's1', 0]] + [['create_trial', 's1', t, 0] for t in (9, 10, 11, 2)] +
    [['update_metadata', 's1', [], [['9', 'k', 'nine'], ['10', 'k', 'ten'], ['11', 'k', 'eleven']]],
     ['get_trial', 's1', 9], ['get_trial', 's1', 10], ['get_trial', 's1', 11], ['get_trial', 's1', 2], ['list_trials', 's1'],
     ['update_metadata', 's1', [], [['11', 'k', 'eleven-b'], ['2', 'k', 'two'], ['10', 'k', 'ten-b']]], ['list_trials', 's1']],
    [['create_study', 's1', 0], ['create_study', 's2', 0], ['create_trial', 's2', 1, 0], ['create_trial', 's1', 3, 0], ['create_trial', 's1', 1, 0],
     ['update_metadata', 's1', [['b', 'y']], [['3', 'k', 'v'], ['1', 'k', 'w']]], ['list_trials', 's1'], ['list_trials', 's2']],
    # more than nine suggestion operations of one client (operation ids are strings: '.../10' sorts before '.../9')
    [['create_study', 's1', 0]] + [['create_sop', 's1', 'c1', n] for n in range(1, 11)] + [['max_sop', 's1', 'c1'], ['create_sop_next', 's1', 'c1'],
                                                                                            ['max_sop', 's1', 'c1'], ['list_sops', 's1', 'c1', False]],
    [['create_study', 's1', 0]] + [['create_sop_next', 's1', 'c1'] for _ in range(12)] + [['get_sop', 's1', 'c1', 12], ['update_sop', 's1', 'c1', 11, True],
                                                                                           ['list_sops', 's1', 'c1', True]],
    # trial id gaps, order of listings after delete + re-insert
    [['create_study', 's1', 0], ['create_trial', 's1', 1, 0], ['create_trial', 's1', 3, 0], ['delete_trial', 's1', 1], ['create_trial', 's1', 1, 1], ['list_trials', 's1'], ['max_trial_id', 's1']],
    [['create_study', 's1', 0], ['create_study', 's2', 0], ['delete_study', 's1'], ['create_study', 's1', 1], ['list_studies', 'o'], ['update_study', 's2', 1], ['list_studies', 'o']],
]


# ------------------------------------------------------------------------------------------ exploration
def model_state(seq):
    m = Model()
    for op in seq:
        if apply_model(m, op)[0] == 'unspecified':
            return None
    return json.dumps([sorted(m.owners), list(m.studies.items()), [(k, list(v.items())) for k, v in sorted(m.trials.items())],
                       [(list(k), list(v.items())) for k, v in sorted(m.sops.items())], [(k, sorted(v.items())) for k, v in sorted(m.eops.items())]])


PRUNE_NOOPS = [False]


def _work(args):
    seqs, backends = args
    out, notes, dead = [], [], []
    for seq in seqs:
        res, nts, is_dead = check_sequence(seq, backends)
        out += res
        notes += nts
        # quick tier: a sequence whose last call leaves the (contract) state as it was is not extended -- the same
        # continuations are explored from the shorter sequence without that call
        if is_dead or (PRUNE_NOOPS[0] and not res and seq and model_state(seq) == model_state(seq[:-1])):
            dead.append(seq)
    return out, notes, dead


def signature(d):
    return '%s|%s|%s|%s' % (d['backend'], d['kind'], d.get('method'), d.get('explained_by'))


def summarise(divs, notes, n_seq, t0, extra=None):
    by_sig = collections.OrderedDict()
    for d in sorted(divs, key=lambda d: len(d['sequence'])):
        k = signature(d)
        if k not in by_sig:
            by_sig[k] = {'signature': k, 'backend': d['backend'], 'kind': d['kind'], 'method': d.get('method'),
                         'explained_by': d.get('explained_by'), 'count': 0, 'witness': d}
        by_sig[k]['count'] += 1
    nk = collections.OrderedDict()
    for n in notes:
        k = json.dumps([n['op'][:2] if n['op'][0] != 'raw' else n['op'], n['why'], n['outcomes']], sort_keys=True)
        if k not in nk:
            nk[k] = dict(n, count=0)
        nk[k]['count'] += 1
    res = {'sequences': n_seq, 'divergent_runs': len(divs), 'divergences': list(by_sig.values()),
           'unexplained': [v for v in by_sig.values() if v['explained_by'] is None],
           'outside_precondition': list(nk.values())[:40], 'seconds': round(time.time() - t0, 2)}
    if extra:
        res.update(extra)
    return res


def allow_deviations(p):
    """only the deviations named in the payload (= findings still open in known_findings.d) may explain a divergence."""
    PRUNE_NOOPS[0] = bool(p.get('prune_noops', False))
    if 'probe_reads_maxlen' in p:
        PROBE_READS_MAXLEN[0] = int(p['probe_reads_maxlen'])
    if 'deviations' in p:
        for b in list(DEVIATIONS):
            DEVIATIONS[b] = [d for d in DEVIATIONS[b] if d in p['deviations']]


def explore(p):
    t0 = time.time()
    allow_deviations(p)
    backends = p.get('backends') or ['ram', 'sql_mem', 'sql_file']
    A = alphabet(p.get('alphabet', 'quick'))
    maxlen = int(p.get('maxlen', 3))
    workers = int(p.get('workers', 8))
    divs, notes, n_seq = [], [], 0
    alive = [[]]
    pool = multiprocessing.get_context('fork').Pool(workers, initializer=None) if workers > 1 else None
    pids = [w.pid for w in pool._pool] if pool is not None else []
    try:
        jobs0 = [list(s) for s in TARGETED] if p.get('targeted', True) else []
        for L in range(1, maxlen + 1):
            seqs = [pre + [op] for pre in alive for op in A]
            if L == 1:
                seqs = jobs0 + seqs
            n_seq += len(seqs)
            chunk = max(1, min(400, len(seqs) // (workers * 4) + 1))
            # the sqlite *file* differs from :memory: only in durability: optionally enumerated to a smaller length
            bl = [b for b in backends if b != 'sql_file' or L <= int(p.get('file_maxlen', maxlen))]
            parts = [(seqs[i:i + chunk], bl) for i in range(0, len(seqs), chunk)]
            results = pool.map(_work, parts) if pool is not None else [_work(x) for x in parts]
            dead = set()
            for o, n, d in results:
                divs += o
                notes += n
                dead |= {json.dumps(x) for x in d}
            alive = [s for s in seqs[len(jobs0) if L == 1 else 0:] if json.dumps(s) not in dead]
    finally:
        if pool is not None:
            pool.close()
            pool.join()
    cleanup_files()
    for pid in pids:      # database files of the worker processes
        for n in os.listdir(OUT) if os.path.isdir(OUT) else []:
            if n.startswith('c07_%d' % pid) and (n.endswith('.db') or n.endswith('.db-journal')):
                try:
                    os.remove(os.path.join(OUT, n))
                except OSError:
                    pass
    return summarise(divs, notes, n_seq, t0, {'maxlen': maxlen, 'alphabet': len(A), 'backends': backends, 'targeted': len(TARGETED)})


def run(p):
    t0 = time.time()
    allow_deviations(p)
    backends = p.get('backends') or ['ram', 'sql_mem', 'sql_file']
    divs, notes = [], []
    trace = []
    for seq in p['sequences']:
        res, nts, _ = check_sequence(seq, backends)
        divs += res
        notes += nts
        if p.get('trace'):
            m_all, stop = model_all(seq)
            upto = len(seq) if stop is None else stop + 1
            trace.append({'sequence': seq, 'model': m_all[:upto], 'real': {b: run_backend(b, seq, upto)[:upto] for b in backends}})
    cleanup_files()
    return summarise(divs, notes, len(p['sequences']), t0, {'trace': trace} if trace else None)


def main():
    cmd = sys.argv[1]
    p = json.loads(sys.argv[2]) if len(sys.argv) > 2 else {}
    if cmd == 'explore':
        res = explore(p)
    elif cmd == 'run':
        res = run(p)
    else:
        raise SystemExit('unknown command %s' % cmd)
    print(json.dumps(res, default=str))


if __name__ == '__main__':
    main()
