"""C14 replay: two fresh processes, same seed, perturbed ambient state -> identical suggestions?

Run under /venv/bin/python.  Honours $VERIF_REPO.  Importable designers only (random, quasi-random,
shuffled grid, NSGA-II, eagle, CMA-ES) plus the seeded benchmark chain
(DesignerBenchmarkStateFactory(seed) -> InRamDesignerPolicy -> designer_factory(problem, seed=seed)).

  parent:  c14_twoproc.py --designers random,quasi_random,...      prints one JSON line {name: result}
  child :  c14_twoproc.py --child NAME --seed S --perturb 0|1       prints one JSON line [suggestions]

Process A: PYTHONHASHSEED=1, untouched global RNGs.
Process B: PYTHONHASHSEED=2, numpy / python global RNGs re-seeded and advanced, started >= 1.1 s later (so that
           int(time.time()) differs), an unrelated study run before in the same process.
Process C: like A with a different seed (the seed must change the stream of a randomised algorithm).
Processes A0/B0: like A/B with seed 0 (a legal seed that `seed or <fallback>` would silently replace).
No service, no database: designers are driven directly / through the in-RAM policy supporter.
"""
import json
import os
import subprocess
import sys
import time

HERE = os.path.dirname(os.path.abspath(__file__))
ALL = ['random', 'quasi_random', 'shuffled_grid', 'nsga2', 'eagle', 'cmaes', 'benchmark']
ROUNDS, BATCH = 3, 3
ROUNDS_FOR = {'eagle': 14}      # eagle must outgrow its firefly pool (16 for 5 parameters) to reach its own RNG


def _problem(vz, multi=False, doubles_only=False):
    p = vz.ProblemStatement()
    r = p.search_space.root
    r.add_float_param('x0', -1.0, 2.0)
    r.add_float_param('x1', 0.5, 4.0)
    if not doubles_only:
        r.add_int_param('i0', 0, 6)
        r.add_discrete_param('d0', [0.1, 0.5, 2.5, 7.0])
        r.add_categorical_param('c0', ['alpha', 'beta', 'gamma', 'delta'])
    p.metric_information.append(vz.MetricInformation('obj', goal=vz.ObjectiveMetricGoal.MAXIMIZE))
    if multi:
        p.metric_information.append(vz.MetricInformation('obj2', goal=vz.ObjectiveMetricGoal.MINIMIZE))
    return p


def _value(params, k=0):
    """Deterministic objective: a pure function of the parameter values."""
    tot = 0.0
    for name in sorted(params):
        v = params[name]
        tot += (len(v) * 0.37 + ord(v[0]) * 0.01) if isinstance(v, str) else float(v) * (1.0 + 0.1 * k)
    return tot - 0.05 * tot * tot


def _as_plain(parameters):
    out = {}
    for k, v in parameters.as_dict().items():
        out[k] = v if isinstance(v, str) else float(v)
    return out


def _perturb(vz):
    import random
    import numpy as np
    np.random.seed(424242)
    np.random.rand(1000)
    random.seed(987654321)
    [random.random() for _ in range(777)]
    try:
        import jax
        jax.random.PRNGKey(99)
    except Exception:
        pass
    # something else ran before in this process
    from vizier._src.algorithms.designers import random as rnd
    other = rnd.RandomDesigner(_problem(vz).search_space, seed=5)
    other.suggest(11)


def _make(name, vz, seed):
    if name == 'random':
        from vizier._src.algorithms.designers import random as m
        p = _problem(vz)
        return p, m.RandomDesigner.from_problem(p, seed=seed)
    if name == 'quasi_random':
        from vizier._src.algorithms.designers import quasi_random as m
        p = _problem(vz)
        return p, m.QuasiRandomDesigner.from_problem(p, seed=seed)
    if name == 'shuffled_grid':
        from vizier._src.algorithms.designers import grid as m
        p = _problem(vz)
        return p, m.GridSearchDesigner.from_problem(p, seed=seed)
    if name == 'nsga2':
        from vizier._src.algorithms.evolution import nsga2 as m
        p = _problem(vz, multi=True)
        return p, m.NSGA2Designer(p, population_size=4, first_survival_after=4, seed=seed)
    if name == 'eagle':
        from vizier._src.algorithms.designers.eagle_strategy import eagle_strategy as m
        p = _problem(vz)
        return p, m.EagleStrategyDesigner(p, seed=seed)
    if name == 'cmaes':
        from vizier._src.algorithms.designers import cmaes as m
        p = _problem(vz, doubles_only=True)
        return p, m.CMAESDesigner(p, seed=seed, pop_size=4)
    raise KeyError(name)


def child(name, seed, perturb):
    sys.path.insert(0, HERE)
    import env  # noqa: F401  (pb2 shim, equinox stand-in, $VERIF_REPO on sys.path)
    from vizier import pyvizier as vz
    if perturb:
        _perturb(vz)
    out = []
    if name == 'benchmark':
        from vizier._src.algorithms.designers import random as rnd
        from vizier._src.benchmarks.experimenters import numpy_experimenter
        from vizier._src.benchmarks.runners import benchmark_runner, benchmark_state
        import numpy as np
        p = _problem(vz, doubles_only=True)
        exptr = numpy_experimenter.NumpyExperimenter(lambda x: float(np.sum(x * x)), p)
        factory = benchmark_state.DesignerBenchmarkStateFactory(experimenter=exptr, designer_factory=rnd.RandomDesigner.from_problem)
        state = factory(seed=seed)
        runner = benchmark_runner.BenchmarkRunner([benchmark_runner.GenerateAndEvaluate(BATCH)], num_repeats=ROUNDS)
        runner.run(state)
        for t in state.algorithm.supporter.GetTrials():
            out.append({'id': t.id, 'parameters': _as_plain(t.parameters),
                        'metrics': {k: float(m.value) for k, m in t.final_measurement.metrics.items()} if t.final_measurement else None})
    else:
        from vizier import algorithms as vza
        p, designer = _make(name, vz, seed)
        tid = 0
        for _ in range(ROUNDS_FOR.get(name, ROUNDS)):
            sugg = designer.suggest(BATCH)
            done = []
            for s in sugg:
                tid += 1
                out.append(_as_plain(s.parameters))
                t = s.to_trial(tid)
                metrics = {mi.name: _value(_as_plain(s.parameters), k) for k, mi in enumerate(p.metric_information)}
                t.complete(vz.Measurement(metrics=metrics))
                done.append(t)
            designer.update(vza.CompletedTrials(done), vza.ActiveTrials())
    print('RESULT ' + json.dumps(out, sort_keys=True))


def _spawn(name, seed, perturb, hashseed):
    e = dict(os.environ)
    e['PYTHONHASHSEED'] = str(hashseed)
    e.setdefault('JAX_PLATFORMS', 'cpu')
    return subprocess.Popen([sys.executable, os.path.abspath(__file__), '--child', name, '--seed', str(seed), '--perturb', str(perturb)],
                            stdout=subprocess.PIPE, stderr=subprocess.PIPE, text=True, env=e)


def _collect(p, timeout=300):
    try:
        so, se = p.communicate(timeout=timeout)
    except subprocess.TimeoutExpired:
        p.kill()
        return None, 'timeout'
    for line in so.splitlines():
        if line.startswith('RESULT '):
            return json.loads(line[7:]), None
    return None, (se or so)[-500:]


def parent(names):
    repo = os.environ.get('VERIF_REPO', '/repo')
    before = subprocess.run(['git', '-C', repo, 'status', '--porcelain'], capture_output=True, text=True).stdout
    t0 = time.time()
    a = {n: _spawn(n, 7, 0, 1) for n in names}
    c = {n: _spawn(n, 8, 0, 1) for n in names}
    a0 = {n: _spawn(n, 0, 0, 1) for n in names}     # seed 0 is a legal seed: `seed or <fallback>` must not fall back
    ra = {n: _collect(p) for n, p in a.items()}
    rc = {n: _collect(p) for n, p in c.items()}
    # process B starts strictly later (>= 1.1 s after A started) so that any int(time.time()) fallback differs
    time.sleep(max(0.0, 1.1 - (time.time() - t0)))
    b = {n: _spawn(n, 7, 1, 2) for n in names}
    b0 = {n: _spawn(n, 0, 1, 2) for n in names}
    rb = {n: _collect(p) for n, p in b.items()}
    ra0, rb0 = {n: _collect(p) for n, p in a0.items()}, {n: _collect(p) for n, p in b0.items()}
    res = {}
    for n in names:
        (xa, ea), (xb, eb), (xc, ec), (xa0, ea0), (xb0, eb0) = ra[n], rb[n], rc[n], ra0[n], rb0[n]
        if ea or eb or ec or ea0 or eb0:
            res[n] = {'error': 'child failed: %s' % (ea or eb or ec or ea0 or eb0)}
            continue
        if xa == xb and xa0 != xb0:      # only seed 0 diverges (`seed or fallback`)
            xa, xb = xa0, xb0
        first_diff = next((i for i, (u, v) in enumerate(zip(xa, xb)) if u != v), None)
        res[n] = {'same_seed_equal': xa == xb, 'seed_zero_equal': xa0 == xb0, 'different_seed_differs': ra[n][0] != xc, 'n_suggestions': len(xa),
                  'first_divergence': None if first_diff is None else {'index': first_diff, 'process_A': xa[first_diff], 'process_B': xb[first_diff]},
                  'time_s': round(time.time() - t0, 2)}
    after = subprocess.run(['git', '-C', repo, 'status', '--porcelain'], capture_output=True, text=True).stdout
    if after != before:
        res['error'] = 'repository working tree changed during replay'
    print(json.dumps(res, sort_keys=True))


if __name__ == '__main__':
    argv = sys.argv[1:]
    if '--child' in argv:
        child(argv[argv.index('--child') + 1], int(argv[argv.index('--seed') + 1]), int(argv[argv.index('--perturb') + 1]))
    else:
        names = ALL
        if '--designers' in argv:
            names = [x for x in argv[argv.index('--designers') + 1].split(',') if x]
        parent(names)
