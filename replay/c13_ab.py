"""C13 replay / bounded stand-in: run A (one live designer) vs run B (dump -> fresh instance -> load before every
suggest) on the REAL designers, same trial history for both runs (the trials suggested by run A, completed with a
deterministic objective).  Run under /venv/bin/python.  Never decides a proof; prints one JSON line and
REPRODUCED (a divergence / a failing dump or load was observed) or NOT-REPRODUCED.

usage: c13_ab.py <designer> [--steps N] [--seed S] [--variant V]
  designer: grid | shuffled_grid | grid_policy | quasi_random | nsga2 | eagle | eagle_infeasible | cmaes
"""
import argparse
import json
import sys
import os

sys.path.insert(0, os.path.dirname(os.path.abspath(__file__)))
import env  # noqa: E402,F401

import numpy as np  # noqa: E402
from vizier import pyvizier as vz  # noqa: E402
from vizier import algorithms as vza  # noqa: E402


def problem(kind, metric='m'):
    p = vz.ProblemStatement()
    r = p.search_space.root
    if kind == 'grid':
        r.add_int_param('i', 0, 2)
        r.add_categorical_param('c', ['a', 'b'])
        r.add_discrete_param('d', [0.5, 1.5])
    elif kind == 'mixed':
        r.add_float_param('x', 0.0, 1.0)
        r.add_int_param('i', 0, 3)
        r.add_categorical_param('c', ['a', 'b', 'c'])
    else:
        r.add_float_param('x', 0.0, 1.0)
        r.add_float_param('y', -1.0, 1.0)
    p.metric_information.append(vz.MetricInformation(metric, goal=vz.ObjectiveMetricGoal.MAXIMIZE))
    return p


def params_of(s):
    return {k: v.value for k, v in s.parameters.items()}


def same(a, b):
    if set(a) != set(b):
        return False
    for k in a:
        x, y = a[k], b[k]
        if isinstance(x, float) or isinstance(y, float):
            if not (x == y or (x != x and y != y)):
                return False
        elif x != y:
            return False
    return True


def complete(sug, tid, metric, infeasible=False):
    t = sug.to_trial(tid)
    val = float(sum(hash(str(v)) % 97 if isinstance(v, str) else float(v) for v in params_of(sug).values()))
    if infeasible:
        t.complete(vz.Measurement({metric: val}), infeasibility_reason='replay: infeasible')
    else:
        t.complete(vz.Measurement({metric: val}))
    return t


def state_digest(d):
    """observable counters / population named by the property for randomised evolutionary designers"""
    out = {}
    for a in ('_num_trials_seen', '_current_index', '_skip_points'):
        if hasattr(d, a):
            out[a] = int(getattr(d, a))
    if hasattr(d, '_population') and hasattr(d._population, 'xs'):
        out['population_size'] = int(len(d._population))
        for f in ('xs', 'ys', 'cs', 'ages', 'generations', 'ids'):       # bit-exact: float.__repr__ round-trips
            if hasattr(d._population, f):
                out['population_' + f] = [repr(float(v)) for v in np.asarray(getattr(d._population, f), dtype=np.float64).ravel()]
    if hasattr(d, '_firefly_pool'):
        fp = d._firefly_pool
        out['pool_size'] = int(fp.size)
        out['pool_ids'] = sorted(int(k) for k in fp._pool)
        out['pool_last_id'] = int(fp._last_id)
        out['pool_max_fly_id'] = int(fp._max_fly_id)
        out['pool_flies'] = [[int(k), repr(float(f.perturbation)), int(f.generation),
                              sorted((n, repr(v.value)) for n, v in f.trial.parameters.items())] for k, f in sorted(fp._pool.items())]
    if hasattr(d, '_trial_population'):
        out['cma_queue'] = int(d._trial_population.qsize())
        rows = []
        for item in list(d._trial_population.queue):      # queue order is observable: it is the row order of the next CMA-ES update
            try:
                rows.append(np.round(np.concatenate([np.asarray(x, dtype=float).ravel() for x in (item if isinstance(item, (tuple, list)) else [item])]), 9).tolist())
            except Exception:
                rows.append(str(getattr(item, 'id', item))[:40])
        out['cma_queue_rows'] = rows
    return out


IGNORE = set()


def run(designer, steps, seed, batch):
    metric = 'm'
    compare_suggestions = True
    infeasible_every = 0
    if designer in ('grid', 'shuffled_grid'):
        from vizier._src.algorithms.designers import grid
        p = problem('grid')
        sd = None if designer == 'grid' else seed
        make = lambda fresh=False: grid.GridSearchDesigner.from_problem(p, (sd + 1000 if (fresh and sd is not None) else sd))  # noqa: E731
    elif designer == 'quasi_random':
        from vizier._src.algorithms.designers import quasi_random
        p = problem('mixed')
        make = lambda fresh=False: quasi_random.QuasiRandomDesigner.from_problem(p, seed=(seed + 1000 if fresh else seed))  # noqa: E731
    elif designer == 'nsga2':
        from vizier._src.algorithms.evolution import nsga2
        p = problem('float')
        make = lambda fresh=False: nsga2.NSGA2Designer(p, population_size=3, first_survival_after=4, seed=seed)  # noqa: E731
        compare_suggestions = False      # the sampler / mutation RNGs are exempt (property text): population, phase, counters are compared
    elif designer in ('eagle', 'eagle_infeasible'):
        from vizier._src.algorithms.designers.eagle_strategy import eagle_strategy as es
        if designer == 'eagle_infeasible':
            metric = 'objective'
            infeasible_every = 3
            cfg = es.FireflyAlgorithmConfig(infeasible_force_factor=0.1)
        else:
            cfg = es.FireflyAlgorithmConfig()
        p = problem('float', metric)
        make = lambda fresh=False: es.EagleStrategyDesigner(p, seed=(seed + 1000 if fresh else seed), config=cfg)  # noqa: E731
    elif designer == 'cmaes':
        from vizier._src.algorithms.designers import cmaes
        p = problem('float')
        make = lambda fresh=False: cmaes.CMAESDesigner(p)  # noqa: E731
    else:
        raise SystemExit('unknown designer %s' % designer)

    A = make()
    B = make()
    div = []
    tid = 0
    for step in range(steps):
        cnt = batch[step % len(batch)]
        # restart of run B: dump -> fresh instance (different constructor seed where the class takes one) -> load
        try:
            md = B.dump()
            B2 = make(fresh=True)
            B2.load(md)
            B = B2
        except Exception as e:  # a dump/load that fails on a reachable state is a failure of the property
            div.append({'step': step, 'what': 'dump/load raised %s: %s' % (type(e).__name__, str(e)[:200])})
            break
        dA, dB = state_digest(A), state_digest(B)
        for k in IGNORE:
            dA.pop(k, None)
            dB.pop(k, None)
        if dA != dB:
            keys = sorted(k for k in dA if dA[k] != dB.get(k))
            div.append({'step': step, 'what': 'restored state differs from the live one', 'fields': keys,
                        'live': {k: dA[k] for k in keys}, 'restored': {k: dB.get(k) for k in keys}})
            break
        sA = list(A.suggest(cnt))
        sB = list(B.suggest(cnt))
        if compare_suggestions:
            if len(sA) != len(sB) or not all(same(params_of(x), params_of(y)) for x, y in zip(sA, sB)):
                div.append({'step': step, 'what': 'suggestions differ', 'live': [params_of(x) for x in sA][:3],
                            'restored': [params_of(y) for y in sB][:3]})
                break
        trials = []
        for s in sA:
            tid += 1
            trials.append(complete(s, tid, metric, infeasible=bool(infeasible_every and tid % infeasible_every == 0)))
        A.update(vza.CompletedTrials(trials), vza.ActiveTrials([]))
        B.update(vza.CompletedTrials(trials), vza.ActiveTrials([]))
    return div, tid


def run_grid_policy(steps, batch, algorithm='GRID_SEARCH'):
    """grid search hosted by the real policy layer: A keeps one policy object, B builds a new policy per request
    (what the service does); state travels through real study metadata of an InRamPolicySupporter."""
    from vizier._src.pythia import local_policy_supporters as lps
    from vizier._src.service import policy_factory
    supA, supB = lps.InRamPolicySupporter(problem('grid')), lps.InRamPolicySupporter(problem('grid'))   # two independent studies
    f = policy_factory.DefaultPolicyFactory()
    polA = f(supA.GetStudyConfig(), algorithm, supA, 'study')
    div, seenB = [], []
    for step in range(steps):
        cnt = batch[step % len(batch)]
        polB = f(supB.GetStudyConfig(), algorithm, supB, 'study')
        tA = supA.SuggestTrials(polA, cnt)
        tB = supB.SuggestTrials(polB, cnt)
        a = [{k: v.value for k, v in t.parameters.items()} for t in tA]
        b = [{k: v.value for k, v in t.parameters.items()} for t in tB]
        seenB += b
        if a != b:
            div.append({'step': step, 'what': 'suggestions differ', 'live': a[:3], 'restored': b[:3]})
            break
    n = 12
    first = [json.dumps(x, sort_keys=True) for x in seenB[:n]]
    if not div and len(first) == n and len(set(first)) != n:
        div.append({'step': -1, 'what': 'a grid point repeats before the grid (12 points) is exhausted', 'restored': seenB[:n]})
    return div, len(seenB)


def main():
    ap = argparse.ArgumentParser()
    ap.add_argument('designer')
    ap.add_argument('--steps', type=int, default=8)
    ap.add_argument('--seed', type=int, default=1)
    ap.add_argument('--batch', default='1,2,3')
    ap.add_argument('--ignore', default='', help='digest fields not compared (fields of an open recorded finding)')
    a = ap.parse_args()
    IGNORE.update(x for x in a.ignore.split(',') if x)
    batch = [int(x) for x in a.batch.split(',')]
    before = env.repo_clean_snapshot()
    err = None
    try:
        if a.designer == 'grid_policy':
            div, n = run_grid_policy(a.steps, batch)
        else:
            div, n = run(a.designer, a.steps, a.seed, batch)
    except Exception as e:
        import traceback
        div, n, err = [], 0, '%s: %s | %s' % (type(e).__name__, str(e)[:300], traceback.format_exc()[-600:])
    clean = env.repo_clean_snapshot() == before
    print(json.dumps({'designer': a.designer, 'steps': a.steps, 'seed': a.seed, 'batch': batch, 'trials': n,
                      'divergences': div, 'driver_error': err, 'repo_untouched': clean}, default=str))
    if err:
        print('DRIVER-ERROR')
        return 3
    print('REPRODUCED' if div else 'NOT-REPRODUCED')
    return 0


if __name__ == '__main__':
    sys.exit(main())
