"""C08 replay: the same client-level call under three deployments of the REAL service.

  L  implicit in-process servicer (cached local VizierServicer, SQL in memory -- never the default file)
  R  loop-back gRPC: a real `DefaultVizierServer` on localhost, client through a stub
  P  loop-back gRPC with the algorithms behind a second gRPC server: `DistributedPythiaVizierServer`
  Lr / Rr / Pr: the same with the NestedDictRAMDataStore (database_url=None) instead of SQL in memory

Run under /venv/bin/python:

    /venv/bin/python /verif/replay/c08_grpc.py --cases cases.json --out result.json [--deployments L,R,P]
    /venv/bin/python /verif/replay/c08_grpc.py --case Study.get_trial missing_trial        (prints one case)

A case is {"id", "method": "Study.get_trial", "state": ["missing_trial", ...]}.  The state is reached through
client calls only (create study, suggest, complete, set_state); then the method under test is called once and
its result class / gRPC status code and a digest of the study afterwards are recorded per deployment.
"""
import sys
sys.path.insert(0, '/verif/replay')
import env  # noqa: E402  (pb2 shim, equinox stand-in, $VERIF_REPO)

import argparse  # noqa: E402
import itertools  # noqa: E402
import json  # noqa: E402
import traceback  # noqa: E402

import grpc  # noqa: E402
from vizier._src.service import clients, constants, vizier_client, vizier_server  # noqa: E402
from vizier.service import pyvizier as vz  # noqa: E402

_counter = itertools.count(1)


def study_config():
    sc = vz.StudyConfig(algorithm='RANDOM_SEARCH')
    sc.search_space.root.add_float_param('w', 0.0, 1.0)
    sc.metric_information.append(vz.MetricInformation('m', goal=vz.ObjectiveMetricGoal.MAXIMIZE))
    return sc


def qual(c):
    return c.__module__ + '.' + c.__qualname__


def describe(f):
    try:
        r = f()
    except BaseException as e:  # noqa: BLE001 - the class is the observation
        code = None
        if isinstance(e, grpc.RpcError):
            try:
                code = e.code().name
            except Exception:  # noqa: BLE001
                code = '?'
        return {'kind': 'raise', 'class': qual(type(e)), 'mro': [qual(c) for c in type(e).__mro__],
                'code': code, 'text': str(e)[:200]}
    if isinstance(r, list) and not r:
        vk = 'empty_list'
    elif r is None:
        vk = 'none'
    else:
        vk = 'value'
    return {'kind': 'return', 'value': vk}


def digest(client, datastore=None):
    """State of the study as a client sees it afterwards (no timestamps, no parameter values), plus the
    operation records of the study read from the server's datastore (read only)."""
    try:
        trials = client.list_trials()
        out = {'trials': [[t.id, t.status.name, len(t.measurements), t.final_measurement is not None,
                           sorted((str(ns), k, str(v)) for ns, k, v in t.metadata.all_items())] for t in trials]}
        out['state'] = client.get_study_state().name
        cfg = client.get_study_config()
        out['metadata'] = sorted((str(ns), k, str(v)) for ns, k, v in cfg.metadata.all_items())
    except BaseException:  # noqa: BLE001
        return {'unreadable': True}
    if datastore is not None:
        name = client.study_resource_name
        ops = []
        for cid in ('w', 'w2', 'c'):
            try:
                ops.append([cid, len(datastore.list_suggestion_operations(name, cid))])
            except Exception:  # noqa: BLE001 - NotFoundError
                ops.append([cid, 0])
        es = []
        for tid in (1, 2, 99):
            try:
                datastore.get_early_stopping_operation(
                    '%s/operations/earlystopping/%s/%d' % (name.split('/studies/')[0], name.split('/studies/')[1], tid))
                es.append(tid)
            except Exception:  # noqa: BLE001 - NotFoundError
                pass
        out['suggestion_ops'], out['early_stopping_ops'] = ops, es
    return out


def grid_config():
    """A deterministic algorithm whose policy asks the supporter for the trial ids 1..max_trial_id."""
    sc = vz.StudyConfig(algorithm='GRID_SEARCH')
    sc.search_space.root.add_discrete_param('x', [1.0, 2.0, 3.0, 4.0])
    sc.search_space.root.add_categorical_param('c', ['a', 'b', 'c'])
    sc.metric_information.append(vz.MetricInformation('m', goal=vz.ObjectiveMetricGoal.MAXIMIZE))
    return sc


def build_supporter(case, label):
    """The policy supporter with the service reference of the deployment: the in-process servicer (L) or a stub (R, P)."""
    from vizier._src.service import service_policy_supporter
    method, state = case['method'], set(case.get('state', []))
    n = next(_counter)
    owner, sid = 'o', 'sup_%s_%d' % (label, n)
    name = 'owners/%s/studies/%s' % (owner, sid)
    client = None
    if 'missing_study' not in state:
        study = clients.Study.from_study_config(grid_config(), owner=owner, study_id=sid)
        client = study._client
        for t in study.suggest(count=3, client_id='w'):
            t.complete(vz.Measurement({'m': float(t.id)}))
        if 'missing_trial' in state:
            clients.Trial(client, 2).delete()                      # a gap below the maximal trial id
    sup = service_policy_supporter.ServicePolicySupporter(name, vizier_client.create_vizier_servicer_or_stub())
    calls = {
        'ServicePolicySupporter.GetStudyConfig': lambda: sup.GetStudyConfig(name),
        'ServicePolicySupporter.GetTrials': lambda: sup.GetTrials(trial_ids=[1, 2, 3]),
        'ServicePolicySupporter.CheckCancelled': lambda: sup.CheckCancelled(),
        'ServicePolicySupporter.TimeRemaining': lambda: sup.TimeRemaining(),
        'ServicePolicySupporter.study_guid': lambda: sup.study_guid,
    }
    return calls.get(method), client


def build_grid_after_delete(case, label):
    """Client program: GRID_SEARCH study, three suggestions completed, trial 2 deleted, then the call under test."""
    n = next(_counter)
    study = clients.Study.from_study_config(grid_config(), owner='o', study_id='grid_%s_%d' % (label, n))
    for t in study.suggest(count=3, client_id='w'):
        t.complete(vz.Measurement({'m': float(t.id)}))
    clients.Trial(study._client, 2).delete()
    return (lambda: study.suggest(count=2, client_id='w')), study._client


def build(case, label):
    """-> (callable under test, VizierClient for the digest | None)."""
    method, state = case['method'], set(case.get('state', []))
    if method.startswith('ServicePolicySupporter.'):
        return build_supporter(case, label)
    if case.get('variant') == 'grid_after_delete':
        return build_grid_after_delete(case, label)
    n = next(_counter)
    owner, sid = 'o', '%s_%d' % (label, n)
    sc = study_config()
    M = vz.Measurement({'m': 1.0})
    name = 'owners/%s/studies/%s' % (owner, sid)
    if 'bad_study_name' in state:
        name = 'this is not a study name'
    if 'missing_owner' in state:
        owner = 'nobody%d' % n
        name = 'owners/%s/studies/%s' % (owner, sid)
    if 'missing_study' in state or 'bad_study_name' in state or 'missing_owner' in state:
        study = clients.Study(vizier_client.VizierClient(name, 'c'))
        trial_id, trial = 99, None
    else:
        study = clients.Study.from_study_config(sc, owner=owner, study_id=sid)
        try:
            trial = study.suggest(count=1, client_id='w')[0]
        except Exception:  # noqa: BLE001 - a broken SuggestTrials must not hide the call under test
            trial = study.request(vz.TrialSuggestion({'w': 0.75}))
        trial_id = trial.id
        if 'immutable_trial' in state:
            if case.get('variant') == 'succeeded':
                trial.complete(M)
            else:
                trial.complete(infeasible_reason='no')          # INFEASIBLE, no measurement at all
        elif case.get('variant') == 'after_complete':
            trial.complete(M)                                       # the trial has finished before the call under test
        if 'missing_trial' in state:
            trial_id = 99
        if 'immutable_study' in state:
            study.set_state(vz.StudyState.ABORTED)
    client = study._client
    tr = clients.Trial(client, trial_id)
    no_meas = 'no_final_measurement' in state
    count = 1 if 'count_given' in state else None
    md = vz.Metadata({'k': 'v'})
    calls = {
        'Study.get_trial': lambda: study.get_trial(trial_id),
        'Study.from_resource_name': lambda: clients.Study.from_resource_name(name),
        'Study.from_owner_and_id': lambda: clients.Study.from_owner_and_id(owner, sid if 'missing_study' not in state else sid),
        'Study.from_study_config': lambda: clients.Study.from_study_config(sc, owner=owner, study_id=sid),
        'Study.suggest': lambda: study.suggest(count=1, client_id='w2'),
        'Study.request': lambda: study.request(vz.TrialSuggestion({'w': 0.5})),
        'Study.add_trial': lambda: study.add_trial(vz.Trial(parameters={'w': 0.25})),
        'Study.trials': lambda: list(study.trials()),
        'Study.optimal_trials': lambda: list(study.optimal_trials(count)),
        'Study.set_state': lambda: study.set_state(vz.StudyState.COMPLETED),
        'Study.delete': lambda: study.delete(),
        'Study.update_metadata': lambda: study.update_metadata(md),
        'Study.materialize_problem_statement': lambda: study.materialize_problem_statement(),
        'Study.materialize_study_config': lambda: study.materialize_study_config(),
        'Study.materialize_state': lambda: study.materialize_state(),
        'Study.resource_name': lambda: study.resource_name,
        'Trial.complete': lambda: tr.complete(None if no_meas else M),
        'Trial.add_measurement': lambda: tr.add_measurement(M),
        'Trial.check_early_stopping': lambda: tr.check_early_stopping(),
        'Trial.stop': lambda: tr.stop(),
        'Trial.delete': lambda: tr.delete(),
        'Trial.update_metadata': lambda: tr.update_metadata(md),
        'Trial.materialize': lambda: tr.materialize(),
        'Trial.parameters': lambda: tr.parameters,
        'Trial.id': lambda: tr.id,
        'Trial.study': lambda: tr.study,
        'VizierClient.get_suggestions': lambda: client.get_suggestions(1, client_id_override='w2'),
        'VizierClient.report_intermediate_objective_value':
            lambda: client.report_intermediate_objective_value(1, 0.5, [{'m': 1.0}], trial_id),
        'VizierClient.should_trial_stop': lambda: client.should_trial_stop(trial_id),
        'VizierClient.stop_trial': lambda: client.stop_trial(trial_id),
        'VizierClient.complete_trial': lambda: client.complete_trial(trial_id, None if no_meas else M),
        'VizierClient.get_trial': lambda: client.get_trial(trial_id),
        'VizierClient.list_trials': lambda: client.list_trials(),
        'VizierClient.list_optimal_trials': lambda: client.list_optimal_trials(),
        'VizierClient.list_studies': lambda: client.list_studies(),
        'VizierClient.add_trial': lambda: client.add_trial(vz.Trial(parameters={'w': 0.25})),
        'VizierClient.delete_trial': lambda: client.delete_trial(trial_id),
        'VizierClient.delete_study': lambda: client.delete_study(),
        'VizierClient.get_study_config': lambda: client.get_study_config(),
        'VizierClient.get_study_state': lambda: client.get_study_state(),
        'VizierClient.set_study_state': lambda: client.set_study_state(vz.StudyState.COMPLETED),
        'VizierClient.update_metadata': lambda: client.update_metadata(
            vz.MetadataDelta(on_trials={trial_id: md}) if case.get('variant') == 'on_trial' else vz.MetadataDelta(on_study=md)),
        'VizierClient.study_resource_name': lambda: client.study_resource_name,
        'create_or_load_study': lambda: vizier_client.create_or_load_study(owner, 'c', sid, sc),
    }
    if method not in calls:
        return None, None
    if case.get('variant') == 'twice':
        once = calls[method]
        try:
            once()                                                  # the call under test is the second identical call
        except Exception:  # noqa: BLE001
            pass
    if method.startswith('Study.from_') and 'missing_study' in state and method == 'Study.from_owner_and_id':
        calls[method] = lambda: clients.Study.from_owner_and_id(owner, sid)
    return calls[method], client


def run_case(case, label, datastore=None):
    try:
        f, client = build(case, label)
    except BaseException as e:  # noqa: BLE001
        return {'setup_error': '%s: %s' % (type(e).__name__, str(e)[:300]), 'trace': traceback.format_exc()[-600:]}
    if f is None:
        return {'unsupported': True}
    before = digest(client, datastore) if client is not None else {'unreadable': True}
    res = describe(f)
    after = digest(client, datastore) if client is not None else {'unreadable': True}
    return {'result': res, 'before': before, 'after': after}


def main(argv=None):
    ap = argparse.ArgumentParser()
    ap.add_argument('--cases')
    ap.add_argument('--out')
    ap.add_argument('--case', nargs='+')
    ap.add_argument('--variant', help='succeeded | twice | after_complete | on_trial | grid_after_delete')
    ap.add_argument('--deployments', default='L,R')
    a = ap.parse_args(argv)
    if a.case:
        cases = [{'id': 'cli', 'method': a.case[0], 'state': a.case[1:]}]
        if a.variant:
            cases[0]['variant'] = a.variant
    else:
        cases = json.load(open(a.cases))
    deployments = [d for d in a.deployments.split(',') if d]
    snapshot = env.repo_clean_snapshot()
    vizier_client.environment_variables.servicer_use_sql_ram()          # never the default database file
    vizier_client.environment_variables.new_suggestion_polling_secs = 0.0
    out = {'cases': {}, 'deployments': {}, 'repo': env.REPO}
    servers = {}
    ev = vizier_client.environment_variables
    for d in deployments:
        # upper case letter = deployment; suffix 'r' = NestedDictRAMDataStore instead of SQL in memory
        url = None if d.endswith('r') else constants.SQL_MEMORY_URL
        try:
            if d[0] == 'L':
                ev.server_endpoint = constants.NO_ENDPOINT
                ev.servicer_kwargs['database_url'] = url               # explicit: never the default file
                vizier_client._create_local_vizier_servicer.cache_clear()
                datastore = vizier_client._create_local_vizier_servicer().datastore
            elif d[0] == 'R':
                servers[d] = vizier_server.DefaultVizierServer(database_url=url)
                ev.server_endpoint = servers[d].endpoint
                datastore = servers[d].datastore
            elif d[0] == 'P':
                servers[d] = vizier_server.DistributedPythiaVizierServer(database_url=url)
                ev.server_endpoint = servers[d].endpoint
                datastore = servers[d].datastore
            else:
                continue
            out['deployments'][d] = 'up'
        except BaseException as e:  # noqa: BLE001
            out['deployments'][d] = 'unavailable: %s: %s' % (type(e).__name__, str(e)[:200])
            continue
        for c in cases:
            out['cases'].setdefault(c['id'], {'case': c})[d] = run_case(c, d.lower(), datastore)
    ev.server_endpoint = constants.NO_ENDPOINT
    ev.servicer_kwargs['database_url'] = constants.SQL_MEMORY_URL
    vizier_client._create_local_vizier_servicer.cache_clear()
    after = env.repo_clean_snapshot()
    out['repo_unchanged'] = (after == snapshot)
    if a.out:
        with open(a.out, 'w') as f:
            json.dump(out, f, indent=1, default=str)
    if a.case:
        print(json.dumps(out, indent=1, default=str))
    print('C08-REPLAY cases=%d deployments=%s repo_unchanged=%s' % (len(cases), out['deployments'], out['repo_unchanged']))
    for s in servers.values():
        try:
            s._server.stop(None)
            if hasattr(s, '_pythia_server'):
                s._pythia_server.stop(None)
        except Exception:  # noqa: BLE001
            pass
    return 0 if out['repo_unchanged'] else 4


if __name__ == '__main__':
    sys.exit(main())
