"""Replay driver of the C03 check (runs under /venv/bin/python on the REAL code of $VERIF_REPO; never decides anything).

usage:  c03_replay.py <job.json>     one counter-model (written by contracts/c03.py)
        c03_replay.py findings       witness of the recorded finding (DESIGN 10 row 18)
        c03_replay.py builder_model  cross-check of the SequentialParameterBuilder contract used by the proof (flat spaces)
        c03_replay.py standin TIER   bounded stand-in: the three designers + RandomPolicy on generated flat spaces
Prints one JSON line and then REPRODUCED / NOT-REPRODUCED.
"""
import itertools
import json
import math
import sys

sys.path.insert(0, '/verif/replay')
import env  # noqa: E402,F401
import c15_replay as R15  # noqa: E402

import numpy as np  # noqa: E402
from vizier import pyvizier as vz  # noqa: E402

dec, make_pc, member = R15.dec, R15.make_pc, R15.member


class ScriptedRng:
    """numpy Generator stand-in that returns the values of the counter-model (inside the assumed contracts)"""

    def __init__(self, draws):
        self.draws = list(draws)

    def uniform(self, low=0.0, high=1.0):
        return self.draws.pop(0) if self.draws else low

    def choice(self, xs):
        i = int(self.draws.pop(0)) if self.draws else 0
        return xs[max(0, min(len(xs) - 1, i))]

    def binomial(self, n, p):
        return 0


def job_random_sample(job):
    from vizier._src.algorithms.random import random_sample as rs
    f = job['function']
    rng = ScriptedRng([dec(d) for d in job.get('draws', [])])
    out = {'function': f}
    bad = False
    try:
        if f == 'sample_uniform':
            lo, hi = dec(job['lo']), dec(job['hi'])
            r = rs.sample_uniform(rng, lo, hi)
            bad = not (lo <= r <= hi)
        elif f == 'sample_integer':
            lo, hi = dec(job['lo']), dec(job['hi'])
            r = rs.sample_integer(rng, lo, hi)
            bad = not (isinstance(r, int) and lo <= r <= hi)
        elif f == 'get_closest_element':
            xs, v = [dec(x) for x in job['array']], dec(job['value'])
            r = rs.get_closest_element(xs, v)
            bad = not (any(r == x and type(r) is type(x) for x in xs) and all(abs(r - v) <= abs(x - v) for x in xs))
        elif f in ('sample_categorical', 'sample_discrete'):
            pc = make_pc(job['pc'])
            r = getattr(rs, f)(rng, pc.feasible_values)
            bad = not member(pc, r)
        elif f == '_sample_value':
            pc = make_pc(job['pc'])
            r = rs._sample_value(rng, pc)
            bad = not member(pc, r) or (pc.type == vz.ParameterType.INTEGER and not isinstance(r, int))
        else:
            raise KeyError(f)
        out['result'] = repr(r)
    except Exception as e:  # noqa: BLE001
        out['raised'] = '%s: %s' % (type(e).__name__, str(e)[:200])
        bad = True
    return out, bad


def job_default(job):
    from vizier._src.pythia import suggest_default as sd
    spec = job['pc']
    kw = {}
    if job.get('default') is not None:
        kw['default_value'] = dec(job['default'])
    name = spec.get('name') or 'p'
    if spec['ptype'] in ('DOUBLE', 'INTEGER'):
        lo, hi = dec(spec['bounds'][0]), dec(spec['bounds'][1])
        if spec['ptype'] == 'DOUBLE':
            lo, hi = float(lo), float(hi)
        if spec.get('scale'):
            kw['scale_type'] = R15.SCALES[spec['scale']]
        pc = vz.ParameterConfig.factory(name, bounds=(lo, hi), **kw)
    else:
        fv = [dec(x) for x in spec['feasible']]
        pc = vz.ParameterConfig.factory(name, feasible_values=[float(x) for x in fv] if spec['ptype'] == 'DISCRETE' else fv, **kw)
    ss = vz.SearchSpace()
    ss.add(pc)
    out = {'default': repr(kw.get('default_value'))}
    try:
        p = sd.get_default_parameters(ss)
    except Exception as e:  # noqa: BLE001
        out['raised'] = '%s: %s' % (type(e).__name__, str(e)[:160])
        dv = kw.get('default_value')
        return out, not (dv is not None and not member(pc, dv))
    out['parameters'] = {k: repr(v.value) for k, v in p.items()}
    ok = list(p.keys()) == [name] and member(pc, p[name]) and ss.contains(p) == member(pc, p[name])
    return out, not ok


def default_grid(tier='quick'):
    """default / centre seeding over degenerate and ordinary DOUBLE ranges x scale types (bounded; used as stand-in and as the native
    model search of the get_default_parameters obligations)"""
    import numpy as _np
    base = [0.1, 10.0, 1e-5, 3.0, 1.0 / 3, 7e-3, 1e10, 123456.789, 2.0 ** -20, 0.7, 1e-300, 1e300]
    if tier != 'quick':
        base += [float(x) for x in _np.random.RandomState(0).lognormal(0, 8, size=60)]
    found, runs = {}, 0
    for scale in (None, 'LINEAR', 'LOG', 'REVERSE_LOG'):
        for lo in base:
            for hi in (lo, float(_np.nextafter(lo, _np.inf)), lo * (1 + 1e-9), lo * 2, lo * 1e6):
                if not (math.isfinite(hi) and hi >= lo):
                    continue
                job = {'kind': 'default', 'pc': {'ptype': 'DOUBLE', 'bounds': [R15.enc(lo), R15.enc(hi)], 'scale': scale}, 'default': None}
                runs += 1
                out, bad = job_default(job)
                if bad:
                    clause = 'refuses_only_infeasible_default' if 'raised' in out else 'in_domain'
                    found.setdefault('%s.DOUBLE.%scentre' % (clause, '' if scale is None else scale + '.'), {'job': job, 'output': out})
    for lo in (-3.0, 0.0):          # non-positive ranges with a log scale type: arithmetic centre
        for scale in ('LOG', 'REVERSE_LOG', None):
            job = {'kind': 'default', 'pc': {'ptype': 'DOUBLE', 'bounds': [R15.enc(lo), R15.enc(lo + 2.0)], 'scale': scale}, 'default': None}
            runs += 1
            out, bad = job_default(job)
            if bad:
                found.setdefault('in_domain.DOUBLE.%scentre' % ('' if scale is None else scale + '.'), {'job': job, 'output': out})
    return {'kind': 'default', 'runs': runs, 'found': found}, bool(found)


def job_grid(job):
    from vizier._src.algorithms.designers import grid
    pc = make_pc(job['pc'])
    ss = vz.SearchSpace()
    ss.add(pc)
    out = {}
    with np.errstate(all='ignore'):
        try:
            g = grid.GridSearchDesigner(ss, double_grid_resolution=int(job.get('resolution', 10)))
            pts = g._grid_points_from_parameter_config(pc)
        except Exception as e:  # noqa: BLE001
            out['raised'] = '%s: %s' % (type(e).__name__, str(e)[:160])
            allowed = isinstance(e, ValueError) and job['pc'].get('scale') in ('LOG', 'REVERSE_LOG') and pc.type == vz.ParameterType.DOUBLE \
                and (pc.bounds[0] <= 0 or pc.bounds[1] <= 0)
            return out, not allowed
    out['points'] = [R15.show(x) for x in pts][:20]
    bad = (not pts) or any(x is not None and not member(pc, x) for x in pts)
    return out, bad


def job_halton(job):
    from vizier._src.algorithms.designers import quasi_random as qr
    from vizier.pyvizier.converters import core
    n = int(job['n'])
    pc = vz.ParameterConfig.factory('c', feasible_values=['v%03d' % i for i in range(n)])
    spec = core.NumpyArraySpec.from_parameter_config(pc, core.NumpyArraySpecType.default_factory, pad_oovs=bool(job.get('pad_oovs', True)))
    d = qr.QuasiRandomDesigner.__new__(qr.QuasiRandomDesigner)
    r = d._generate_discrete_point(spec, float(dec(job['halton'])))
    return {'index': int(r), 'n': n}, not (0 <= r < n)


def job_factory(job):
    from vizier._src.service import policy_factory as pf
    alg = job['algorithm']
    out = {'algorithm': alg}
    try:
        pol = pf.DefaultPolicyFactory()(vz.ProblemStatement(), alg, None, 'study')
        out['policy'] = type(pol).__name__
        return out, alg not in job['table']
    except ValueError as e:
        out['raised'] = 'ValueError: %s' % str(e)[:100]
        return out, alg in job['table']
    except Exception as e:  # noqa: BLE001
        out['raised'] = '%s: %s' % (type(e).__name__, str(e)[:160])
        return out, alg not in job.get('unimportable', [])


def job_guard(job):
    """does the designer refuse a conditional search space?"""
    import importlib
    mod = importlib.import_module(job['module'])
    ss = vz.SearchSpace()
    root = ss.root.add_categorical_param('c', ['a', 'b'])
    root.select_values(['a']).add_float_param('x', 0.0, 1.0)
    assert ss.is_conditional
    try:
        getattr(mod, job['designer'])(ss)
    except ValueError as e:
        return {'raised': 'ValueError: %s' % str(e)[:80]}, False
    except Exception as e:  # noqa: BLE001
        return {'raised': '%s: %s' % (type(e).__name__, str(e)[:120])}, True
    return {'constructed': True}, True


def job_harmonica(job):
    """HarmonicaDesigner on a one-parameter categorical space with the counter-model's categories: accepted? then 10 warm-up trials and one
    model-based suggestion, which must lie in the space"""
    from vizier._src.algorithms.designers import harmonica
    from vizier import algorithms as vza
    fv = list(dict.fromkeys(job['feasible']))
    p = vz.ProblemStatement(metric_information=[vz.MetricInformation('m', goal=vz.ObjectiveMetricGoal.MAXIMIZE)])
    p.search_space.root.add_categorical_param('c', fv)
    out = {'feasible': fv}
    try:
        d = harmonica.HarmonicaDesigner(p)
    except ValueError as e:
        out['refused'] = str(e)[:80]
        return out, False
    np.random.seed(0)
    bad = False
    for i in range(12):
        s = d.suggest(1)[0]
        ok = p.search_space.contains(s.parameters)
        out['suggestion_%d' % i] = [dict(s.parameters.as_dict()), ok]
        bad = bad or not ok
        t = s.to_trial(i + 1)
        t.complete(vz.Measurement({'m': float(i % 3)}))
        d.update(vza.CompletedTrials([t]), vza.ActiveTrials())
    return out, bad


def findings():
    """DESIGN 10 row 18: a configured default outside the bounds of a DOUBLE parameter is accepted by ParameterConfig.factory and is
    what get_default_parameters / seed_with_default suggests first."""
    from vizier._src.pythia import suggest_default as sd
    pc = vz.ParameterConfig.factory('x', bounds=(0.0, 1.0), default_value=5.0)
    ss = vz.SearchSpace()
    ss.add(pc)
    p = sd.get_default_parameters(ss)
    res = {'default_parameters': {k: v.value for k, v in p.items()}, 'contains': ss.contains(p)}
    # LOG scale with lower bound 0 (recorded under C03.scaler_from_spec.log_of_positive.*, fixed by b9fc0fc): before the fix the
    # suggestions omitted the parameter; since the fix the designer refuses the space with ValueError
    from vizier._src.algorithms.designers import random as rd
    ss2 = vz.SearchSpace()
    ss2.root.add_float_param('d', 0.0, 10.0, scale_type=vz.ScaleType.LOG)
    ss2.root.add_int_param('i', 0, 3)
    try:
        with np.errstate(all='ignore'):
            sug = rd.RandomDesigner(ss2, seed=1).suggest(2)
        res['log_zero_bound_suggestions'] = [dict(s.parameters.as_dict()) for s in sug]
        res['log_zero_bound_incomplete'] = not any(ss2.contains(s.parameters) for s in sug)
    except ValueError as e:
        res['log_zero_bound_refused'] = 'ValueError: %s' % str(e)[:80]
        res['log_zero_bound_incomplete'] = False
    res['row18_reproduced'] = not res['contains']
    return res, res['row18_reproduced']


def builder_model():
    """the contract of SequentialParameterBuilder used by the proof, on flat spaces: visits search_space.parameters in order;
    choose_value(v) validates v with ParameterConfig.get_subspace_deepcopy(v) and stores parameters[name] = v"""
    pcs = [vz.ParameterConfig.factory('a', bounds=(0.0, 2.0)), vz.ParameterConfig.factory('b', bounds=(1, 4)),
           vz.ParameterConfig.factory('c', feasible_values=[1.0, 2.5, 7.0]), vz.ParameterConfig.factory('d', feasible_values=['x', 'y'])]
    choices = {'a': [0.5, 9.0], 'b': [2, 9], 'c': [2.5, 3.0], 'd': ['x', 'zz']}
    bad, runs = [], 0
    for k in range(1, 5):
        for sub in itertools.permutations(pcs, k):
            for vals in itertools.product(*[choices[p.name] for p in sub]):
                runs += 1
                ss = vz.SearchSpace()
                for p in sub:
                    ss.add(p)
                # expectation from the contract
                exp, exp_err = {}, None
                for p, v in zip(sub, vals):
                    try:
                        p.get_subspace_deepcopy(v)
                    except Exception as e:  # noqa: BLE001
                        exp_err = type(e).__name__
                        break
                    exp[p.name] = v
                got, got_err, visited = None, None, []
                try:
                    b = vz.SequentialParameterBuilder(ss)
                    it = iter(vals)
                    for pc in b:
                        visited.append(pc.name)
                        b.choose_value(next(it))
                    got = {kk: vv.value for kk, vv in b.parameters.items()}
                except Exception as e:  # noqa: BLE001
                    got_err = type(e).__name__
                if exp_err != got_err or (exp_err is None and (got != exp or visited != [p.name for p in sub])):
                    bad.append({'space': [p.name for p in sub], 'values': [repr(v) for v in vals], 'expected': [exp, exp_err], 'got': [got, got_err, visited]})
    return {'runs': runs, 'disagreements': bad[:3]}, bool(bad)


def _param_pool(tier):
    S = vz.ScaleType
    pool = [
        ('f_unit', lambda r: r.add_float_param('f_unit', 0.0, 1.0)),
        ('f_neg', lambda r: r.add_float_param('f_neg', -7.5, -2.25, scale_type=S.LINEAR)),
        ('f_single', lambda r: r.add_float_param('f_single', 3.5, 3.5)),
        ('f_huge', lambda r: r.add_float_param('f_huge', -1e300, 1e300)),
        ('f_tiny', lambda r: r.add_float_param('f_tiny', 1e-300, 3e-300)),
        ('f_log', lambda r: r.add_float_param('f_log', 1e-4, 1e2, scale_type=S.LOG)),
        ('f_log_narrow', lambda r: r.add_float_param('f_log_narrow', 5.0, 5.000001, scale_type=S.LOG)),
        ('f_rlog', lambda r: r.add_float_param('f_rlog', 0.5, 64.0, scale_type=S.REVERSE_LOG)),
        # ranges whose end points do not survive (lo + hi) - hi / exp(log(.)) in floating point
        ('f_rlog_a', lambda r: r.add_float_param('f_rlog_a', 1e-4, 1.0, scale_type=S.REVERSE_LOG)),
        ('f_rlog_b', lambda r: r.add_float_param('f_rlog_b', 0.1, 0.9, scale_type=S.REVERSE_LOG)),
        ('f_rlog_c', lambda r: r.add_float_param('f_rlog_c', 1e-5, 3e-5, scale_type=S.REVERSE_LOG)),
        ('f_log_a', lambda r: r.add_float_param('f_log_a', 1e-4, 1.0, scale_type=S.LOG)),
        ('f_log_b', lambda r: r.add_float_param('f_log_b', 0.1, 0.3, scale_type=S.LOG)),
        ('f_default', lambda r: r.add_float_param('f_default', 0.0, 10.0, default_value=2.5)),
        ('i_zero_width', lambda r: r.add_int_param('i_zero_width', 4, 4)),
        ('i_small', lambda r: r.add_int_param('i_small', -2, 3)),
        ('i_wide', lambda r: r.add_int_param('i_wide', 0, 40)),
        ('i_log', lambda r: r.add_int_param('i_log', 1, 1000, scale_type=S.LOG)),
        ('d_one', lambda r: r.add_discrete_param('d_one', [2.5])),
        ('d_three', lambda r: r.add_discrete_param('d_three', [0.1, 1.0, 10.0])),
        ('d_many', lambda r: r.add_discrete_param('d_many', [float(i * i) - 30 for i in range(12)])),
        ('c_one', lambda r: r.add_categorical_param('c_one', ['only'])),
        ('c_three', lambda r: r.add_categorical_param('c_three', ['a', 'b', 'c'])),
        ('b', lambda r: r.add_bool_param('b')),
    ]
    return pool if tier != 'quick' else [p for p in pool if p[0] not in ('f_log_narrow', 'i_log', 'd_one', 'c_one')]


def standin(tier):
    """bounded stand-in (DESIGN 2.8b): RandomDesigner, QuasiRandomDesigner, GridSearchDesigner (plain / shuffled) and the default seeding on
    generated flat spaces; every suggestion must assign each parameter exactly once with a value inside its domain (SearchSpace.contains,
    whose equivalence with the oracle is proved by C16, plus an independent per-parameter check)."""
    from vizier._src.algorithms.designers import random as rd, quasi_random as qr, grid
    from vizier._src.pythia import suggest_default as sd
    pool = _param_pool(tier)
    spaces = [[p] for p in pool]
    spaces += [list(c) for c in itertools.combinations(pool, 2)][:: (7 if tier == 'quick' else 2)]
    spaces += [pool[i::4] for i in range(4)] + [pool]
    fails, refusals, runs = [], [], 0
    with np.errstate(all='ignore'):
        for members in spaces:
            ss = vz.SearchSpace()
            for _, add in members:
                add(ss.root)
            names = sorted(p.name for p in ss.parameters)
            designers = [('RandomDesigner', lambda: rd.RandomDesigner(ss, seed=3)), ('QuasiRandomDesigner', lambda: qr.QuasiRandomDesigner(ss, seed=3)),
                         ('GridSearchDesigner', lambda: grid.GridSearchDesigner(ss)), ('ShuffledGrid', lambda: grid.GridSearchDesigner(ss, shuffle_seed=5))]
            for dn, mk in designers:
                for count in (1, 3) if tier == 'quick' else (1, 2, 7):
                    runs += 1
                    try:
                        sugs = [s.parameters for s in mk().suggest(count)]
                    except Exception as e:  # noqa: BLE001  (a refusal is allowed by the property; recorded, not a failure)
                        refusals.append({'designer': dn, 'space': names, 'what': 'raised %s: %s' % (type(e).__name__, str(e)[:60])})
                        continue
                    if len(sugs) != count:
                        fails.append({'designer': dn, 'space': names, 'what': '%d suggestions for count=%d' % (len(sugs), count)})
                    for p in sugs:
                        per = {pc.name: (pc.name in p and member(pc, p[pc.name])) for pc in ss.parameters}
                        if sorted(p.keys()) != names or not all(per.values()) or not ss.contains(p):
                            fails.append({'designer': dn, 'space': names, 'what': 'suggestion %r not in the space' % (dict(p.as_dict()),)})
            runs += 1
            p = sd.get_default_parameters(ss)
            if sorted(p.keys()) != names or not ss.contains(p):
                fails.append({'designer': 'get_default_parameters', 'space': names, 'what': 'default %r not in the space' % (dict(p.as_dict()),)})
    dres, dbad = default_grid(tier)
    runs += dres['runs']
    for k, hit in dres['found'].items():
        fails.append({'designer': 'get_default_parameters', 'space': hit['job']['pc'], 'what': '%s: %s' % (k, json.dumps(hit['output'])[:200])})
    return {'spaces': len(spaces), 'runs': runs, 'default_seeding_runs': dres['runs'], 'n_failures': len(fails), 'failures': fails[:5], 'n_refusals': len(refusals),
            'refusal_examples': refusals[:2]}, bool(fails)


JOBS = {'harmonica': job_harmonica, 'guard': job_guard, 'random_sample': job_random_sample, 'default': job_default, 'grid': job_grid, 'halton': job_halton, 'factory': job_factory,
        'tpv': R15.job_tpv}


def main():
    snap = env.repo_clean_snapshot()
    a = sys.argv[1]
    if a == 'findings':
        res, bad = findings()
    elif a == 'builder_model':
        res, bad = builder_model()
    elif a == 'search':
        res, bad = default_grid(sys.argv[3] if len(sys.argv) > 3 else 'quick') if sys.argv[2] == 'default' else ({'found': {}}, False)
    elif a == 'standin':
        res, bad = standin(sys.argv[2] if len(sys.argv) > 2 else 'quick')
    else:
        job = json.load(open(a))['job']
        try:
            res, bad = JOBS[job['kind']](job)
        except R15.Refused as r:
            res, bad = {'constructor_raised': str(r), 'clauses': {'refuses_only_nonpositive_log_bounds': not r.bad}}, r.bad
    assert env.repo_clean_snapshot() == snap, 'replay modified the repository'
    print(json.dumps(res, default=repr))
    print('REPRODUCED' if bad else 'NOT-REPRODUCED')


if __name__ == '__main__':
    main()
