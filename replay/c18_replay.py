"""C18 replay driver: runs label arrays through the REAL output warpers ($VERIF_REPO) and evaluates the clauses of contracts/c18.py natively.

usage (under /venv/bin/python):
    c18_replay.py witness                      -> {"witness": {<finding key>: {"reproduced": bool, "observed": ..., "expected": ...}}}
    c18_replay.py falsify  < {"runner":..., "clause":..., "cases":[optional explicit label lists], "params": {...}}
                                               -> {"found": bool, "input": [...], "params": {...}, "observed": ...}   (first failing input)
A clause evaluates to True (holds), False (violated on this input) or None (not applicable / not evaluated natively).
The battery is deterministic.  Floating point: equalities of warped values are exact; inverse clauses use a relative tolerance of 1e-9.
"""
import itertools
import json
import math
import os
import sys
import warnings

HERE = os.path.dirname(os.path.abspath(__file__))
sys.path.insert(0, HERE)
import env  # noqa: E402,F401

warnings.simplefilter('ignore')
import numpy as np  # noqa: E402

np.seterr(all='ignore')
from vizier._src.algorithms.designers.gp import output_warpers as ow  # noqa: E402

NAN, NINF, PINF = float('nan'), float('-inf'), float('inf')


def col(xs):
    return np.array([float(x) for x in xs], dtype=float).reshape(len(xs), 1)


def validated(xs):
    return [NAN if x == NINF else float(x) for x in xs]


def same(a, b):
    """bitwise-ish equality of two float lists (NaN == NaN)"""
    a, b = list(a), list(b)
    return len(a) == len(b) and all((math.isnan(x) and math.isnan(y)) or x == y for x, y in zip(a, b))


def flat(a):
    return [float(v) for v in np.asarray(a, dtype=float).ravel()]


def fin(x):
    return math.isfinite(x)


def close(a, b, rtol=1e-9, scale=1.0):
    """equality up to rounding: relative to the larger of the two values and of `scale` (the magnitude of the data the value was computed
    from: cancellation against a large label is rounding, which the verification treats as exact arithmetic)"""
    return abs(a - b) <= rtol * max(1.0, abs(a), abs(b), scale)


def scale_of(ys):
    return max([abs(v) for v in ys if math.isfinite(v)] or [1.0])


def pairs(n):
    return [(i, j) for i in range(n) for j in range(n) if i != j]


# ------------------------------------------------------------------------------------------ battery
def battery(with_pinf=False, with_nan=True, min_len=1, max_len=6, limit=700):
    pool = [0.0, 1.0, 2.0, 2.0, 3.0, 5.0, -1.0, 0.5, 7.25, -4.0]
    extreme = [1e6, -1e9, 1e-3, 123456.789]
    special = ([NAN, NINF] if with_nan else []) + ([PINF] if with_pinf else [])
    out, seen = [], set()

    def add(xs):
        k = tuple('n' if isinstance(x, float) and math.isnan(x) else x for x in xs)
        if min_len <= len(xs) <= max_len and k not in seen:
            seen.add(k)
            out.append(list(xs))
    fixed = [[1.0], [NAN], [NINF], [3.0, 3.0], [3.0, NAN], [NAN, NAN], [1.0, 2.0], [2.0, 1.0], [1.0, 2.0, 2.0, NAN, -1e9, 5.0], [1.0, 2.0, 3.0, 3.0, 3.0],
             [0.0, 1.0, 2.0, 1e6, 1e6 + 0.001, 1e6 + 0.002, 1e6 + 0.003], [3.0, 1.0, 2.0], [5.0, 5.0, 5.0, 1.0], [1.0, 1.0, 1.0, 2.0, 3.0],
             [-1e9, 1.0, 2.0, 3.0, 4.0, 5.0], [1.0, NINF, 2.0, 0.0], [2.0, 2.0, NAN, NAN], [0.0, 0.0, 0.0], [-1.0, -1.0], [0.0], [-1.0], [4.0, 3.0, 2.0, 1.0, 0.0, -1.0],
             [1.0, 2.0, 3.0, 4.0, 5.0, 6.0, 7.0], [10.0, 20.0, NAN, 5.0, 1.0, 2.0], [1.0, 1.0, 2.0, 2.0, 3.0, 3.0],
             # more than half of the labels tied at the maximum (median == max) with smaller labels; median == max == 0
             [1.0, 1.0, 1.0, 0.5, 0.9], [2.0, 2.0, 2.0, 2.0, 1.0], [0.0, 0.0, -0.1], [0.0, 0.0, 0.0, -1.0, -2.0], [5.0, 5.0, 5.0, 1.0, 2.0, 3.0],
             [0.0, 0.0, -1.0], [7.0, 7.0, 3.0], [1.0, 1.0, 1.0, 0.5, 0.9, NAN]]
    if with_pinf:
        fixed += [[PINF], [1.0, PINF], [PINF, NAN, 2.0]]
    for xs in fixed:
        if with_nan or not any(isinstance(x, float) and (math.isnan(x) or x == NINF) for x in xs):
            add(xs)
    rng = np.random.RandomState(18)
    vals = pool + extreme + special
    while len(out) < limit:
        n = int(rng.randint(min_len, max_len + 1))
        xs = [vals[int(rng.randint(len(vals)))] for _ in range(n)]
        if rng.rand() < 0.3:
            xs = [float(np.round(rng.randn() * 10 ** rng.randint(-1, 4), 3)) for _ in range(n)]
            if with_nan and rng.rand() < 0.5:
                xs[int(rng.randint(n))] = NAN
        add(xs)
    return out[:limit]


# ------------------------------------------------------------------------------------------ runners: labels, params -> {clause: True|False|None}, observed
def _frame(inp, before):
    return same(flat(inp), before)


def call(fn):
    try:
        return ('ok', fn())
    except Exception as e:  # noqa: BLE001
        return ('raise', e)


def _raise_clause(kind, val, xs, allowed=()):
    """raises_only_documented"""
    if kind != 'raise':
        return True
    if isinstance(val, ValueError):
        msg = str(val)
        if 'Infinity' in msg:
            return PINF in xs
        for frag, cond in allowed:
            if frag in msg:
                return bool(cond)
    return False


def r_validate(xs, params):
    a = col(xs)
    before = flat(a)
    kind, val = call(lambda: ow._validate_labels(a))
    c = {'raises_only_documented': _raise_clause(kind, val, xs)}
    if kind == 'ok':
        c['returns_fresh_copy'] = (val is not a) and not np.shares_memory(val, a) and _frame(a, before)
        c['shape_preserved'] = val.shape == a.shape
        c['neginf_to_nan_rest_unchanged'] = same(flat(val), validated(xs))
        c['posinf_rejected'] = PINF not in xs
    else:
        c['returns_fresh_copy'] = _frame(a, before)
    return c, repr(val)


def r_validate_rank1(xs, params):
    a = np.array(xs, dtype=float)
    before = flat(a)
    kind, val = call(lambda: ow._validate_labels(a))
    return {'rank1_rejected': kind == 'raise' and isinstance(val, ValueError) and _frame(a, before)}, repr(val)


def _order_clauses(y, o, strict=True):
    n = len(y)
    c = {}
    c['order'] = all(not (fin(y[i]) and fin(y[j]) and y[i] < y[j]) or (o[i] < o[j] if strict else o[i] <= o[j]) for i, j in pairs(n))
    c['ties'] = all(not (fin(y[i]) and fin(y[j]) and y[i] == y[j]) or (o[i] == o[j] or (math.isnan(o[i]) and math.isnan(o[j]))) for i, j in pairs(n))
    return c


def r_infeasible(xs, params):
    a = col(xs)
    before = flat(a)
    w = ow.InfeasibleWarperComponent()
    kind, val = call(lambda: w.warp(a))
    c = {'raises_only_documented': _raise_clause(kind, val, xs), 'input_not_modified': _frame(a, before)}
    if kind == 'ok':
        y, o = validated(xs), flat(val)
        n = len(y)
        c['input_not_modified'] = c['input_not_modified'] and not np.shares_memory(val, a)
        c['shape_preserved'] = val.shape == a.shape
        c['all_outputs_finite'] = all(fin(v) for v in o)
        c['infeasible_strictly_below_feasible'] = all(not (math.isnan(y[i]) and fin(y[j])) or o[i] < o[j] for i, j in pairs(n))
        feas = [i for i in range(n) if fin(y[i])]
        c['feasible_shifted_by_common_constant'] = all(close(o[i] - y[i], o[feas[0]] - y[feas[0]], 1e-7, scale_of(y)) for i in feas) if feas else True
        oc = _order_clauses(y, o)
        c['order_and_ties_of_feasible_preserved'] = oc['order'] and oc['ties']
        c['infeasible_entries_tie'] = all(not (math.isnan(y[i]) and math.isnan(y[j])) or o[i] == o[j] for i, j in pairs(n))
    return c, repr(val)


def r_infeasible_roundtrip(xs, params):
    a = col(xs)
    w = ow.InfeasibleWarperComponent()
    kind, val = call(lambda: w.warp(a))
    if kind != 'ok':
        return {'raises_only_documented': _raise_clause(kind, val, xs)}, repr(val)
    wb = flat(val)
    kind2, u = call(lambda: w.unwarp(val))
    c = {'raises_only_documented': kind2 == 'ok'}
    if kind2 == 'ok':
        y, o = validated(xs), flat(u)
        c['shape_preserved'] = u.shape == a.shape
        c['unwarp_does_not_modify_its_input'] = same(flat(val), wb)
        c['unwarp_inverts_warp_on_feasible'] = all(not fin(y[i]) or close(o[i], y[i], 1e-7, scale_of(y)) for i in range(len(y)))
    return c, repr(u)


def r_unwarp_first(cls):
    def run(xs, params):
        kind, val = call(lambda: cls().unwarp(col(xs)))
        return {'unwarp_before_warp_rejected': kind == 'raise' and isinstance(val, ValueError)}, repr(val)
    return run


def r_log(xs, params):
    a = col(xs)
    before = flat(a)
    off = params.get('offset', 1.5)
    w = ow.LogWarperComponent(offset=off)
    kind, val = call(lambda: w.warp(a))
    c = {'raises_only_documented': _raise_clause(kind, val, xs), 'input_not_modified': _frame(a, before)}
    if kind == 'ok':
        y, o = validated(xs), flat(val)
        n = len(y)
        c['input_not_modified'] = c['input_not_modified'] and not np.shares_memory(val, a)
        c['shape_preserved'] = val.shape == a.shape
        c['nan_untouched'] = all(not math.isnan(y[i]) or math.isnan(o[i]) for i in range(n))
        oc = _order_clauses(y, o)
        c['strictly_increasing_on_finite'] = oc['order']
        c['ties_preserved'] = oc['ties']
        c['finite_to_finite'] = all(not fin(y[i]) or fin(o[i]) for i in range(n))
        c['finite_to_finite_given_two_distinct_labels'] = c['finite_to_finite'] or len({v for v in y if fin(v)}) < 2
        c['output_finite_or_nan'] = all(fin(v) or math.isnan(v) for v in o)
    return c, repr(val)


def r_log_roundtrip(xs, params):
    a = col(xs)
    w = ow.LogWarperComponent(offset=params.get('offset', 1.5))
    kind, val = call(lambda: w.warp(a))
    if kind != 'ok':
        return {'raises_only_documented': _raise_clause(kind, val, xs)}, repr(val)
    wb = flat(val)
    kind2, u = call(lambda: w.unwarp(val))
    c = {'raises_only_documented': kind2 == 'ok'}
    if kind2 == 'ok':
        y, o = validated(xs), flat(u)
        c['shape_preserved'] = u.shape == a.shape
        c['unwarp_does_not_modify_its_input'] = same(flat(val), wb)
        c['unwarp_inverts_warp_on_finite'] = all(not fin(y[i]) or (fin(o[i]) and close(o[i], y[i], 1e-7, scale_of(y))) for i in range(len(y)))
    return c, repr(u)


def r_halfrank(xs, params):
    a = col(xs)
    before = flat(a)
    w = ow.HalfRankComponent()
    kind, val = call(lambda: w.warp(a))
    c = {'raises_only_documented': _raise_clause(kind, val, xs), 'input_not_modified': _frame(a, before)}
    if kind == 'ok':
        y, o = validated(xs), flat(val)
        n = len(y)
        fy = [v for v in y if fin(v)]
        med = float(np.nanmedian(np.array(y))) if fy else NAN
        c['input_not_modified'] = c['input_not_modified'] and not np.shares_memory(val, a)
        c['shape_preserved'] = val.shape == a.shape
        c['nan_untouched'] = all(not math.isnan(y[i]) or math.isnan(o[i]) for i in range(n))
        c['top_half_unchanged'] = all(not (fin(y[i]) and y[i] >= med) or o[i] == y[i] for i in range(n)) if n > 1 else same(o, y)
        c['below_median_mapped_strictly_below'] = all(not (fin(y[i]) and y[i] < med) or (fin(o[i]) and o[i] < med) for i in range(n)) if n > 1 else True
        c['finite_to_finite'] = all(not fin(y[i]) or fin(o[i]) for i in range(n))
        oc = _order_clauses(y, o)
        c['order_of_finite_preserved'] = oc['order']
        c['ties_preserved'] = oc['ties']
        c['output_finite_or_nan'] = all(fin(v) or math.isnan(v) for v in o)
        if n > 1 and fy:              # (size 1 / no finite label: warp returns early and saves nothing)
            uw = w._unwarper
            c['unwarper_saved'] = uw is not None
            if uw is not None:
                ol, wl = flat(uw._original_labels), flat(uw._warped_labels)
                uniq = sorted(set(fy))
                c['unwarper_table_sizes'] = len(ol) == len(uniq) and len(wl) == len(uniq)
                c['unwarper_originals_strictly_ascending'] = ol == uniq
                c['unwarper_table_pairs_observed_label_with_its_warped_value'] = all(
                    any(y[p] == ol[t] and (o[p] == wl[t] or (math.isnan(o[p]) and math.isnan(wl[t]))) for p in range(n)) for t in range(len(ol)))
                om = float(uw._original_label_median)
                c['unwarper_saved_median_at_most_largest_warped'] = (not wl) or om <= wl[-1]
                if all(fin(v) for v in y):
                    c['unwarper_tables_consistent_with_saved_median'] = all((wl[t] == ol[t]) if ol[t] >= om else (wl[t] < om) for t in range(len(ol)))
    return c, repr(val)


def r_goodstd(xs, params):
    u = np.array(sorted({v for v in xs if fin(v)}), dtype=float)
    if len(u) == 0:
        return {}, 'no finite value'
    thr = float(np.nanmedian(np.array([v for v in xs if fin(v)]))) if params.get('thr') is None else float(params['thr'])   # the threshold warp passes
    if not (u >= thr).any():
        return {}, 'no label >= threshold'
    before = flat(u)
    kind, val = call(lambda: ow.HalfRankComponent()._estimate_std_of_good_half(u, thr))
    c = {'no_exception': kind == 'ok', 'argument_not_modified': same(flat(u), before)}
    if kind == 'ok':
        v = float(val)
        c['finite_and_nonnegative'] = fin(v) and v >= 0
        c['positive_when_some_label_differs_from_threshold'] = (not (u != thr).any()) or (fin(v) and v > 0)
    return c, repr(val)


def _warped_tables(xs):
    w = ow.HalfRankComponent()
    w.warp(col(xs))
    return w


def r_unwarper(xs, params):
    """labels -> HalfRankComponent.warp -> for every observed finite value: _HalfRankUnwarper.unwarp(warped value) == original"""
    y = validated(xs)
    if len(xs) < 2 or any(not fin(v) for v in y):
        return {}, 'needs >= 2 finite labels (NaN-free: the tables are built by warp)'
    w = _warped_tables(xs)
    uw = w._unwarper
    ol, wl = flat(uw._original_labels), flat(uw._warped_labels)
    bad = []
    exc = None
    for k in range(len(ol)):
        kind, val = call(lambda: uw.unwarp(wl[k]))
        if kind != 'ok':
            exc = val
            break
        if not close(float(val), ol[k], 1e-7, scale_of(ol)):
            bad.append((k, wl[k], float(val), ol[k]))
    c = {'no_exception': exc is None, 'returns_original_of_observed_warped_value': not bad,
         'tables_not_modified': same(flat(uw._original_labels), ol) and same(flat(uw._warped_labels), wl)}
    return c, 'unwarp(warped[k]) != original[k] for (k, warped, got, original) in %r' % (bad[:3],) if bad else repr(exc)


def r_unwarper_any(xs, params):
    y = validated(xs)
    if len(xs) < 2 or any(not fin(v) for v in y):
        return {}, 'needs >= 2 finite labels'
    uw = _warped_tables(xs)._unwarper
    om = float(uw._original_label_median)
    c = {'no_exception': True, 'identity_at_or_above_saved_median': True}
    obs = ''
    lo, hi = min(flat(uw._warped_labels)), max(flat(uw._warped_labels))
    for lab in [om, om + 1.0, hi, hi + 3.0, lo, lo - 2.5, (lo + hi) / 2, om - 0.25]:
        kind, val = call(lambda: uw.unwarp(lab))
        if kind != 'ok':
            c['no_exception'] = False
            obs = 'unwarp(%r) raised %r' % (lab, val)
        elif lab >= om and float(val) != lab:
            c['identity_at_or_above_saved_median'] = False
            obs = 'unwarp(%r) = %r' % (lab, val)
    return c, obs


def r_halfrank_unwarp(xs, params):
    base = params.get('fit') or [1.0, 2.0, 3.0, 4.0, 5.0]
    w = _warped_tables(base)
    a = col(xs)
    before = flat(a)
    kind, val = call(lambda: w.unwarp(a))
    y = validated(xs)
    c = {'raises_only_documented': _raise_clause(kind, val, xs, allowed=[('nan', any(math.isnan(v) for v in y))]), 'input_not_modified': _frame(a, before)}
    if any(math.isnan(v) for v in y) and PINF not in y:
        c['nan_rejected'] = kind == 'raise' and isinstance(val, ValueError) and 'nan' in str(val)
    if kind == 'ok':
        o = flat(val)
        c['shape_preserved'] = val.shape == a.shape
        c['applies_unwarper_to_every_entry'] = all(close(o[i], float(w._unwarper.unwarp(y[i])), 1e-9, scale_of(y)) for i in range(len(y)))
    return c, repr(val)


class Spy(ow.OutputWarper):
    def __init__(self, tag, log, n):
        self.tag, self.log, self.n = tag, log, n

    def _do(self, kind, a):
        self.log.append((self.tag, kind, a, flat(a)))
        return np.full((self.n, 1), 100.0 * (self.tag + 1)) + np.arange(self.n).reshape(self.n, 1)

    def warp(self, a):
        return self._do('warp', a)

    def unwarp(self, a):
        return self._do('unwarp', a)


def r_pipeline(meth):
    def run(xs, params):
        k = int(params.get('k', 3))
        a = col(xs)
        before = flat(a)
        log = []
        p = ow.OutputWarperPipeline([Spy(t, log, len(xs)) for t in range(k)])
        kind, val = call(lambda: getattr(p, meth)(a))
        c = {'raises_only_documented': _raise_clause(kind, val, xs), 'input_not_modified': _frame(a, before) and all(e[2] is not a for e in log)}
        if kind != 'ok':
            return c, repr(val)
        y, o = validated(xs), flat(val)
        n = len(y)
        c['shape_preserved'] = val.shape == a.shape
        c['input_not_modified'] = c['input_not_modified'] and not np.shares_memory(val, a)
        order = list(range(k)) if meth == 'warp' else list(range(k - 1, -1, -1))
        const = n >= 1 and all(fin(v) for v in y) and len(set(y)) == 1
        allnan = all(math.isnan(v) for v in y)
        if log:
            c['each_warper_applied_once_in_order'] = [e[0] for e in log] == order and all(e[1] == meth for e in log)
            c['first_warper_receives_validated_copy'] = same(log[0][3], y)
            if meth == 'warp':
                c['constant_labels_take_the_shortcut'] = not const
                c['all_infeasible_takes_the_shortcut'] = not allnan
        elif meth == 'warp':
            if const:
                c['zeros_only_for_constant_finite_labels'] = all(v == 0.0 for v in o)
            elif allnan:
                c['minus_one_only_when_all_infeasible'] = all(v == -1.0 for v in o)
            else:
                c['no_warpers_means_validated_copy'] = k == 0 and same(o, y)
                c['zeros_only_for_constant_finite_labels'] = k == 0
                c['minus_one_only_when_all_infeasible'] = k == 0
            c['shortcut_output_finite'] = all(fin(v) for v in o) or k == 0
        else:
            if n and all(v == -1.0 for v in y):
                c['nan_only_for_all_minus_one'] = all(math.isnan(v) for v in o)
            else:
                c['unchanged_only_for_all_zero_or_no_warpers'] = same(o, y) and (k == 0 or all(v == 0.0 for v in y))
                c['nan_only_for_all_minus_one'] = not (n and all(math.isnan(v) for v in o)) or allnan
        return c, repr(val)
    return run


def _elementwise(make, extra=None, allow_allnan=True):
    def run(xs, params):
        a = col(xs)
        before = flat(a)
        w = make(params)
        kind, val = call(lambda: w.warp(a))
        y = validated(xs)
        allowed = [('non-NaN', all(math.isnan(v) for v in y))] if allow_allnan else []
        allowed.append(('should be finite', not any(fin(v) for v in y)))
        c = {'raises_only_documented': _raise_clause(kind, val, xs, allowed=allowed), 'input_not_modified': _frame(a, before)}
        if kind == 'ok':
            o = flat(val)
            n = len(y)
            c['input_not_modified'] = c['input_not_modified'] and not np.shares_memory(val, a)
            c['shape_preserved'] = np.shape(val) == a.shape
            c['nan_untouched'] = all(not math.isnan(y[i]) or math.isnan(o[i]) for i in range(n))
            c['finite_to_finite'] = all(not fin(y[i]) or fin(o[i]) for i in range(n))
            c['order_never_reversed'] = _order_clauses(y, o, strict=False)['order']
            c['ties_preserved'] = _order_clauses(y, o)['ties']
            if extra:
                extra(c, y, o, params)
        return c, repr(val)
    return run


def _zscore_extra(c, y, o, params):
    c['distinct_values_stay_distinct'] = _order_clauses(y, o)['order']


def _normalize_extra(c, y, o, params):
    ta, tb = params.get('target', (0.0, 1.0))
    c['within_target_interval'] = all(not fin(y[i]) or (ta - 1e-12 <= o[i] <= tb + 1e-12) for i in range(len(y)))
    c['distinct_values_stay_distinct_for_nondegenerate_target'] = (not ta < tb) or _order_clauses(y, o)['order']


def r_outliers(xs, params):
    a = col(xs)
    before = flat(a)
    w = ow.DetectOutliers(**({'min_zscore': params['min_zscore']} if 'min_zscore' in params else {}))
    kind, val = call(lambda: w.warp(a))
    y = validated(xs)
    c = {'raises_only_documented': _raise_clause(kind, val, xs, allowed=[('should be finite', not any(fin(v) for v in y)), ('zero-size', not any(fin(v) for v in y))]), 'input_not_modified': _frame(a, before)}
    if kind == 'ok':
        o = flat(val)
        n = len(y)
        c['shape_preserved'] = val.shape == a.shape
        c['input_not_modified'] = c['input_not_modified'] and not np.shares_memory(val, a)
        c['each_entry_kept_or_marked_infeasible'] = all(math.isnan(o[i]) or o[i] == y[i] for i in range(n))
        kept = [i for i in range(n) if fin(o[i])]
        c['order_and_ties_of_kept_entries_preserved'] = all((y[i] < y[j]) == (o[i] < o[j]) and (y[i] == y[j]) == (o[i] == o[j]) for i in kept for j in kept)
        c['only_labels_below_kept_ones_are_dropped'] = all(y[i] < y[j] for i in range(n) if fin(y[i]) and math.isnan(o[i]) for j in kept)
        c['some_label_is_kept'] = (params.get('min_zscore', 6.0) < 0) or (not any(fin(v) for v in y)) or bool(kept)
    return c, repr(val)


def _pipeline_clauses(p, xs, kept=None):
    a = col(xs)
    before = flat(a)
    kind, val = call(lambda: p.warp(a))
    y = validated(xs)
    c = {'raises_only_documented': _raise_clause(kind, val, xs), 'input_not_modified': _frame(a, before)}
    if kind != 'ok':
        return c, repr(val), None, None
    o = flat(val)
    n = len(y)
    c['shape_preserved'] = np.shape(val) == a.shape
    c['input_not_modified'] = c['input_not_modified'] and not np.shares_memory(val, a)
    c['all_outputs_finite'] = all(fin(v) for v in o)
    c['infeasible_no_higher_than_any_feasible'] = all(not (math.isnan(y[i]) and fin(y[j])) or o[i] <= o[j] for i, j in pairs(n))
    return c, repr(val), y, o


def r_default_pipeline(xs, params):
    p = ow.create_default_warper()
    c, obs, y, o = _pipeline_clauses(p, xs)
    if y is None:
        return c, obs
    n = len(y)
    oc = _order_clauses(y, o)
    c['ties_preserved'] = oc['ties']
    c['order_of_feasible_preserved'] = oc['order']
    distinct = len({v for v in y if fin(v)}) >= 2
    c['infeasible_strictly_below_feasible_when_ranking_survives'] = (not distinct) or all(not (math.isnan(y[i]) and fin(y[j])) or o[i] < o[j] for i, j in pairs(n))
    const = n >= 1 and all(fin(v) for v in y) and len(set(y)) == 1
    if const:
        c['constant_labels_all_zero'] = all(v == 0.0 for v in o)
    if all(math.isnan(v) for v in y):
        c['all_infeasible_all_minus_one'] = all(v == -1.0 for v in o)
    c['default_components_in_order'] = [type(w).__name__ for w in p.warpers] == ['HalfRankComponent', 'LogWarperComponent', 'InfeasibleWarperComponent']
    return c, obs


def r_ttg(xs, params):
    y = validated(xs)
    if any(not fin(v) for v in y):
        return {}, 'precondition: all labels finite (established by the preceding InfeasibleWarperComponent)'
    gaps = [abs(u - v) for u in set(y) for v in set(y) if u != v]
    if gaps and (max(y) - min(y)) > 1e3 * min(gaps):
        return {}, 'ill-conditioned for the float32 arithmetic of jax (rounding, excluded by the stated arithmetic assumption)'
    a = col(xs)
    before = flat(a)
    kind, val = call(lambda: ow.TransformToGaussian(use_rank=bool(params.get('use_rank', False))).warp(a))
    c = {'raises_only_documented': kind == 'ok', 'input_not_modified': _frame(a, before)}
    if kind == 'ok':
        o = flat(val)
        c['shape_preserved'] = np.shape(val) == a.shape
        oc = _order_clauses(y, o)
        c['order_preserved_on_finite_labels'] = oc['order'] and (len(set(y)) < 2 or all(fin(v) for v in o))
        c['ties_preserved'] = oc['ties']
        c['finite_output_for_nonconstant_finite_labels'] = len(set(y)) < 2 or all(fin(v) for v in o)
    return c, repr(val)


def r_outlier_pipeline(xs, params):
    p = ow.create_warp_outliers_warper()
    gaps = [abs(u - v) for u in set(validated(xs)) for v in set(validated(xs)) if fin(u) and fin(v) and u != v]
    fy = [v for v in validated(xs) if fin(v)]
    if gaps and (max(fy) - min(fy)) > 1e3 * min(gaps):
        return {}, 'ill-conditioned for the float32 arithmetic of jax (rounding, excluded by the stated arithmetic assumption)'
    c, obs, y, o = _pipeline_clauses(p, xs)
    if y is None:
        return c, obs
    n = len(y)
    c['order_never_reversed'] = _order_clauses(y, o, strict=False)['order']
    c['ties_preserved'] = _order_clauses(y, o)['ties']
    d = flat(ow.DetectOutliers().warp(col(xs))) if any(fin(v) for v in y) else y
    kept = [i for i in range(n) if fin(d[i])]
    c['kept_labels_keep_their_order'] = all((y[i] < y[j]) == (o[i] < o[j]) for i in kept for j in kept)
    c['outlier_components_in_order'] = [type(w).__name__ for w in p.warpers] == ['DetectOutliers', 'InfeasibleWarperComponent', 'TransformToGaussian']
    return c, obs


RUNNERS = {
    'validate': r_validate, 'validate_rank1': r_validate_rank1, 'infeasible': r_infeasible, 'infeasible_roundtrip': r_infeasible_roundtrip,
    'infeasible_unwarp_first': r_unwarp_first(ow.InfeasibleWarperComponent), 'halfrank_unwarp_first': r_unwarp_first(ow.HalfRankComponent),
    'log': r_log, 'log_roundtrip': r_log_roundtrip, 'halfrank': r_halfrank, 'goodstd': r_goodstd, 'unwarper': r_unwarper, 'unwarper_any': r_unwarper_any,
    'halfrank_unwarp': r_halfrank_unwarp, 'pipeline_warp': r_pipeline('warp'), 'pipeline_unwarp': r_pipeline('unwarp'),
    'zscore': _elementwise(lambda p: ow.ZScoreLabels(), _zscore_extra),
    'normalize': _elementwise(lambda p: ow.NormalizeLabels(target_interval=tuple(p.get('target', (0.0, 1.0)))), _normalize_extra),
    'outliers': r_outliers, 'default_pipeline': r_default_pipeline, 'ttg': r_ttg, 'outlier_pipeline': r_outlier_pipeline,
}
PARAM_GRID = {
    'log': [{'offset': 1.5}, {'offset': 0.5}, {'offset': 3.0}], 'log_roundtrip': [{'offset': 1.5}, {'offset': 0.5}],
    'pipeline_warp': [{'k': 0}, {'k': 1}, {'k': 3}], 'pipeline_unwarp': [{'k': 0}, {'k': 1}, {'k': 3}],
    'normalize': [{'target': (0.0, 1.0)}, {'target': (-2.0, 5.0)}, {'target': (1.0, 1.0)}],
    'halfrank_unwarp': [{'fit': [1.0, 2.0, 3.0, 4.0, 5.0]}], 'ttg': [{'use_rank': False}, {'use_rank': True}],
}


# ------------------------------------------------------------------------------------------ witnesses of the recorded findings
def w_halfrank_nan_rank():
    xs = [1.0, 2.0, 2.0, NAN, -1e9, 5.0]
    h = flat(ow.HalfRankComponent().warp(col(xs)))
    o = flat(ow.create_default_warper().warp(col(xs)))
    rep = math.isnan(h[0]) and math.isnan(h[4])        # the defect itself; the pipeline output below shows its consequence
    return rep, {'input': xs, 'HalfRankComponent().warp': h, 'create_default_warper().warp': o}, \
        'finite labels 1.0 and -1e9 stay finite, distinct and above the infeasible entry (index 3)'


def w_halfrank_all_nan():
    kind, val = call(lambda: ow.HalfRankComponent().warp(col([NAN, NAN])))
    return kind == 'raise' and isinstance(val, IndexError), {'input': [NAN, NAN], 'observed': repr(val)}, 'NaNs untouched (no exception)'


def w_log_constant():
    o = flat(ow.LogWarperComponent().warp(col([3.0, 3.0])))
    return all(math.isnan(v) for v in o), {'input': [3.0, 3.0], 'observed': o}, 'finite values for finite labels'


def w_log_offset_one():
    o = flat(ow.LogWarperComponent(offset=1.0).warp(col([1.0, 2.0, 3.0])))
    return all(math.isnan(v) for v in o), {'input': [1.0, 2.0, 3.0], 'offset': 1.0, 'observed': o}, 'strictly increasing finite values (offset=1.0 passes the validator gt(0.0))'


def w_unwarp_median():
    xs = [1.0, 2.0, 3.0, 3.0, 3.0]
    h = ow.HalfRankComponent()
    w = h.warp(col(xs))
    u = flat(h.unwarp(w))
    return not close(u[1], 2.0, 1e-6), {'input': xs, 'warp': flat(w), 'unwarp(warp)': u}, 'unwarp(warp(y)) == y'


def w_unwarp_isclose():
    xs = [0.0, 1.0, 2.0, 1e6, 1e6 + 0.001, 1e6 + 0.002, 1e6 + 0.003]
    h = ow.HalfRankComponent()
    w = h.warp(col(xs))
    u = flat(h.unwarp(w))
    return not close(u[2], 2.0, 1e-6), {'input': xs, 'warp': flat(w), 'unwarp(warp)': u}, 'unwarp(warp(y)) == y (entry 2 must come back as 2.0)'


def w_ttg_rank():
    xs = [3.0, 1.0, 2.0]
    o = flat(ow.TransformToGaussian(use_rank=True).warp(col(xs)))
    return not (o[1] < o[2] < o[0]), {'input': xs, 'use_rank': True, 'observed': o}, 'order of the labels preserved (1 < 2 < 3)'


WITNESSES = {
    'halfrank_nan_rank': w_halfrank_nan_rank, 'halfrank_all_nan_indexerror': w_halfrank_all_nan, 'log_constant_labels': w_log_constant,
    'log_offset_one': w_log_offset_one, 'halfrank_unwarp_median_mismatch': w_unwarp_median, 'halfrank_unwarp_isclose_index': w_unwarp_isclose,
    'ttg_use_rank_argsort': w_ttg_rank,
}


def jsonable(x):
    if isinstance(x, float):
        return 'nan' if math.isnan(x) else ('inf' if x == PINF else ('-inf' if x == NINF else x))
    if isinstance(x, (list, tuple)):
        return [jsonable(v) for v in x]
    if isinstance(x, dict):
        return {str(k): jsonable(v) for k, v in x.items()}
    if isinstance(x, (np.floating, np.integer)):
        return jsonable(x.item())
    return x if isinstance(x, (int, str, bool)) or x is None else repr(x)


def unjson(xs):
    return [float(x) for x in xs]


def falsify(job):
    runner, clause = job['runner'], job['clause']
    fn = RUNNERS.get(runner)
    if fn is None:
        return {'found': False, 'unsupported': 'no native runner %r' % runner}
    grid = [job['params']] if job.get('params') else PARAM_GRID.get(runner, [{}])
    cases = [unjson(c) for c in job.get('cases') or []]
    with_pinf = clause in ('raises_only_documented', 'posinf_rejected') or runner in ('validate',)
    cases += battery(with_pinf=with_pinf, min_len=int(job.get('min_len', 1)), limit=int(job.get('limit', 500)))
    evaluated = 0
    star = {}
    excl = set(job.get('exclude') or [])       # keys of recorded findings: inputs inside their witness classes are skipped (residual clause)

    def excluded(xs, params):
        y = validated(xs)
        fy = [v for v in y if fin(v)]
        if 'halfrank_nan_rank' in excl and len(fy) != len(y):
            return True
        if 'halfrank_all_nan_indexerror' in excl and not fy:
            return True
        if 'log_constant_labels' in excl and len(set(fy)) < 2:
            return True
        if 'log_offset_one' in excl and params.get('offset') == 1.0:
            return True
        if 'ttg_use_rank_argsort' in excl and params.get('use_rank'):
            return True
        if ('halfrank_unwarp_median_mismatch' in excl or 'halfrank_unwarp_isclose_index' in excl) and fy:
            if float(np.nanmedian(np.array(fy))) != sorted(set(fy))[len(set(fy)) // 2] or max(abs(v) for v in fy) > 1e3:
                return True
        return False
    for params in grid:
        for xs in cases:
            if excl and excluded(xs, params):
                continue
            try:
                c, obs = fn(xs, params)
            except Exception as e:  # noqa: BLE001  (a crash of the runner itself is not a verdict)
                return {'found': False, 'error': 'runner crashed on %r: %r' % (xs, e)}
            if clause == '*':
                evaluated += 1
                for cl, v in c.items():
                    if v is False and cl not in star:
                        star[cl] = {'found': True, 'input': jsonable(xs), 'params': jsonable(params), 'observed': str(obs)[:600], 'clause': cl, 'runner': runner}
                continue
            v = c.get(clause)
            if v is None:
                continue
            evaluated += 1
            if v is False:
                return {'found': True, 'input': jsonable(xs), 'params': jsonable(params), 'observed': str(obs)[:600], 'clause': clause, 'runner': runner,
                        'evaluated': evaluated}
    if clause == '*':
        return {'found': bool(star), 'violated': star, 'evaluated': evaluated}
    return {'found': False, 'evaluated': evaluated, 'unsupported': None if evaluated else 'clause %r is not evaluated natively by runner %r' % (clause, runner)}


def main():
    mode = sys.argv[1]
    if mode == 'witness':
        out = {}
        for k, fn in WITNESSES.items():
            if len(sys.argv) > 2 and k not in sys.argv[2:]:
                continue
            try:
                rep, obs, exp = fn()
                out[k] = {'reproduced': bool(rep), 'observed': jsonable(obs), 'expected': exp}
            except Exception as e:  # noqa: BLE001
                out[k] = {'reproduced': False, 'error': repr(e)}
        print(json.dumps({'witness': out, 'reproduced': all(v.get('reproduced') for v in out.values())}))
    elif mode == 'falsify':
        jobs = json.loads(sys.stdin.read())
        if isinstance(jobs, dict):
            jobs = [jobs]
        print(json.dumps({'results': [falsify(j) for j in jobs]}))
    elif mode == 'all':
        # every clause of every runner over the battery: summary of violated clauses (development aid)
        res = {}
        for r, fn in RUNNERS.items():
            for params in PARAM_GRID.get(r, [{}]):
                for xs in battery(with_pinf=True, limit=300):
                    c, obs = fn(xs, params)
                    for k, v in c.items():
                        if v is False:
                            res.setdefault('%s.%s' % (r, k), (jsonable(xs), jsonable(params)))
        print(json.dumps({'violated': res}))
    else:
        raise SystemExit('unknown mode %r' % mode)


if __name__ == '__main__':
    main()
