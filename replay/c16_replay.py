"""C16 replay driver: runs concrete inputs through the REAL vizier functions (under /venv/bin/python).

usage: c16_replay.py <job.json> | --json '<job>' | findings | standin_builder [depth [toggles e.g. 012]] | standin_assert_contains
A job is {"kind": ..., ...}; the driver prints one JSON line (what happened + the natively evaluated clauses of the
property) and REPRODUCED / NOT-REPRODUCED (REPRODUCED = the real code violates the named clause on this input).

The oracle below is an independent plain-Python statement of the property (exact rational arithmetic), not the
checker's z3 formula and not the code under test.
"""
import itertools
import json
import math
import os
import sys
from fractions import Fraction

sys.path.insert(0, os.path.dirname(os.path.abspath(__file__)))
import env  # noqa: E402,F401
from vizier._src.pyvizier.shared import parameter_config as pc_lib  # noqa: E402
from vizier._src.pyvizier.shared import trial as trial_lib  # noqa: E402

NUMERIC = ('DOUBLE', 'INTEGER', 'DISCRETE')


# ---------------------------------------------------------------------------------------- tagged values
def dec(tv):
    if tv is None:
        return None
    t, v = tv['t'], tv['v']
    if t == 'bool':
        return bool(v)
    if t == 'int':
        return int(v)
    if t == 'float':
        return float(v)
    if t == 'str':
        return str(v)
    if t == 'none':
        return None
    raise ValueError(t)


def enc(v):
    if v is None:
        return {'t': 'none', 'v': None}
    if isinstance(v, bool):
        return {'t': 'bool', 'v': v}
    if isinstance(v, int):
        return {'t': 'int', 'v': v}
    if isinstance(v, float):
        return {'t': 'float', 'v': repr(v)}
    return {'t': 'str', 'v': str(v)}


def is_number(v):
    return isinstance(v, (bool, int, float))


def real_of(v):
    """exact value of a finite Python number, else None"""
    if isinstance(v, float) and (math.isnan(v) or math.isinf(v)):
        return None
    return Fraction(v)


# ---------------------------------------------------------------------------------------- the oracle
def member_native(ptype, lo, hi, fv, v):
    if ptype in NUMERIC:
        if not is_number(v):
            return False
        x = real_of(v)
        if x is None:
            return False
        if ptype == 'DOUBLE':
            return Fraction(lo) <= x <= Fraction(hi)
        if ptype == 'INTEGER':
            return x.denominator == 1 and Fraction(lo) <= x <= Fraction(hi)
        return any(real_of(f) == x for f in fv)
    if ptype == 'CATEGORICAL':
        if isinstance(v, bool):
            return ('True' if v else 'False') in fv
        if isinstance(v, str):
            return v in fv
        return False
    raise ValueError(ptype)


def compatible_native(ptype, v):
    if ptype in NUMERIC:
        if not is_number(v):
            return False
        if ptype == 'INTEGER':
            x = real_of(v)
            return x is not None and x.denominator == 1
        return not (isinstance(v, float) and math.isnan(v))
    if ptype == 'CATEGORICAL':
        return isinstance(v, (str, bool))
    return True


def outcome(f):
    try:
        return {'raised': None, 'value': f()}
    except BaseException as e:  # noqa: BLE001 -- the class is the observation
        return {'raised': type(e).__name__, 'message': str(e)[:200]}


def build_pc(spec, name='p'):
    """well-formed parameter through the real factory: {ptype, bounds:[lo,hi] | feasible:[...]} (tagged scalars)"""
    if spec['ptype'] in ('DOUBLE', 'INTEGER'):
        lo, hi = dec(spec['bounds'][0]), dec(spec['bounds'][1])
        if spec['ptype'] == 'DOUBLE':
            lo, hi = float(lo), float(hi)
        return pc_lib.ParameterConfig.factory(spec.get('name', name), bounds=(lo, hi)), lo, hi, None
    fv = [dec(x) for x in spec['feasible']]
    p = pc_lib.ParameterConfig.factory(spec.get('name', name), feasible_values=fv)
    return p, None, None, fv


# ---------------------------------------------------------------------------------------- job kinds
def job_contains(job):
    p, lo, hi, fv = build_pc(job['pc'])
    if p.type.name != job['pc']['ptype']:
        return {'note': 'factory inferred %s' % p.type.name}, False
    v = dec(job['value'])
    arg = trial_lib.ParameterValue(v) if job.get('wrapped') else v
    out = outcome(lambda: p.contains(arg))
    want = member_native(job['pc']['ptype'], lo, hi, fv, v)
    out['oracle_member'] = want
    bad = out['raised'] is not None or out['value'] is not want
    return out, bad


def job_assert_correct_type(job):
    v = dec(job['value'])
    t = trial_lib.ParameterType[job['ptype']]
    out = outcome(lambda: t.assert_correct_type(v))
    want = compatible_native(job['ptype'], v)
    out['oracle_compatible'] = want
    return out, (out['raised'] is None) != want


def _dec_list(xs):
    if xs is None:
        return None
    r = [dec(x) for x in xs['items']]
    return tuple(r) if xs.get('tuple') else r


def valid_definition(name, bounds, feasible):
    """the property's notion of a valid (flat) parameter definition; returns (valid, reasons)"""
    reasons = []
    if not name:
        reasons.append('empty_name')
    fv_given, b_given = bool(feasible), bool(bounds)
    if fv_given and b_given:
        reasons.append('both_given')
    elif fv_given:
        nums = [is_number(x) for x in feasible]
        strs = [isinstance(x, str) for x in feasible]
        if not (all(nums) or all(strs)):
            reasons.append('mixed_kinds')
        else:
            if all(nums) and any(real_of(x) is None for x in feasible):
                reasons.append('nonfinite_feasible')
            for i in range(len(feasible)):
                for j in range(i + 1, len(feasible)):
                    a, b = feasible[i], feasible[j]
                    if (all(strs) and a == b) or (all(nums) and real_of(a) is not None and real_of(a) == real_of(b)):
                        reasons.append('duplicates')
    elif b_given:
        if len(bounds) != 2:
            reasons.append('bounds_length')
        else:
            a, b = bounds
            ints = isinstance(a, int) and isinstance(b, int)
            flts = isinstance(a, float) and isinstance(b, float)
            if not (ints or flts):
                reasons.append('mixed_bounds')
            elif real_of(a) is None or real_of(b) is None:
                reasons.append('nonfinite_bounds')
            elif real_of(a) > real_of(b):
                reasons.append('reversed_bounds')
    return not reasons, sorted(set(reasons))


def job_factory(job):
    name = dec(job['name'])
    bounds, feasible = _dec_list(job.get('bounds')), _dec_list(job.get('feasible'))
    kw = {}
    if bounds is not None:
        kw['bounds'] = bounds
    if feasible is not None:
        kw['feasible_values'] = feasible
    if job.get('default') is not None:
        kw['default_value'] = dec(job['default'])
    out = outcome(lambda: pc_lib.ParameterConfig.factory(name, **kw))
    valid, reasons = valid_definition(name, bounds, feasible)
    res = {'raised': out['raised'], 'oracle_valid': valid, 'oracle_reasons': reasons}
    clauses = {}
    if out['raised'] is None:
        p = out['value']
        res['type'] = p.type.name
        res['feasible_values'] = repr(p._feasible_values)
        res['bounds'] = repr(p._bounds)
        clauses['rejects'] = valid or job.get('default') is not None and valid
        if valid:
            if feasible:
                fvs = list(p._feasible_values)
                key = (lambda x: x) if isinstance(fvs[0], str) else real_of
                clauses['sorted_unique'] = all(key(fvs[i]) < key(fvs[i + 1]) for i in range(len(fvs) - 1))
                clauses['same_values'] = sorted(map(key, fvs)) == sorted(map(key, feasible))
                clauses['type'] = p.type.name == ('CATEGORICAL' if isinstance(feasible[0], str) else 'DISCRETE')
                if p.type.name == 'DISCRETE':
                    clauses['bounds'] = real_of(p._bounds[0]) == min(map(real_of, feasible)) and real_of(p._bounds[1]) == max(map(real_of, feasible))
            elif bounds:
                clauses['type'] = p.type.name == ('INTEGER' if isinstance(bounds[0], int) else 'DOUBLE')
                clauses['bounds'] = tuple(p._bounds) == tuple(bounds) and real_of(bounds[0]) <= real_of(bounds[1])
            else:
                clauses['type'] = p.type.name == 'CUSTOM'
            clauses['name'] = p.name == name
    else:
        clauses['accepts_valid'] = not valid or job.get('default') is not None
    res['clauses'] = clauses
    return res, not all(clauses.values())


def _space_from(specs):
    space = pc_lib.SearchSpace()
    for i, s in enumerate(specs):
        p, _, _, _ = build_pc(s, name=s.get('name', 'p%d' % i))
        space.add(p)
    return space


def job_space_add(job):
    space = pc_lib.SearchSpace()
    for n in job['existing']:
        space.add(pc_lib.ParameterConfig.factory(n, bounds=(0, 1)))
    before = list(space.parameter_names)
    new = pc_lib.ParameterConfig.factory(job['name'], bounds=(0.0, 1.0))
    out = outcome(lambda: space.add(new, replace=bool(job.get('replace'))))
    dup = job['name'] in before
    res = {'raised': out['raised'], 'duplicate': dup, 'names_after': list(space.parameter_names)}
    if dup and not job.get('replace'):
        bad = out['raised'] is None or list(space.parameter_names) != before
    else:
        bad = out['raised'] is not None or space.get(job['name']) is not new
    return res, bad


def job_add_param(job):
    """SearchSpaceSelector.add_<builder>_param on a space that already has `existing` names."""
    space = pc_lib.SearchSpace()
    for n in job.get('existing', []):
        space.add(pc_lib.ParameterConfig.factory(n, bounds=(0, 1)))
    before = list(space.parameter_names)
    args = [dec(a) if isinstance(a, dict) and 't' in a else (_dec_list(a) if isinstance(a, dict) else a) for a in job['args']]
    kw = {k: (dec(v) if isinstance(v, dict) and 't' in v else v) for k, v in job.get('kw', {}).items()}
    fn = getattr(space.root, 'add_%s_param' % job['builder'])
    out = outcome(lambda: fn(*args, **kw))
    res = {'raised': out['raised'], 'message': out.get('message'), 'names_before': before, 'names_after': list(space.parameter_names)}
    if out['raised'] is None:
        added = [n for n in space.parameter_names if n not in before]
        res['added'] = [{'name': n, 'type': space.get(n).type.name, 'bounds': repr(space.get(n)._bounds),
                         'feasible': repr(space.get(n)._feasible_values), 'external': space.get(n).external_type.name} for n in added]
    expect_reject = job.get('expect_reject')
    bad = False
    if expect_reject is True:
        bad = out['raised'] is None or list(space.parameter_names) != before
    elif expect_reject is False:
        bad = out['raised'] is not None
    return res, bad


def accepted_native(specs, params):
    names = [s['name'] for s in specs]
    if sorted(names) != sorted(params.keys()):
        return False
    for s in specs:
        p, lo, hi, fv = build_pc(s, name=s['name'])
        if not member_native(s['ptype'], lo, hi, fv, params[s['name']]):
            return False
    return True


def job_assert_contains(job):
    space = _space_from(job['space'])
    params = {k: dec(v) for k, v in job['parameters'].items()}
    pd = trial_lib.ParameterDict(params)
    out = outcome(lambda: space.assert_contains(pd))
    out2 = outcome(lambda: space.contains(pd))
    want = accepted_native(job['space'], params)
    res = {'assert_contains': out['raised'] or 'accepted', 'contains': out2.get('value', out2['raised']), 'oracle_accepted': want}
    ok1 = (out['raised'] is None and out.get('value') is True) if want else out['raised'] == 'InvalidParameterError'
    ok2 = out2['raised'] is None and out2['value'] is want
    return res, not (ok1 and ok2)


def job_add_trial(job):
    """clients.Study.add_trial on a local RAM service: an out-of-space trial must be refused and not stored."""
    from vizier._src.service import clients, vizier_client
    from vizier.service import pyvizier as vz
    vizier_client.environment_variables.servicer_use_sql_ram()
    sc = vz.StudyConfig()
    for s in job['space']:
        p, _, _, _ = build_pc(s, name=s['name'])
        sc.search_space.add(p)
    sc.metric_information.append(vz.MetricInformation('m', goal=vz.ObjectiveMetricGoal.MAXIMIZE))
    sc.algorithm = 'RANDOM_SEARCH'
    study = clients.Study.from_study_config(sc, owner='o', study_id=job.get('study_id', 'c16'))
    params = {k: dec(v) for k, v in job['parameters'].items()}
    n0 = len(list(study.trials().get()))
    out = outcome(lambda: study.add_trial(vz.Trial(parameters=params)).id)
    n1 = len(list(study.trials().get()))
    want = accepted_native(job['space'], params)
    res = {'raised': out['raised'], 'trials_before': n0, 'trials_after': n1, 'oracle_accepted': want}
    bad = (out['raised'] is None or n1 != n0) if not want else (out['raised'] is not None or n1 != n0 + 1)
    return res, bad


def internal_native(ptype, v):
    if ptype == 'INTEGER':
        return int(v)
    if ptype == 'DISCRETE':
        return float(v)
    return ('True' if v else 'False') if isinstance(v, bool) else v


def job_subspace(job):
    """get_subspace_deepcopy / subspace: the child registered for the value's internal representation"""
    p, lo, hi, fv = build_pc(job['pc'])
    ptype = job['pc']['ptype']
    ck = dec(job['child_key']) if job.get('child_key') else None
    if ck is not None:
        p.subspace(ck).add(pc_lib.ParameterConfig.factory('c', bounds=(0, 1)))
    v = dec(job['value'])
    before = {k: list(s.parameter_names) for k, s in p._children.items()}
    out = outcome(lambda: getattr(p, job['method'])(v))
    if ptype == 'DOUBLE':
        if job['method'] == 'subspace':
            return {'raised': out['raised']}, out['raised'] is None
        return {'raised': out['raised']}, out['raised'] is not None or list(out['value'].parameter_names) != []
    mem = member_native(ptype, lo, hi, fv, v)
    res = {'raised': out['raised'], 'oracle_member': mem, 'children_before': repr(before)}
    if not mem:
        return res, out['raised'] is None
    if out['raised'] is not None:
        return res, True
    key = internal_native(ptype, v)
    want = ['c'] if (ck is not None and internal_native(ptype, ck) == key) else []
    got = list(out['value'].parameter_names)
    res.update({'got': got, 'oracle_child_parameters': want})
    bad = got != want
    after = {k: list(s.parameter_names) for k, s in p._children.items()}
    if job['method'] == 'get_subspace_deepcopy':
        bad = bad or after != before or any(out['value'] is s for s in p._children.values())
    else:
        bad = bad or p._children.get(key) is not out['value']
    return res, bad


def job_children_multi(job):
    """factory(children=[([v1, v2], child)]): the child is attached under every declared parent value, every attached
    child is a separate copy and reports exactly its own matching parent value"""
    spec = job['pc']
    ptype = spec['ptype']
    vals = [dec(x) for x in job['values']]
    child = pc_lib.ParameterConfig.factory('c', bounds=(0, 1))
    kw = {'children': [(vals, child)]}
    if ptype == 'INTEGER':
        kw['bounds'] = (dec(spec['bounds'][0]), dec(spec['bounds'][1]))
        lo, hi, fv = kw['bounds'][0], kw['bounds'][1], None
    else:
        kw['feasible_values'] = fv = [dec(x) for x in spec['feasible']]
        lo = hi = None
    out = outcome(lambda: pc_lib.ParameterConfig.factory('p', **kw))
    valid = all(member_native(ptype, lo, hi, fv, v) for v in vals) and len({internal_native(ptype, v) for v in vals if member_native(ptype, lo, hi, fv, v)}) == len(vals)
    res = {'raised': out['raised'], 'oracle_valid': valid}
    if not valid:
        return res, out['raised'] is None
    if out['raised'] is not None:
        return res, True
    p = out['value']
    seen, bad = [], False
    for v in vals:
        key = internal_native(ptype, v)
        sub = p._children.get(key)
        got = list(sub.parameters) if sub is not None else []
        if len(got) != 1 or got[0].name != 'c':
            bad = True
            res.setdefault('missing_under', []).append(repr(key))
            continue
        mpv = list(got[0].matching_parent_values)
        res.setdefault('matching_parent_values', {})[repr(key)] = repr(mpv)
        bad = bad or mpv != [key] or got[0] is child or any(got[0] is o for o in seen)
        seen.append(got[0])
    return res, bad


# ---------------------------------------------------------------------------------------- bounded stand-ins
def _sub_shapes(depth):
    """shapes of a subspace under one parent value: () | (parent,) | (parent, leaf); parent shapes recursive."""
    if depth <= 0:
        return [()]
    ps = _parent_shapes(depth)
    return [()] + [(p,) for p in ps] + [(p, 'leaf') for p in ps]


_CACHE = {}


def _parent_shapes(depth):
    """a parent parameter with two feasible values; each value has a subspace shape of depth-1"""
    if depth in _CACHE:
        return _CACHE[depth]
    subs = _sub_shapes(depth - 1)
    _CACHE[depth] = [(a, b) for a in subs for b in subs]
    return _CACHE[depth]


def _build(space_selector, shape, path, kind_toggle, registry):
    """adds the parameters of subspace shape `shape` to the selected (sub)space; registry: name -> {value: [child names]}"""
    names = []
    for k, item in enumerate(shape):
        name = '%s%d' % (path, k)
        names.append(name)
        if item == 'leaf':
            space_selector.add_float_param(name, 0.0, 1.0)
            registry[name] = ('leaf', None)
            continue
        # parents alternate between CATEGORICAL, INTEGER, DISCRETE and BOOLEAN so that every discrete kind is a parent somewhere
        kind = ('cat', 'int', 'disc', 'bool')[(len(path) + k + kind_toggle) % 4]
        if kind == 'cat':
            values = ['a', 'b']
            space_selector.add_categorical_param(name, values)
        elif kind == 'int':
            values = [0, 1]
            space_selector.add_int_param(name, 0, 1)
        elif kind == 'disc':
            values = [1.0, 2.0]
            space_selector.add_discrete_param(name, values)
        else:
            values = ['True', 'False']
            space_selector.add_bool_param(name)
        kids = {}
        for vi, (val, sub) in enumerate(zip(values, item)):
            sel = space_selector.select(name, [val])
            kids[repr(val)] = _build(sel, sub, '%s%dv%d_' % (path, k, vi), kind_toggle, registry)
        registry[name] = (kind, (values, kids))
    return names


def _active(names, registry, choice):
    """independent recursion: the parameters active under `choice` (name -> value)"""
    out = []
    for n in names:
        out.append(n)
        kind, info = registry[n]
        if kind != 'leaf' and n in choice:
            values, kids = info
            out.extend(_active(kids[repr(choice[n])], registry, choice))
    return out


def external_form(kind, v):
    """the same parent value in the Python type a client naturally supplies: bool for boolean parameters, float for
    integer parameters, int for (integer-valued) discrete parameters"""
    if kind == 'bool':
        return v == 'True'
    if kind == 'int':
        return float(v)
    if kind == 'disc':
        return int(v)
    return v


def standin_builder(depth=3, limit=None, toggles=(0, 1, 2, 3)):
    """SequentialParameterBuilder on every conditional space of the bounded family, every choice sequence, dfs and bfs,
    parent values supplied in their internal and in their external Python types: the visited parameters are exactly the
    active ones (each once) and the built ParameterDict is the choice."""
    from vizier._src.pyvizier.shared import parameter_iterators as pi
    tops = []
    for p in _parent_shapes(depth):
        tops.append((p,))
        tops.append((p, 'leaf'))
    tops.append(('leaf',))
    tops.append(())
    runs = spaces = 0
    failures = []
    empty = outcome(lambda: list(pi.SequentialParameterBuilder(pc_lib.SearchSpace())))
    tops.remove(())
    for si, top in enumerate(tops):
        if limit and si >= limit:
            break
        for toggle in toggles:
            space = pc_lib.SearchSpace()
            registry = {}
            top_names = _build(space.root, top, 'p', toggle, registry)
            spaces += 1
            for order, form in (('dfs', 'internal'), ('bfs', 'internal'), ('dfs', 'external'), ('bfs', 'external')):
                # explore all choice sequences by DFS over decision prefixes
                todo = [[]]
                while todo:
                    prefix = todo.pop()
                    b = pi.SequentialParameterBuilder(space, traverse_order=order)
                    visited, choice, k = [], {}, 0
                    branched = False
                    for cfg in b:
                        visited.append(cfg.name)
                        kind, info = registry[cfg.name]
                        opts = [0.25] if kind == 'leaf' else info[0]
                        if k < len(prefix):
                            v = opts[prefix[k]]
                        else:
                            v = opts[0]
                            for alt in range(1, len(opts)):
                                todo.append(prefix + [0] * (k - len(prefix)) + [alt])
                            prefix = prefix + [0] * (k - len(prefix)) + [0]
                        k += 1
                        choice[cfg.name] = v
                        b.choose_value(external_form(kind, v) if form == 'external' else v)
                    runs += 1
                    want = _active(top_names, registry, choice)
                    got = {kk: vv.value for kk, vv in b.parameters.items()}
                    given = {kk: (external_form(registry[kk][0], vv) if form == 'external' else vv) for kk, vv in choice.items()}
                    ok = sorted(visited) == sorted(want) and len(set(visited)) == len(visited) and got == given \
                        and all(type(got[kk]) is type(given[kk]) for kk in given)
                    if not ok and len(failures) < 5:
                        failures.append({'top': repr(top), 'toggle': toggle, 'order': order, 'values': form, 'visited': visited, 'active': want,
                                         'built': repr(got), 'choice': repr(choice)})
    # the empty space: the walk should visit nothing; recorded separately (known finding if the constructor raises)
    return {'spaces': spaces, 'runs': runs, 'failures': failures, 'depth': depth,
            'empty_space': empty['raised'] or ('visited %d' % len(empty['value']))}


VALUE_POOL = [True, False, 0, 1, 3, 1.0, 2.5, 0.5, float('inf'), float('nan'), 'a', 'True', '1', '1.0']


def standin_assert_contains():
    """SearchSpace.assert_contains / contains on every flat space of <= 2 parameters (4 types) against every assignment
    of <= 3 keys over a value pool incl. wrong types, bools vs 'True', ints as floats, missing and extra keys; and the
    refusal (NotImplementedError) on conditional spaces."""
    kinds = {
        'D': {'ptype': 'DOUBLE', 'bounds': [enc(0.0), enc(1.0)]},
        'I': {'ptype': 'INTEGER', 'bounds': [enc(0), enc(3)]},
        'S': {'ptype': 'DISCRETE', 'feasible': [enc(1), enc(2.5)]},
        'C': {'ptype': 'CATEGORICAL', 'feasible': [enc('a'), enc('True')]},
    }
    cases = failures = 0
    fails = []
    known = 0
    for n in (0, 1, 2):
        for combo in itertools.product(kinds, repeat=n):
            specs = [dict(kinds[k], name='x%d' % i) for i, k in enumerate(combo)]
            space = _space_from(specs)
            keysets = [()] + [('x0',), ('x1',), ('zz',), ('x0', 'x1'), ('x0', 'zz'), ('x0', 'x1', 'zz')]
            for keys in keysets:
                for vals in itertools.product(VALUE_POOL, repeat=len(keys)):
                    params = dict(zip(keys, vals))
                    cases += 1
                    want = accepted_native(specs, params)
                    pd = trial_lib.ParameterDict(params)
                    o1 = outcome(lambda: space.assert_contains(pd))
                    o2 = outcome(lambda: space.contains(pd))
                    ok = ((o1['raised'] is None and o1.get('value') is True) if want else o1['raised'] == 'InvalidParameterError') \
                        and o2['raised'] is None and o2['value'] is want
                    if not ok:
                        # the recorded finding: an infinite float for an INTEGER parameter raises OverflowError
                        is_known = o1['raised'] == 'OverflowError' and any(
                            s['ptype'] == 'INTEGER' and isinstance(params.get(s['name']), float) and math.isinf(params[s['name']]) for s in specs)
                        if is_known:
                            known += 1
                            continue
                        failures += 1
                        if len(fails) < 5:
                            fails.append({'space': [s['ptype'] for s in specs], 'parameters': repr(params), 'oracle': want,
                                          'assert_contains': o1['raised'] or 'accepted', 'contains': o2.get('value', o2['raised'])})
    # conditional spaces are refused, never answered
    cond = pc_lib.SearchSpace()
    cond.root.add_categorical_param('m', ['a', 'b'])
    cond.root.select('m', ['a']).add_int_param('k', 0, 1)
    refused = 0
    for params in ({'m': 'a', 'k': 1}, {'m': 'b'}, {'m': 'a'}, {}, {'zz': 1}):
        pd = trial_lib.ParameterDict(params)
        o1, o2 = outcome(lambda: cond.assert_contains(pd)), outcome(lambda: cond.contains(pd))
        cases += 1
        if o1['raised'] == 'NotImplementedError' and o2['raised'] == 'NotImplementedError':
            refused += 1
        else:
            failures += 1
            fails.append({'conditional': repr(params), 'assert_contains': o1['raised'] or o1.get('value'), 'contains': o2['raised'] or o2.get('value')})
    return {'cases': cases, 'failures': fails, 'n_failures': failures, 'known_finding_cases': known, 'conditional_refused': refused}


def findings():
    """witnesses of the recorded findings (DESIGN 10 rows 4 and -- for the record, a C03 matter -- 18)"""
    p = pc_lib.ParameterConfig.factory('i', bounds=(1, 5))
    r4 = outcome(lambda: p.contains(float('inf')))
    r4b = outcome(lambda: p.contains(float('-inf')))
    r18 = outcome(lambda: pc_lib.ParameterConfig.factory('x', bounds=(0.0, 1.0), default_value=5.0).default_value)
    return {'row4_contains_inf_on_INTEGER': r4['raised'], 'row4_contains_ninf_on_INTEGER': r4b['raised'],
            'row18_default_outside_bounds_accepted': r18.get('value')}, (r4['raised'] == 'OverflowError' and r4b['raised'] == 'OverflowError')


JOBS = {'contains': job_contains, 'assert_correct_type': job_assert_correct_type, 'factory': job_factory,
        'space_add': job_space_add, 'add_param': job_add_param, 'assert_contains': job_assert_contains, 'add_trial': job_add_trial, 'subspace': job_subspace, 'children_multi': job_children_multi}


def main(argv):
    before = env.repo_clean_snapshot()
    if argv and argv[0] == 'findings':
        res, bad = findings()
    elif argv and argv[0] == 'standin_builder':
        res = standin_builder(int(argv[1]) if len(argv) > 1 else 3, None, tuple(int(c) for c in argv[2]) if len(argv) > 2 else (0, 1, 2, 3))
        bad = bool(res['failures'])
    elif argv and argv[0] == 'standin_assert_contains':
        res = standin_assert_contains()
        bad = bool(res['n_failures'])
    else:
        job = json.loads(argv[1]) if argv[0] == '--json' else json.load(open(argv[0]))
        job = job.get('job', job)
        res, bad = JOBS[job['kind']](job)
    if env.repo_clean_snapshot() != before:
        res['repo_touched'] = True
    print(json.dumps(res, default=repr))
    print('REPRODUCED' if bad else 'NOT-REPRODUCED')
    return 0


if __name__ == '__main__':
    sys.exit(main(sys.argv[1:]))
