"""C18 conformance tests: every library contract ASSUMED by pyvc/warp_model.py (and the numpy fragment of pyvc/np_model.py that C18 uses) is
checked against the INSTALLED numpy / scipy on a few hundred generated arrays (NaN, -inf, duplicates, size 1, extreme magnitudes).

usage: /venv/bin/python c18_conformance.py [n_arrays]   -> one JSON line {"contracts": {key: {"ok": bool, "cases": int, "counterexample": ...}}}

A contract that fails here is a false assumption of the proof: contracts/c18.py then refuses to count the obligations that rest on it as proved.
The contract texts are those of warp_model.CONTRACTS (same keys); the predicates below are their executable form.
"""
import json
import math
import sys
import warnings

import numpy as np
from scipy import stats

warnings.simplefilter('ignore')
np.seterr(all='ignore')
NAN, NINF, PINF = float('nan'), float('-inf'), float('inf')


def arrays(limit, with_inf=True):
    pool = [0.0, 1.0, 2.0, 2.0, 3.0, 5.0, -1.0, 0.5, 7.25, -4.0, 1e6, -1e9, 1e-3, 123456.789, NAN, NAN]
    if with_inf:
        pool += [NINF]
    fixed = [[1.0], [NAN], [3.0, 3.0], [3.0, NAN], [NAN, NAN], [1.0, 2.0, 2.0, NAN, -1e9, 5.0], [2.0, 1.0], [1.0, 1.0, 1.0, 2.0, 3.0], [0.0, 0.0, 0.0]]
    rng = np.random.RandomState(1801)
    out = [list(x) for x in fixed]
    while len(out) < limit:
        n = int(rng.randint(1, 9))
        if rng.rand() < 0.5:
            xs = [pool[int(rng.randint(len(pool)))] for _ in range(n)]
        else:
            xs = [float(np.round(rng.randn() * 10 ** rng.randint(-2, 5), 3)) for _ in range(n)]
            if rng.rand() < 0.4:
                xs[int(rng.randint(n))] = NAN
            if rng.rand() < 0.3 and n > 1:
                xs[int(rng.randint(n))] = xs[0]
        out.append(xs)
    return out[:limit]


def isnan(x):
    return isinstance(x, float) and math.isnan(x)


def eqf(a, b):
    return (isnan(a) and isnan(b)) or a == b


def raises(fn, exc):
    try:
        fn()
    except exc:
        return True
    except Exception:  # noqa: BLE001
        return False
    return False


def dense_rank(xs, x):
    return 1 + len({v for v in xs if not isnan(v) and v < x})


# ------------------------------------------------------------------------------------------ the contracts (executable form)
def c_nanminmax(xs):
    a = np.array(xs)
    nn = [v for v in xs if not isnan(v)]
    lo, hi = float(np.nanmin(a)), float(np.nanmax(a))
    if not nn:
        return isnan(lo) and isnan(hi)
    return lo == min(nn) and hi == max(nn) and lo in nn and hi in nn


def c_nanminmax_empty(_):
    return raises(lambda: np.nanmin(np.zeros((0, 1))), ValueError) and raises(lambda: np.nanmax(np.array([])), ValueError)


def c_minmax(xs):
    a = np.array(xs)
    lo, hi = float(np.min(a)), float(np.max(a))
    if any(isnan(v) for v in xs):
        return isnan(lo) and isnan(hi)
    return lo == min(xs) and hi == max(xs) and raises(lambda: np.min(np.array([])), ValueError)


def c_nanmedian(xs):
    a = np.array(xs)
    nn = [v for v in xs if not isnan(v)]
    m = float(np.nanmedian(a))
    if not nn:
        return isnan(m)
    if any(math.isinf(v) for v in nn):
        return True                      # the contract speaks about finite non-NaN elements only
    return math.isfinite(m) and min(nn) <= m <= max(nn)


def c_median(xs):
    a = np.array(xs)
    m = float(np.median(a))
    if any(isnan(v) for v in xs):
        return isnan(m)
    if any(math.isinf(v) for v in xs):
        return True
    return math.isfinite(m) and min(xs) <= m <= max(xs)


def c_nanmean(xs):
    a = np.array(xs)
    nn = [v for v in xs if not isnan(v)]
    m = float(np.nanmean(a))
    if not nn:
        return isnan(m)
    if any(math.isinf(v) for v in nn):
        return True
    tol = 1e-9 * max(1.0, max(abs(v) for v in nn))
    return math.isfinite(m) and min(nn) - tol <= m <= max(nn) + tol


def c_nanstd(xs):
    a = np.array(xs)
    nn = [v for v in xs if not isnan(v)]
    s = float(np.nanstd(a))
    if not nn:
        return isnan(s)
    if any(math.isinf(v) for v in nn):
        return True
    if len(set(nn)) == 1:
        # real arithmetic: exactly 0; floating point may leave a rounding residue (not a violation of the mathematical contract)
        return math.isfinite(s) and 0 <= s <= 1e-9 * max(1.0, abs(nn[0]))
    return math.isfinite(s) and s > 0


def c_sum(xs):
    a = np.array(xs)
    s = float(a.sum())
    if any(isnan(v) for v in xs):
        return isnan(s)
    if any(math.isinf(v) for v in xs):
        return True
    ok = math.isfinite(s)
    if all(v >= 0 for v in xs):
        ok = ok and s >= 0 and all(v <= s for v in xs) and ((s == 0) == all(v == 0 for v in xs))
    return ok and float(np.array([]).sum()) == 0.0


def c_searchsorted(xs):
    u = sorted({v for v in xs if not isnan(v) and not math.isinf(v)})
    a = np.array(u)
    ok = True
    for v in list(u) + [x + 0.25 for x in u] + [min(u + [0]) - 1]:
        for side in ('left', 'right'):
            s = int(np.searchsorted(a, v, side)) if side == 'right' else int(a.searchsorted(v, side))
            if side == 'left':
                ok = ok and all(t < v for t in u[:s]) and all(v <= t for t in u[s:])
            else:
                ok = ok and all(t <= v for t in u[:s]) and all(v < t for t in u[s:])
    return ok


def c_unique(xs):
    b = [v for v in xs if not isnan(v) and not math.isinf(v)]
    a = np.array(b)
    u, idx = np.unique(a, return_index=True)
    u2 = np.unique(a.reshape(len(b), 1)).flatten()
    ul = [float(v) for v in u]
    ok = ul == sorted(set(b)) and [float(v) for v in u2] == ul and len(idx) == len(ul)
    for t, v in enumerate(ul):
        ok = ok and b[int(idx[t])] == v and all(b[j] != v for j in range(int(idx[t])))
        ok = ok and len({w for w in b if w < v}) == t
    return ok


def c_rankdata(xs):
    a = np.array(xs)
    if any(math.isinf(v) for v in xs):
        return True
    r = [float(v) for v in stats.rankdata(a, method='dense')]
    anynan = any(isnan(v) for v in xs)
    if anynan:
        ok = all(isnan(v) for v in r)                                   # nan_policy='propagate' (the default)
    else:
        ok = all(r[j] == dense_rank(xs, xs[j]) for j in range(len(xs)))
    try:
        ro = [float(v) for v in stats.rankdata(a, method='dense', nan_policy='omit')]
        ok = ok and all((isnan(ro[j]) if isnan(xs[j]) else ro[j] == dense_rank(xs, xs[j])) for j in range(len(xs)))
    except TypeError:
        ok = False
    return ok


def c_argmin(xs):
    a = np.array(xs)
    b = int(np.argmin(a))
    if any(isnan(v) for v in xs):
        return isnan(xs[b]) and not any(isnan(v) for v in xs[:b])
    return xs[b] == min(xs) and all(v > xs[b] for v in xs[:b]) and raises(lambda: np.argmin(np.array([])), ValueError)


def c_interp(xs):
    nn = [v for v in xs if not isnan(v) and not math.isinf(v)]
    if len(set(nn)) < 2:
        return True
    x0, x1 = min(nn), max(nn)
    ok = True
    for f0, f1 in ((0.0, 1.0), (-2.0, 5.0), (1.0, 1.0)):
        r = np.interp(np.array(nn), (x0, x1), (f0, f1))
        for v, o in zip(nn, r):
            exp = f0 if v <= x0 else (f1 if v >= x1 else f0 + (v - x0) * (f1 - f0) / (x1 - x0))
            ok = ok and abs(float(o) - exp) <= 1e-9 * max(1.0, abs(exp))
    return ok


def c_mask(xs):
    """boolean-mask read / write: order-preserving enumeration; astype / flatten / mask reads are copies"""
    a = np.array(xs).reshape(len(xs), 1)
    m = np.isfinite(a)
    sel = a[m]
    ok = [float(v) for v in sel] == [v for v in xs if math.isfinite(v)]
    b = a.astype(float)
    ok = ok and not np.shares_memory(a, b) and not np.shares_memory(a, a.flatten()) and not np.shares_memory(a, sel)
    c = a.copy()
    c[m] = sel * 2
    ok = ok and all(eqf(float(c[i, 0]), xs[i] * 2 if math.isfinite(xs[i]) else xs[i]) for i in range(len(xs)))
    d = a.flatten()
    d[~np.isnan(d)] += 1.0
    ok = ok and all(eqf(float(d[i]), xs[i] + 1.0 if not isnan(xs[i]) else xs[i]) for i in range(len(xs)))
    e = a.copy()
    e[np.isneginf(e)] = np.nan
    ok = ok and all(eqf(float(e[i, 0]), NAN if xs[i] == NINF else xs[i]) for i in range(len(xs)))
    ok = ok and a.flatten()[:, np.newaxis].shape == a.shape and a.size == len(xs)
    return ok


def c_scalar_math(_):
    """division by zero, isclose, and the axioms assumed for the transcendental functions (on a grid)"""
    one, zero = np.float64(1.0), np.float64(0.0)
    ok = (one / zero == PINF) and (-one / zero == NINF) and isnan(float(zero / zero)) and isnan(float((np.array([0.0]) / 0.0)[0]))
    ok = ok and bool(np.isclose(1.0, 1.0 + 5e-6)) and not bool(np.isclose(1.0, 1.0 + 5e-5)) and not bool(np.isclose(NAN, NAN))
    g = np.linspace(-0.999, 50, 4001)
    ok = ok and bool(np.all(np.diff(np.log1p(g)) > 0)) and float(np.log1p(0.0)) == 0.0 and float(np.log1p(-1.0)) == NINF and isnan(float(np.log1p(-2.0)))
    gp = np.linspace(1e-6, 50, 4001)
    ok = ok and bool(np.all(np.diff(np.log(gp)) > 0)) and float(np.log(1.0)) == 0.0 and float(np.log(0.0)) == NINF and isnan(float(np.log(-1.0)))
    ge = np.linspace(-30, 30, 4001)
    ok = ok and bool(np.all(np.diff(np.exp(ge)) > 0)) and bool(np.all(np.exp(ge) > 0))
    ok = ok and bool(np.allclose(np.exp(np.log1p(g)), 1 + g, rtol=1e-12)) and bool(np.allclose(np.exp(np.log(gp)), gp, rtol=1e-12))
    ok = ok and bool(np.all(np.diff(np.sqrt(gp)) > 0)) and float(np.sqrt(0.0)) == 0.0 and isnan(float(np.sqrt(-1.0))) and bool(np.allclose(np.sqrt(gp) ** 2, gp))
    q = np.linspace(1e-9, 1 - 1e-9, 4001)
    p = stats.norm.ppf(q)
    ok = ok and bool(np.all(np.diff(p) > 0)) and bool(np.all(np.isfinite(p))) and float(stats.norm.ppf(0.5)) == 0.0
    ok = ok and bool(np.all(p[q < 0.5] < 0)) and bool(np.all(p[q > 0.5] > 0))
    ok = ok and float(stats.norm.ppf(0.0)) == NINF and float(stats.norm.ppf(1.0)) == PINF and isnan(float(stats.norm.ppf(NAN))) and isnan(float(stats.norm.ppf(1.5)))
    return ok


def c_tfp(_):
    from tensorflow_probability.substrates import jax as tfp
    clip = tfp.bijectors.SoftClip(low=np.array(1e-10), high=np.array(1 - 1e-10), hinge_softness=0.01)
    g = np.concatenate([np.linspace(0.0, 1.0, 2001), np.array([0.0, 1e-6, 0.25, 1 / 3, 0.5, 0.999999, 1.0])])
    g = np.unique(g)
    f = np.array(clip.forward(g))
    ok = bool(np.all(np.diff(f) > 0)) and bool(np.all(f > 1e-10)) and bool(np.all(f < 1 - 1e-10)) and isnan(float(np.array(clip.forward(np.array([NAN])))[0]))
    q = np.linspace(0.001, 0.999, 2001)          # jax computes in float32 unless x64 is enabled: compare away from the saturating ends
    ok = ok and bool(np.allclose(np.array(tfp.distributions.Normal(0.0, 1).quantile(q)), stats.norm.ppf(q), rtol=1e-4, atol=1e-5))
    return ok


def c_mean(xs):
    a = np.array(xs)
    m, m2 = float(np.mean(a)), float(a.mean())
    ok = eqf(m, m2) and isnan(float(np.mean(np.array([]))))
    if any(isnan(v) for v in xs):
        return ok and isnan(m)
    if any(math.isinf(v) for v in xs):
        return ok
    tol = 1e-9 * max(1.0, max(abs(v) for v in xs))
    ok = ok and math.isfinite(m) and min(xs) - tol <= m <= max(xs) + tol
    if all(v >= 0 for v in xs):
        ok = ok and m >= 0 and ((m == 0) == all(v == 0 for v in xs))
    sq = (a - max(xs)) ** 2                       # the way the code under contract uses it: mean of squares
    ok = ok and (float(np.mean(sq)) == 0) == all(v == max(xs) for v in xs)
    return ok


def c_nansum(xs):
    if any(math.isinf(v) for v in xs):
        return True
    nn = [v for v in xs if not isnan(v)]
    s = float(np.nansum(np.array(xs)))
    return abs(s - math.fsum(nn)) <= 1e-9 * max(1.0, max([abs(v) for v in nn] or [0.0])) * max(1, len(nn))


def c_spread(xs):
    a = np.array(xs)
    if any(math.isinf(v) for v in xs):
        return True
    nn = [v for v in xs if not isnan(v)]
    ok = True
    for f, nan_aware in ((np.var, False), (np.std, False), (np.nanvar, True), (np.nanstd, True)):
        s = float(f(a))
        if not nn or (not nan_aware and len(nn) != len(xs)):
            ok = ok and isnan(s)
        elif len(set(nn)) == 1:
            ok = ok and math.isfinite(s) and 0 <= s <= 1e-9 * max(1.0, abs(nn[0])) ** 2
        else:
            ok = ok and math.isfinite(s) and s > 0
    ok = ok and eqf(float(a.std()), float(np.std(a))) and eqf(float(a.var()), float(np.var(a)))
    return ok


def c_where(xs):
    a = np.array(xs)
    thr = xs[0]
    w = np.where(a > thr, a, np.nan)
    ok = all(eqf(float(w[i]), xs[i] if (not isnan(xs[i]) and xs[i] > thr) else NAN) for i in range(len(xs))) and not np.shares_memory(w, a)
    w2 = np.where(np.isnan(a), 0.0, a * 2)
    ok = ok and all(eqf(float(w2[i]), 0.0 if isnan(xs[i]) else xs[i] * 2) for i in range(len(xs)))
    c2 = a.reshape(len(xs), 1)
    w3 = np.where(c2 >= thr, c2, -1.0)
    ok = ok and w3.shape == c2.shape and all(eqf(float(w3[i, 0]), xs[i] if (not isnan(xs[i]) and xs[i] >= thr) else -1.0) for i in range(len(xs)))
    return ok


def c_misc(xs):
    a = np.array(xs)
    b = a[::-1].copy()
    mx, mn = np.maximum(a, b), np.minimum(a, 1.0)
    ok = all(eqf(float(mx[i]), NAN if (isnan(xs[i]) or isnan(float(b[i]))) else max(xs[i], float(b[i]))) for i in range(len(xs)))
    ok = ok and all(eqf(float(mn[i]), NAN if isnan(xs[i]) else min(xs[i], 1.0)) for i in range(len(xs)))
    sg, sq = np.sign(a), np.square(a)
    ok = ok and all(eqf(float(sg[i]), NAN if isnan(xs[i]) else (1.0 if xs[i] > 0 else (-1.0 if xs[i] < 0 else 0.0))) for i in range(len(xs)))
    ok = ok and all(eqf(float(sq[i]), xs[i] * xs[i]) for i in range(len(xs)))
    ok = ok and int(np.count_nonzero(a)) == sum(1 for v in xs if v != 0) and int(np.count_nonzero(np.isnan(a))) == sum(1 for v in xs if isnan(v))
    ok = ok and all(eqf(float(np.abs(a)[i]), abs(xs[i])) for i in range(len(xs)))
    return ok


def c_views(xs):
    a = np.array(xs)
    c2 = a.reshape(-1, 1)
    ok = c2.shape == (len(xs), 1) and np.shares_memory(c2, a) and np.shares_memory(a.ravel(), a) and np.shares_memory(c2.ravel(), c2) and a.ravel() is not None
    ok = ok and np.shares_memory(a[:, np.newaxis], a) and not np.shares_memory(a.flatten(), a) and not np.shares_memory(a.copy(), a) and not np.shares_memory(np.copy(a), a)
    ok = ok and np.reshape(c2, (len(xs),)).shape == (len(xs),) and c2.reshape(-1).shape == (len(xs),)
    return ok


CONTRACTS = {
    'numpy.nanmin/nanmax': [c_nanminmax, c_nanminmax_empty], 'numpy.min/max': [c_minmax], 'numpy.nanmedian': [c_nanmedian], 'numpy.median': [c_median],
    'numpy.nanmean': [c_nanmean], 'numpy.nanstd': [c_nanstd], 'ndarray.sum': [c_sum], 'numpy.searchsorted': [c_searchsorted], 'numpy.unique': [c_unique],
    'scipy.stats.rankdata': [c_rankdata], 'numpy.argmin': [c_argmin], 'numpy.interp': [c_interp], 'numpy.masks_and_copies': [c_mask],
    'scalar_math_and_transcendental_axioms': [c_scalar_math],
    'numpy.mean': [c_mean], 'numpy.nansum': [c_nansum], 'numpy.var/std': [c_spread, c_nanstd], 'numpy.where': [c_where],
    'numpy.elementwise_misc': [c_misc], 'numpy.views': [c_views],
    'tfp.bijectors.SoftClip': [c_tfp], 'tfp.distributions.Normal.quantile': [c_tfp],
}


def main():
    limit = int(sys.argv[1]) if len(sys.argv) > 1 else 300
    arrs = arrays(limit)
    out = {}
    for key, fns in CONTRACTS.items():
        rec = {'ok': True, 'cases': 0}
        for fn in fns:
            for xs in (arrs if fn not in (c_scalar_math, c_nanminmax_empty, c_tfp) else [[0.0]]):
                try:
                    ok = bool(fn(xs))
                except Exception as e:  # noqa: BLE001
                    ok, rec['error'] = False, repr(e)
                rec['cases'] += 1
                if not ok:
                    rec['ok'] = False
                    rec['counterexample'] = ['nan' if isnan(v) else ('-inf' if v == NINF else v) for v in xs]
                    rec['test'] = fn.__name__
                    break
            if not rec['ok']:
                break
        out[key] = rec
    print(json.dumps({'contracts': out, 'numpy': np.__version__, 'scipy': __import__('scipy').__version__}))


if __name__ == '__main__':
    main()
