"""C13 witnesses of the recorded findings, on the REAL code (run under /venv/bin/python).

usage: c13_witness.py factory <ALGORITHM> | nsga2_num_trials_seen | cmaes_trial_population | eagle_infeasible_count | eagle_pool_order
Prints one JSON line and REPRODUCED / NOT-REPRODUCED.
"""
import json
import os
import sys

sys.path.insert(0, os.path.dirname(os.path.abspath(__file__)))
import env  # noqa: E402,F401
from vizier import pyvizier as vz  # noqa: E402
from vizier import algorithms as vza  # noqa: E402


def float_problem(metric='m', n=2):
    p = vz.ProblemStatement()
    for k in range(n):
        p.search_space.root.add_float_param('x%d' % k, 0.0, 1.0)
    p.metric_information.append(vz.MetricInformation(metric, goal=vz.ObjectiveMetricGoal.MAXIMIZE))
    return p


def factory(algorithm):
    """the service's own factory + policy layer; one suggestion through an in-RAM policy supporter"""
    from vizier._src.pythia import local_policy_supporters as lps
    from vizier._src.service import policy_factory
    p = vz.ProblemStatement()
    p.search_space.root.add_int_param('i', 0, 2)
    p.search_space.root.add_categorical_param('c', ['a', 'b'])
    p.metric_information.append(vz.MetricInformation('m', goal=vz.ObjectiveMetricGoal.MAXIMIZE))
    sup = lps.InRamPolicySupporter(p)
    pol = policy_factory.DefaultPolicyFactory()(sup.GetStudyConfig(), algorithm, sup, 'study')
    try:
        ts = sup.SuggestTrials(pol, 1)
        return {'algorithm': algorithm, 'raised': None, 'suggested': len(ts)}, False
    except TypeError as e:
        return {'algorithm': algorithm, 'raised': 'TypeError', 'message': str(e)[:300]}, 'unexpected keyword' in str(e) or 'argument' in str(e)


def nsga2_num_trials_seen():
    from vizier._src.algorithms.evolution import nsga2
    p = float_problem(n=1)
    mk = lambda: nsga2.NSGA2Designer(p, population_size=3, first_survival_after=4, seed=1)  # noqa: E731
    d = mk()
    trials = []
    for i in range(6):
        t = vz.Trial(id=i + 1, parameters={'x0': i / 10})
        t.complete(vz.Measurement({'m': float(i)}))
        trials.append(t)
    d.update(vza.CompletedTrials(trials), vza.ActiveTrials([]))
    d2 = mk()
    d2.load(d.dump())

    class Counting:
        def __init__(self, inner):
            self.inner, self.calls = inner, 0

        def sample(self, count):
            self.calls += 1
            return self.inner.sample(count)
    d._sampler, d2._sampler = Counting(d._sampler), Counting(d2._sampler)
    d.suggest(2)
    d2.suggest(2)
    info = {'live_num_trials_seen': d._num_trials_seen, 'restored_num_trials_seen': d2._num_trials_seen,
            'first_survival_after': d._first_survival_after, 'live_phase': 'sampling' if d._sampler.calls else 'mutation',
            'restored_phase': 'sampling' if d2._sampler.calls else 'mutation', 'population_restored': len(d2.population) == len(d.population)}
    return info, (info['live_num_trials_seen'] != info['restored_num_trials_seen'] and info['live_phase'] != info['restored_phase'])


def cmaes_trial_population():
    import numpy as np
    from vizier._src.algorithms.designers import cmaes
    p = float_problem(n=2)
    d = cmaes.CMAESDesigner(p)
    pop = d._cma_es_jax.hyper_parameters.pop_size

    def T(i):
        t = vz.Trial(id=i, parameters={'x0': (i % 7) / 7, 'x1': (i % 5) / 5})
        t.complete(vz.Measurement({'m': float(i)}))
        return t
    d.update(vza.CompletedTrials([T(i) for i in range(1, pop)]), vza.ActiveTrials([]))
    d2 = cmaes.CMAESDesigner(p)
    d2.load(d.dump())
    q1, q2 = d._trial_population.qsize(), d2._trial_population.qsize()
    last = vza.CompletedTrials([T(pop)])
    d.update(last, vza.ActiveTrials([]))
    d2.update(last, vza.ActiveTrials([]))
    s1, s2 = d._cma_es_jax.save_state(), d2._cma_es_jax.save_state()
    diff = []
    if isinstance(s1, dict):
        for k in s1:
            try:
                if not np.allclose(np.asarray(s1[k], dtype=float), np.asarray(s2[k], dtype=float)):
                    diff.append(k)
            except Exception:
                pass
    info = {'pop_size': int(pop), 'live_queue_before': q1, 'restored_queue_before': q2, 'live_queue_after': d._trial_population.qsize(),
            'restored_queue_after': d2._trial_population.qsize(), 'cma_state_fields_that_differ': diff}
    return info, (q1 != q2 and bool(diff))


def eagle_infeasible_count():
    from vizier._src.algorithms.designers.eagle_strategy import eagle_strategy as es
    p = float_problem(metric='objective')
    cfg = es.FireflyAlgorithmConfig(infeasible_force_factor=0.1)
    mk = lambda: es.EagleStrategyDesigner(p, seed=1, config=cfg)  # noqa: E731
    d = mk()
    trials = []
    for i, s in enumerate(d.suggest(3)):
        t = s.to_trial(i + 1)
        if i == 0:
            t.complete(vz.Measurement({'objective': 0.5}), infeasibility_reason='infeasible')
        else:
            t.complete(vz.Measurement({'objective': float(i)}))
        trials.append(t)
    d.update(vza.CompletedTrials(trials), vza.ActiveTrials([]))
    d2 = mk()
    d2.load(d.dump())
    info = {'live': {'len_pool': len(d._firefly_pool._pool), '_infeasible_count': d._firefly_pool._infeasible_count, 'size': d._firefly_pool.size},
            'restored': {'len_pool': len(d2._firefly_pool._pool), '_infeasible_count': d2._firefly_pool._infeasible_count, 'size': d2._firefly_pool.size}}
    return info, (info['live']['_infeasible_count'] != info['restored']['_infeasible_count'] and info['live']['size'] != info['restored']['size'])


def eagle_pool_order():
    """pool filled in the order fly 2, fly 1 (results arriving out of order) -> real serialiser -> real decoder: listing order"""
    from vizier._src.algorithms.designers.eagle_strategy import eagle_strategy as es
    from vizier._src.algorithms.designers.eagle_strategy import serialization
    p = float_problem(metric='objective')
    d = es.EagleStrategyDesigner(p, seed=1)
    pool = d._firefly_pool
    for fid in (2, 1, 5, 3):
        t = vz.Trial(parameters={'x0': fid / 10, 'x1': 0.5})
        t.complete(vz.Measurement({'objective': float(fid)}))
        pool._max_fly_id = max(pool._max_fly_id, fid)
        pool.create_or_update_fly(t, fid)
    text = serialization.partially_serialize_firefly_pool(pool)
    restored = serialization.restore_firefly_pool(d._utils, text)
    live, back = list(pool._pool), list(restored._pool)
    # designer level: same rng state, shuffled listing of the flies
    import numpy as np
    a = [f.id_ for f in pool.get_shuffled_flies(np.random.default_rng(0))]
    b = [f.id_ for f in restored.get_shuffled_flies(np.random.default_rng(0))]
    info = {'insertion_order_live': live, 'listing_order_restored': back, 'key_types_restored': sorted({type(k).__name__ for k in restored._pool}),
            'shuffled_live': a, 'shuffled_restored': b}
    return info, (live != back or a != b)


def main():
    which = sys.argv[1]
    before = env.repo_clean_snapshot()
    try:
        if which == 'factory':
            info, rep = factory(sys.argv[2])
        else:
            info, rep = {'nsga2_num_trials_seen': nsga2_num_trials_seen, 'cmaes_trial_population': cmaes_trial_population,
                         'eagle_infeasible_count': eagle_infeasible_count, 'eagle_pool_order': eagle_pool_order}[which]()
    except Exception as e:
        import traceback
        print(json.dumps({'witness': which, 'driver_error': '%s: %s' % (type(e).__name__, str(e)[:300]), 'tb': traceback.format_exc()[-600:]}))
        print('DRIVER-ERROR')
        return 3
    info['witness'] = ' '.join(sys.argv[1:])
    info['repo_untouched'] = env.repo_clean_snapshot() == before
    print(json.dumps(info, default=str))
    print('REPRODUCED' if rep else 'NOT-REPRODUCED')
    return 0


if __name__ == '__main__':
    sys.exit(main())
