"""Verification-condition generation for `GridSearchDesigner` (C13a) from the real AST.

A small symbolic executor over the statements of the *current* source of `suggest`, `dump`, `load`,
`__init__`, `from_problem` and `_grid_points_from_parameter_config`.  Integers are mathematical
(z3 `Int`); the Python semantics assumed are listed in `ASSUMED_SEMANTICS` and copied into the
evidence.  Loops are handled by invariants (generic iteration + havoc of the loop-carried state,
which is identified by *role* - assigned in the body and live on entry - never by name or line).
A construct outside the supported subset raises `Unsupported` (checker error, exit 3, never a
violation).  A VC is reported violated only on a definite z3 `sat`.
"""
import ast
import itertools
import time

import z3

from . import sigbind

ASSUMED_SEMANTICS = [
    'Python int is unbounded (mathematical integers)',
    'a // b and a % b have floor semantics; for b > 0 (proved at each use as `no_zero_division`) they coincide with z3 div/mod',
    'dict iteration order is insertion order and identical for two dicts built by the same deterministic construction',
    'int(str(i)) == i for every int i; str(None) == "None"; str(i) != "None" for every int i',
    'len(list) equals the number of appends; a list comprehension without `if` preserves length and order',
    'range(a, b) enumerates a, a+1, ..., b-1 (empty when b <= a); `x or c` yields c exactly when x is None or 0',
    'local containers (the list of parameter dicts, the parameter dict being filled) are not aliased',
]


class Unsupported(Exception):
    pass


# library calls assumed to return one output element per input element
LENGTH_PRESERVING = {'to_parameter_values'}


_ids = itertools.count()


def fresh_int(name):
    return z3.Int('%s!%d' % (name, next(_ids)))


def fresh_bool(name):
    return z3.Bool('%s!%d' % (name, next(_ids)))


# ---------------------------------------------------------------------------------------- values
class NoneV:
    def __repr__(self):
        return 'None'


NONE = NoneV()


class OptInt:
    """Optional[int]"""
    def __init__(self, isnone, val):
        self.isnone, self.val = isnone, val

    def __repr__(self):
        return 'Opt(%s,%s)' % (self.isnone, self.val)


class StrV:
    def __init__(self, kind, payload):
        self.kind, self.payload = kind, payload     # 'const' str | 'of_int' Int | 'of_opt' OptInt | 'opaque' text

    def __repr__(self):
        return 'Str[%s:%s]' % (self.kind, self.payload)


class ListV:
    def __init__(self, lid, length, elem=None):
        self.lid, self.length, self.elem = lid, length, elem


class ElemV:
    """generic element of list `lid`"""
    def __init__(self, lid):
        self.lid = lid


class RangeV:
    def __init__(self, start, stop):
        self.start, self.stop = start, stop


class GridDictV:
    """self._grid_values: n keys K(0..n-1); list j has length L(j) and points G(j, e)"""
    def __init__(self, tag):
        self.tag = tag
        self.n = z3.Int('n_params')
        self.L = z3.Function('L', z3.IntSort(), z3.IntSort())


class GridIterV:
    """an iterable over the grid dictionary: shape is 'key' | 'list' | 'idx' or a tuple of shapes
    (keys(), values(), items(), zip(...), enumerate(...), list(...) of those)"""
    def __init__(self, gd, shape):
        self.gd, self.shape = gd, shape


def grid_iter_of(v):
    if isinstance(v, GridDictV):
        return GridIterV(v, 'key')
    return v if isinstance(v, GridIterV) else None


class GridKeyV:
    def __init__(self, gd, j):
        self.gd, self.j = gd, j


class GridListV:
    def __init__(self, gd, j):
        self.gd, self.j = gd, j


class GridPointV:
    def __init__(self, gd, j, e):
        self.gd, self.j, self.e = gd, j, e


class ParamDictV:
    def __init__(self, dig, has):
        self.dig, self.has = dig, has


class SuggestionV:
    def __init__(self, params):
        self.params = params


class MetaV:
    def __init__(self, sid, prefix):
        self.sid, self.prefix = sid, prefix


class DerivedV:
    """uninterpreted application of a method of the class (a function of its arguments and of the attributes it reads)"""
    def __init__(self, fname, args, reads):
        self.fname, self.args, self.reads = fname, args, reads


class OpaqueV:
    def __init__(self, text):
        self.text = text

    def __repr__(self):
        return 'Opaque(%s)' % self.text


class CtorV:
    def __init__(self, cls, mapping, argvals):
        self.cls, self.mapping, self.argvals = cls, mapping, argvals


def is_int(v):
    return isinstance(v, z3.ArithRef) or (isinstance(v, z3.ExprRef) and v.sort() == z3.IntSort())


def as_int(v):
    if isinstance(v, bool):
        raise Unsupported('bool used as int')
    if isinstance(v, int):
        return z3.IntVal(v)
    if is_int(v):
        return v
    raise Unsupported('integer expected, got %r' % (v,))


def eq_value(a, b):
    """z3 formula: the two symbolic values are equal (None on incomparable kinds)"""
    if a is b:
        return z3.BoolVal(True)
    if isinstance(a, (int,)) or is_int(a):
        if isinstance(b, int) or is_int(b):
            return as_int(a) == as_int(b)
        if isinstance(b, OptInt):
            return z3.And(z3.Not(b.isnone), b.val == as_int(a))
        return z3.BoolVal(False) if isinstance(b, NoneV) else None
    if isinstance(a, NoneV):
        if isinstance(b, NoneV):
            return z3.BoolVal(True)
        if isinstance(b, OptInt):
            return b.isnone
        return z3.BoolVal(False) if (isinstance(b, int) or is_int(b)) else None
    if isinstance(a, OptInt):
        if isinstance(b, OptInt):
            return z3.And(a.isnone == b.isnone, z3.Or(a.isnone, a.val == b.val))
        return eq_value(b, a)
    if isinstance(a, DerivedV) and isinstance(b, DerivedV):
        if a.fname != b.fname or len(a.args) != len(b.args) or len(a.reads) != len(b.reads):
            return z3.BoolVal(False)
        parts = []
        for x, y in list(zip(a.args, b.args)) + [(x[1], y[1]) for x, y in zip(a.reads, b.reads)]:
            e = eq_value(x, y)
            if e is None:
                return None
            parts.append(e)
        if [x[0] for x in a.reads] != [y[0] for y in b.reads]:
            return z3.BoolVal(False)
        return z3.And(*parts) if parts else z3.BoolVal(True)
    if isinstance(a, OpaqueV) and isinstance(b, OpaqueV):
        return z3.BoolVal(True) if a.text == b.text else None
    return None


# ---------------------------------------------------------------------------------------- state
class State:
    def __init__(self):
        self.env, self.heap, self.pc, self.meta, self.ghost = {}, {}, [], {}, {}
        self.lists = {}

    def fork(self):
        s = State()
        s.env, s.heap, s.pc = dict(self.env), dict(self.heap), list(self.pc)
        s.meta = {k: dict(v) for k, v in self.meta.items()}
        s.ghost = dict(self.ghost)
        s.ghost['stores'] = list(self.ghost.get('stores', []))
        s.lists = dict(self.lists)
        return s


class VC:
    def __init__(self, name, hyps, goal, detail='', hints=()):
        self.name, self.hyps, self.goal, self.detail, self.hints = name, list(hyps), goal, detail, list(hints)


def check_valid(hyps, goal, timeout_ms=10000, hints=()):
    """-> ('proved'|'violated'|'undecided', model_text, seconds)"""
    t0 = time.time()
    last = None
    for attempt in (0, 1):
        s = z3.Solver()
        s.set('timeout', timeout_ms)
        for h in hyps:
            s.add(h)
        if attempt == 1:
            for h in hints:
                s.add(h)
        s.add(z3.Not(goal))
        r = s.check()
        if r == z3.unsat:
            return 'proved', None, time.time() - t0
        if r == z3.sat:
            if attempt == 1:
                # hints are valid lemmas: a model with hints is a model without them too
                pass
            m = s.model()
            txt = ', '.join('%s=%s' % (d.name(), m[d]) for d in sorted(m.decls(), key=lambda d: d.name()) if d.arity() == 0)
            return 'violated', txt, time.time() - t0
        last = s.reason_unknown()
        if not hints:
            break
    return 'undecided', 'z3 unknown: %s' % last, time.time() - t0


def feasible(pc, extra=None, timeout_ms=3000):
    s = z3.Solver()
    s.set('timeout', timeout_ms)
    for h in pc:
        s.add(h)
    if extra is not None:
        s.add(extra)
    return s.check() != z3.unsat


# ---------------------------------------------------------------------------------------- executor
class Exec:
    """symbolic execution of one method of the class model `cm` (pyvc.stateframe.ClassModel)"""

    def __init__(self, cm, mname, prefix, inline=False):
        self.cm, self.mname, self.prefix = cm, mname, prefix
        self.inline, self.inline_stack, self.inlined = inline, [], []
        self.mod, self.ci, self.fn = cm.methods[mname]
        self.vcs = []            # VC objects
        self.notes = []
        self.opaque_bools = {}
        self.loop_ordinal = 0
        decos = [ast.unparse(d) for d in self.fn.decorator_list]
        self.kind = 'classmethod' if 'classmethod' in decos else ('staticmethod' if 'staticmethod' in decos else 'method')
        a = self.fn.args
        self.selfname = a.args[0].arg if (self.kind != 'staticmethod' and a.args) else None

    # ---- obligations
    def oblige(self, name, st, goal, detail=''):
        self.vcs.append(VC('%s.%s' % (self.prefix, name), st.pc, goal, detail))

    # ---- expressions
    def eval(self, e, st, raises):
        m = getattr(self, 'e_' + type(e).__name__, None)
        if m is None:
            raise Unsupported('expression %s: %s' % (type(e).__name__, ast.unparse(e)[:80]))
        return m(e, st, raises)

    def e_Constant(self, e, st, raises):
        v = e.value
        if v is None:
            return NONE
        if isinstance(v, bool):
            return v
        if isinstance(v, int):
            return z3.IntVal(v)
        if isinstance(v, str):
            return StrV('const', v)
        if isinstance(v, float):
            return OpaqueV(repr(v))
        raise Unsupported('constant %r' % (v,))

    def e_Name(self, e, st, raises):
        if e.id in st.env:
            return st.env[e.id]
        if e.id in self.mod.imports or e.id in self.mod.classes or e.id in self.mod.funcs:
            return OpaqueV(e.id)
        raise Unsupported('unbound name %s' % e.id)

    def e_Attribute(self, e, st, raises):
        if isinstance(e.value, ast.Name) and e.value.id == self.selfname and self.kind == 'method':
            if e.attr in st.heap:
                return st.heap[e.attr]
            c = self.cm.const_str(e)
            if c is not None:
                return StrV('const', c)
            raise Unsupported('attribute self.%s has no symbolic value' % e.attr)
        base = self.eval(e.value, st, raises)
        if isinstance(base, OpaqueV):
            return OpaqueV('%s.%s' % (base.text, e.attr))
        raise Unsupported('attribute %s of %r' % (e.attr, base))

    def e_JoinedStr(self, e, st, raises):
        return StrV('opaque', ast.unparse(e)[:60])

    def e_List(self, e, st, raises):
        for x in e.elts:
            self.eval(x, st, raises)
        lid = 'list%d' % next(_ids)
        return ListV(lid, z3.IntVal(len(e.elts)), elem=OpaqueV('literal') if e.elts else None)

    def e_Dict(self, e, st, raises):
        return OpaqueV('dict%d' % next(_ids))

    def e_Tuple(self, e, st, raises):
        return tuple(self.eval(x, st, raises) for x in e.elts)

    def e_BinOp(self, e, st, raises):
        a, b = self.eval(e.left, st, raises), self.eval(e.right, st, raises)
        a, b = self.opt_as_int(a, raises), self.opt_as_int(b, raises)
        if isinstance(e.op, ast.Add):
            return a + b
        if isinstance(e.op, ast.Sub):
            return a - b
        if isinstance(e.op, ast.Mult):
            return a * b
        if isinstance(e.op, (ast.FloorDiv, ast.Mod)):
            self.oblige('no_zero_division', st, b > 0, 'divisor of `%s` must be positive (floor semantics = z3 div/mod)' % ast.unparse(e))
            return a / b if isinstance(e.op, ast.FloorDiv) else a % b
        raise Unsupported('operator %s' % type(e.op).__name__)

    @staticmethod
    def opt_as_int(v, raises):
        if isinstance(v, OptInt):
            raises.append((v.isnone, 'TypeError'))       # arithmetic on None raises; infeasible when the path knows the value is an int
            return v.val
        return as_int(v)

    def e_UnaryOp(self, e, st, raises):
        v = self.eval(e.operand, st, raises)
        if isinstance(e.op, ast.USub):
            return -as_int(v)
        if isinstance(e.op, ast.Not):
            b = self.truth(v)
            return (not b) if isinstance(b, bool) else z3.Not(b)
        raise Unsupported('unary %s' % type(e.op).__name__)

    def truth(self, v):
        if isinstance(v, bool):
            return v
        if isinstance(v, z3.BoolRef):
            return v
        if isinstance(v, NoneV):
            return False
        if is_int(v):
            return v != 0
        if isinstance(v, OptInt):
            return z3.And(z3.Not(v.isnone), v.val != 0)
        if isinstance(v, OpaqueV):
            if v.text not in self.opaque_bools:
                self.opaque_bools[v.text] = z3.Bool('opaque[%s]' % v.text)
            return self.opaque_bools[v.text]
        raise Unsupported('truth value of %r' % (v,))

    def e_BoolOp(self, e, st, raises):
        vals = [self.eval(x, st, raises) for x in e.values]
        if isinstance(e.op, ast.Or) and len(vals) == 2:
            a, b = vals
            if isinstance(a, OptInt) and (is_int(b) or isinstance(b, int)):
                return z3.If(z3.Or(a.isnone, a.val == 0), as_int(b), a.val)
            if is_int(a) and (is_int(b) or isinstance(b, int)):
                return z3.If(a == 0, as_int(b), a)
            if isinstance(a, NoneV):
                return b
        ts = [self.truth(v) for v in vals]
        zs = [z3.BoolVal(t) if isinstance(t, bool) else t for t in ts]
        return z3.Or(*zs) if isinstance(e.op, ast.Or) else z3.And(*zs)

    def e_Compare(self, e, st, raises):
        if len(e.ops) != 1:
            raise Unsupported('chained comparison')
        a, b = self.eval(e.left, st, raises), self.eval(e.comparators[0], st, raises)
        op = e.ops[0]
        if isinstance(op, (ast.Is, ast.IsNot, ast.Eq, ast.NotEq)):
            neg = isinstance(op, (ast.IsNot, ast.NotEq))
            if isinstance(a, StrV) and isinstance(b, StrV):
                r = self.str_eq(a, b)
            else:
                r = eq_value(a, b)
            if r is None:
                r = self.truth(OpaqueV(ast.unparse(e)[:60]))
            return z3.Not(r) if neg else r
        if isinstance(op, (ast.In, ast.NotIn)):
            r = self.truth(OpaqueV(ast.unparse(ast.Compare(left=e.left, ops=[ast.In()], comparators=e.comparators))[:80]))
            return z3.Not(r) if isinstance(op, ast.NotIn) else r
        a, b = as_int(a), as_int(b)
        if isinstance(op, ast.Lt):
            return a < b
        if isinstance(op, ast.LtE):
            return a <= b
        if isinstance(op, ast.Gt):
            return a > b
        if isinstance(op, ast.GtE):
            return a >= b
        raise Unsupported('comparison %s' % type(op).__name__)

    @staticmethod
    def str_eq(a, b):
        if a.kind == 'const' and b.kind == 'const':
            return z3.BoolVal(a.payload == b.payload)
        if b.kind == 'const':
            a, b = b, a
        if a.kind == 'const':
            try:
                as_number = int(a.payload)
            except ValueError:
                as_number = None
            if b.kind == 'of_int':
                return (b.payload == as_number) if as_number is not None else z3.BoolVal(False)
            if b.kind == 'of_opt':
                if a.payload == 'None':
                    return b.payload.isnone
                return z3.And(z3.Not(b.payload.isnone), b.payload.val == as_number) if as_number is not None else z3.BoolVal(False)
        return None

    def e_IfExp(self, e, st, raises):
        t = self.truth(self.eval(e.test, st, raises))
        if isinstance(t, bool):
            return self.eval(e.body if t else e.orelse, st, raises)
        r1, r2 = [], []
        s1 = st.fork()
        s1.pc.append(t)
        v1 = self.eval(e.body, s1, r1)
        s2 = st.fork()
        s2.pc.append(z3.Not(t))
        v2 = self.eval(e.orelse, s2, r2)
        raises += [(z3.And(t, c), k) for c, k in r1] + [(z3.And(z3.Not(t), c), k) for c, k in r2]
        if isinstance(v1, NoneV) and (is_int(v2) or isinstance(v2, OptInt)):
            if isinstance(v2, OptInt):
                return OptInt(z3.Or(t, v2.isnone), v2.val)
            return OptInt(t, v2)
        if isinstance(v2, NoneV) and (is_int(v1) or isinstance(v1, OptInt)):
            if isinstance(v1, OptInt):
                return OptInt(z3.Or(z3.Not(t), v1.isnone), v1.val)
            return OptInt(z3.Not(t), v1)
        if is_int(v1) and is_int(v2):
            return z3.If(t, v1, v2)
        if isinstance(v1, OptInt) and isinstance(v2, OptInt):
            return OptInt(z3.If(t, v1.isnone, v2.isnone), z3.If(t, v1.val, v2.val))
        raise Unsupported('conditional expression over %r / %r' % (v1, v2))

    def e_Subscript(self, e, st, raises):
        base = self.eval(e.value, st, raises)
        idx = self.eval(e.slice, st, raises)
        return self.getitem(base, idx, st, raises, e)

    def getitem(self, base, idx, st, raises, node):
        if isinstance(base, GridDictV):
            if isinstance(idx, GridKeyV) and idx.gd is base:
                return GridListV(base, idx.j)
            raise Unsupported('grid dict indexed by %r' % (idx,))
        if isinstance(base, GridListV):
            i = as_int(idx)
            self.oblige('digit_in_range', st, z3.And(i >= 0, i < base.gd.L(base.j)),
                        'index used in `%s` must address the grid list of the current parameter (0 <= idx < len)' % ast.unparse(node)[:80])
            return GridPointV(base.gd, base.j, i)
        if isinstance(base, MetaV):
            if not (isinstance(idx, StrV) and idx.kind == 'const'):
                raise Unsupported('metadata key is not a constant string')
            k = (base.prefix, idx.payload)
            store = st.meta[base.sid]
            if k not in store:
                raises.append((z3.BoolVal(True), 'KeyError'))
                return StrV('opaque', 'missing')
            return store[k]
        raise Unsupported('subscript of %r' % (base,))

    def e_ListComp(self, e, st, raises):
        if len(e.generators) != 1 or e.generators[0].ifs or not isinstance(e.generators[0].target, ast.Name):
            raise Unsupported('list comprehension shape: %s' % ast.unparse(e)[:80])
        it = self.eval(e.generators[0].iter, st, raises)
        if isinstance(it, ListV):
            s2 = st.fork()
            s2.env[e.generators[0].target.id] = ElemV(it.lid)
            el = self.eval(e.elt, s2, raises)
            lid = 'list%d' % next(_ids)
            return ListV(lid, it.length, elem=el)
        if isinstance(it, RangeV):
            # generic iteration a of the comprehension; if the element runs the loop over the grid this is the index loop
            n = z3.If(it.stop > it.start, it.stop - it.start, 0)
            a = fresh_int('a')
            s2 = st.fork()
            s2.pc += [a >= 0, a < n]
            s2.env[e.generators[0].target.id] = it.start + a
            s2.ghost.update({'i0': it.start + a, 'a': a, 'appends': [], 'range': it})
            s2.ghost.pop('inner', None)
            heap_before = dict(s2.heap)
            r2 = []
            el = self.eval(e.elt, s2, r2)
            for cond, cls in r2:
                if feasible(s2.pc, cond):
                    raise Unsupported('comprehension element may raise %s' % cls)
            if set(s2.heap) != set(heap_before) or any(s2.heap[k] is not heap_before[k] for k in heap_before):
                raise Unsupported('comprehension element assigns attributes of self')
            lid = 'list%d' % next(_ids)
            if 'inner' in s2.ghost:
                outer = {'a': a, 'n_iter': n, 'start': it.start, 'stop': it.stop, 'list': lid, 'len0': z3.IntVal(0), 'iterations': [(s2, el)]}
                st.ghost['outer'] = outer
                self.outer = outer
                return ListV(lid, n, elem=None)
            return ListV(lid, n, elem=OpaqueV(ast.unparse(e.elt)[:40]))
        if isinstance(it, OpaqueV):
            ln = z3.Int('len[%s]' % it.text)
            return ListV('list%d' % next(_ids), ln, elem=OpaqueV(ast.unparse(e.elt)[:40]))
        raise Unsupported('comprehension over %r' % (it,))

    def e_GeneratorExp(self, e, st, raises):
        return self.e_ListComp(e, st, raises)     # only consumed by list(...) / tuple(...): same length and order

    # ---- calls
    def call_args(self, c, st, raises):
        if any(isinstance(a, ast.Starred) for a in c.args) or any(k.arg is None for k in c.keywords):
            raise Unsupported('star-arguments in %s' % ast.unparse(c)[:80])
        return [self.eval(a, st, raises) for a in c.args], {k.arg: self.eval(k.value, st, raises) for k in c.keywords}

    def e_Call(self, c, st, raises):
        f = c.func
        if isinstance(f, ast.Name):
            return self.call_name(f.id, c, st, raises)
        if isinstance(f, ast.Attribute):
            # module-level library / pyvizier constructors
            head = f
            while isinstance(head, ast.Attribute):
                head = head.value
            if isinstance(head, ast.Name) and head.id not in st.env and head.id != self.selfname and head.id in self.mod.imports:
                return self.call_library(f, c, st, raises)
            if isinstance(f.value, ast.Name) and f.value.id == self.selfname and self.kind == 'method' and f.attr in self.cm.methods \
                    and self.inline and f.attr not in self.cm.properties:
                return self.inline_call(f.attr, c, st, raises)
            if isinstance(f.value, ast.Name) and f.value.id == self.selfname and self.kind == 'method' and f.attr in self.cm.methods:
                args, kw = self.call_args(c, st, raises)
                if kw:
                    raise Unsupported('keyword call of self.%s' % f.attr)
                reads = sorted(p[0] for p in self.cm.effects(f.attr).R if len(p) == 1 and p[0] in st.heap)
                return DerivedV(f.attr, tuple(args), tuple((r, st.heap[r]) for r in reads))
            recv = self.eval(f.value, st, raises)
            return self.call_method(recv, f.attr, c, st, raises)
        raise Unsupported('call %s' % ast.unparse(c)[:80])

    def inline_call(self, mname, c, st, raises):
        """`self.helper(args)`: the helper's body is executed in place (fresh local environment, shared heap / path / ghost state)"""
        if mname in self.inline_stack or len(self.inline_stack) >= 4:
            raise Unsupported('recursive / deeply nested helper call self.%s' % mname)
        m2, c2, fn = self.cm.methods[mname]
        decos = [ast.unparse(d) for d in fn.decorator_list]
        if decos:
            raise Unsupported('decorated helper %s%s' % (mname, decos))
        args, kw = self.call_args(c, st, raises)
        sig = sigbind.sig_of_def(fn, drop_first=True)
        ok, why, mapping = sigbind.bind(sig, len(args), list(kw))
        if not ok or sig.vararg or sig.kwarg:
            raise Unsupported('call of helper %s does not bind: %s' % (mname, why))
        env = {p: (args[w[1]] if w[0] == 'pos' else kw[w[1]]) for p, w in mapping.items() if isinstance(w, tuple)}
        a = fn.args
        pos = list(a.posonlyargs) + list(a.args)
        dflt = dict(zip([x.arg for x in pos[len(pos) - len(a.defaults):]], a.defaults))
        dflt.update({x.arg: d for x, d in zip(a.kwonlyargs, a.kw_defaults) if d is not None})
        for pn, d in dflt.items():
            if pn not in env:
                if not isinstance(d, ast.Constant):
                    raise Unsupported('non-constant default of %s.%s' % (mname, pn))
                env[pn] = self.e_Constant(d, st, raises)
        saved = (self.fn, self.selfname, self.kind, self.mod, self.ci)
        caller_env = st.env
        st.env = env
        self.fn, self.selfname, self.kind, self.mod, self.ci = fn, fn.args.args[0].arg, 'method', m2, c2
        self.inline_stack.append(mname)
        if mname not in self.inlined:
            self.inlined.append(mname)
        try:
            outs = self.block(fn.body, st)
        finally:
            self.fn, self.selfname, self.kind, self.mod, self.ci = saved
            self.inline_stack.pop()
            st.env = caller_env
        if len(outs) != 1 or outs[0][1] not in ('return', 'normal'):
            raise Unsupported('helper %s has %d paths / raises (exactly one normal path supported): %s' % (mname, len(outs), [k for _, k, _ in outs]))
        s2, kind, v = outs[0]
        st.heap, st.pc, st.meta, st.ghost, st.lists = s2.heap, s2.pc, s2.meta, s2.ghost, s2.lists
        return v if kind == 'return' else NONE

    def call_name(self, name, c, st, raises):
        if name == 'len' and len(c.args) == 1:
            v = self.eval(c.args[0], st, raises)
            if isinstance(v, ListV):
                return v.length
            if isinstance(v, GridListV):
                return v.gd.L(v.j)
            if isinstance(v, GridDictV):
                return v.n
            if isinstance(v, OpaqueV):
                return z3.Int('len[%s]' % v.text)
            raise Unsupported('len of %r' % (v,))
        if name in ('list', 'tuple', 'iter') and len(c.args) == 1 and not c.keywords:
            v = self.eval(c.args[0], st, raises)
            gi = grid_iter_of(v)
            if gi is not None:
                return gi
            if isinstance(v, ListV):
                return v
            raise Unsupported('%s of %r' % (name, v))
        if name == 'zip' and len(c.args) >= 2 and not c.keywords:
            gis = [grid_iter_of(self.eval(a, st, raises)) for a in c.args]
            if all(g is not None for g in gis) and all(g.gd is gis[0].gd for g in gis):
                return GridIterV(gis[0].gd, tuple(g.shape for g in gis))
            raise Unsupported('zip over %s' % ast.unparse(c)[:80])
        if name == 'enumerate' and len(c.args) == 1 and not c.keywords:
            gi = grid_iter_of(self.eval(c.args[0], st, raises))
            if gi is not None:
                return GridIterV(gi.gd, ('idx', gi.shape))
            raise Unsupported('enumerate over %s' % ast.unparse(c)[:80])
        if name == 'range':
            args, _ = self.call_args(c, st, raises)
            args = [self.opt_as_int(x, raises) for x in args]
            if len(args) == 1:
                return RangeV(z3.IntVal(0), args[0])
            if len(args) == 2:
                return RangeV(args[0], args[1])
            raise Unsupported('range with a step')
        if name == 'str' and len(c.args) == 1:
            v = self.eval(c.args[0], st, raises)
            if is_int(v):
                return StrV('of_int', v)
            if isinstance(v, OptInt):
                return StrV('of_opt', v)
            if isinstance(v, NoneV):
                return StrV('const', 'None')
            if isinstance(v, StrV):
                return v
            raise Unsupported('str of %r' % (v,))
        if name == 'int' and len(c.args) == 1:
            v = self.eval(c.args[0], st, raises)
            if is_int(v):
                return v
            if isinstance(v, StrV):
                if v.kind == 'of_int':
                    return v.payload
                if v.kind == 'of_opt':
                    raises.append((v.payload.isnone, 'ValueError'))
                    return v.payload.val
                if v.kind == 'const':
                    try:
                        return z3.IntVal(int(v.payload))
                    except ValueError:
                        raises.append((z3.BoolVal(True), 'ValueError'))
                        return fresh_int('bad')
                raises.append((fresh_bool('int_fails'), 'ValueError'))
                return fresh_int('int_of_str')
            raise Unsupported('int of %r' % (v,))
        if name == 'divmod' and len(c.args) == 2:
            a, b = as_int(self.eval(c.args[0], st, raises)), as_int(self.eval(c.args[1], st, raises))
            self.oblige('no_zero_division', st, b > 0, 'divisor of `%s` must be positive' % ast.unparse(c))
            return (a / b, a % b)
        if name in ('cls', self.ci.name) or name in self.mod.classes:
            target = self.ci if name in ('cls', self.ci.name) else self.mod.classes[name]
            sig, _ = sigbind.sig_of_class(self.mod, target)
            args, kw = self.call_args(c, st, raises)
            ok, why, mapping = sigbind.bind(sig, len(args), list(kw))
            if not ok:
                raise Unsupported('constructor call does not bind: %s' % (why,))
            vals = {p: (args[w[1]] if w[0] == 'pos' else kw[w[1]]) for p, w in mapping.items() if isinstance(w, tuple)}
            return CtorV(target.name, mapping, vals)
        raise Unsupported('call of %s' % name)

    def call_library(self, f, c, st, raises):
        src = ast.unparse(f)
        last = f.attr
        head = src.split('.')[0]
        target = self.mod.imports.get(head, '')
        if 'logging' in target or head == 'logging':
            for a in c.args:
                self.eval(a, st, [])         # arguments of a log call are evaluated for support only
            return NONE
        if last == 'ParameterDict' and not c.args and not c.keywords:
            return ParamDictV(z3.K(z3.IntSort(), z3.IntVal(-1)), z3.K(z3.IntSort(), z3.BoolVal(False)))
        if last == 'TrialSuggestion':
            args, kw = self.call_args(c, st, raises)
            p = kw.get('parameters', args[0] if args else None)
            return SuggestionV(p)
        if last == 'Metadata' and not c.args and not c.keywords:
            sid = 'md%d' % next(_ids)
            st.meta[sid] = {}
            return MetaV(sid, ())
        args, kw = self.call_args(c, st, raises)
        if last == 'linspace':
            num = kw.get('num', args[2] if len(args) > 2 else None)
            if num is not None and is_int(num):
                return ListV('list%d' % next(_ids), z3.If(num >= 0, num, 0), elem=OpaqueV('linspace'))
        return OpaqueV(ast.unparse(c)[:80])

    def call_method(self, recv, name, c, st, raises):
        if isinstance(recv, GridDictV) and name in ('items', 'keys', 'values') and not c.args and not c.keywords:
            return GridIterV(recv, {'items': ('key', 'list'), 'keys': 'key', 'values': 'list'}[name])
        if isinstance(recv, MetaV):
            if name in ('ns',) and len(c.args) == 1:
                k = self.eval(c.args[0], st, raises)
                if not (isinstance(k, StrV) and k.kind == 'const'):
                    raise Unsupported('namespace component is not a constant string')
                return MetaV(recv.sid, recv.prefix + (k.payload,))
            if name == 'get' and c.args:
                k = self.eval(c.args[0], st, raises)
                store = st.meta[recv.sid]
                if isinstance(k, StrV) and k.kind == 'const':
                    if (recv.prefix, k.payload) in store:
                        return store[(recv.prefix, k.payload)]
                    dflt = [kw.value for kw in c.keywords if kw.arg == 'default'] + list(c.args[1:2])
                    return self.eval(dflt[0], st, raises) if dflt else NONE
            raise Unsupported('Metadata.%s' % name)
        if isinstance(recv, OpaqueV):
            args = [self.eval(a, st, raises) for a in c.args]
            if name in LENGTH_PRESERVING and len(args) == 1 and isinstance(args[0], ListV):
                return ListV('list%d' % next(_ids), args[0].length, elem=OpaqueV(name))
            return OpaqueV('%s.%s(..)' % (recv.text, name))
        raise Unsupported('method %s on %r' % (name, recv))

    # ---- statements
    def run(self, st):
        body = self.fn.body
        return self.block(body, st)

    def block(self, stmts, st):
        """-> [(state, kind, payload)] with kind in normal/return/raise"""
        live = [st]
        done = []
        for s in stmts:
            nxt = []
            for cur in live:
                for (s2, kind, payload) in self.stmt(s, cur):
                    if kind == 'normal':
                        nxt.append(s2)
                    else:
                        done.append((s2, kind, payload))
            live = nxt
            if not live:
                break
        return [(s, 'normal', None) for s in live] + done

    def split_raises(self, st, raises):
        """-> (normal state or None, [(state, 'raise', cls)])"""
        outs = []
        cur = st
        for cond, cls in raises:
            c = z3.simplify(cond) if isinstance(cond, z3.ExprRef) else z3.BoolVal(bool(cond))
            if feasible(cur.pc, c):
                s2 = cur.fork()
                s2.pc.append(c)
                outs.append((s2, 'raise', cls))
            cur = cur.fork()
            cur.pc.append(z3.Not(c))
            if not feasible(cur.pc):
                return None, outs
        return cur, outs

    def stmt(self, s, st):
        m = getattr(self, 's_' + type(s).__name__, None)
        if m is None:
            raise Unsupported('statement %s: %s' % (type(s).__name__, ast.unparse(s)[:80]))
        return m(s, st)

    def s_Pass(self, s, st):
        return [(st, 'normal', None)]

    def s_Expr(self, s, st):
        if isinstance(s.value, ast.Constant):
            return [(st, 'normal', None)]
        st = st.fork()
        raises = []
        v = s.value
        if isinstance(v, ast.Call) and isinstance(v.func, ast.Attribute) and v.func.attr == 'append' and isinstance(v.func.value, ast.Name) \
                and isinstance(st.env.get(v.func.value.id), ListV) and len(v.args) == 1:
            lst = st.env[v.func.value.id]
            x = self.eval(v.args[0], st, raises)
            st.env[v.func.value.id] = ListV(lst.lid, lst.length + 1, lst.elem)
            st.ghost.setdefault('appends', [])
            st.ghost['appends'] = st.ghost['appends'] + [(lst.lid, x)]
        else:
            self.eval(v, st, raises)
        n, outs = self.split_raises(st, raises)
        return ([(n, 'normal', None)] if n is not None else []) + outs

    def assign_to(self, t, v, st, raises):
        if isinstance(t, ast.Name):
            st.env[t.id] = v
        elif isinstance(t, ast.Attribute) and isinstance(t.value, ast.Name) and t.value.id == self.selfname:
            st.heap[t.attr] = v
        elif isinstance(t, (ast.Tuple, ast.List)):
            if isinstance(v, OpaqueV):
                v = tuple(z3.Int('%s[%d]' % (v.text, i)) for i in range(len(t.elts)))     # numbers, only compared / used as range bounds
            if not isinstance(v, tuple) or len(v) != len(t.elts):
                raise Unsupported('tuple assignment of %r' % (v,))
            for tt, vv in zip(t.elts, v):
                self.assign_to(tt, vv, st, raises)
        elif isinstance(t, ast.Subscript):
            base = self.eval(t.value, st, raises)
            k = self.eval(t.slice, st, raises)
            if isinstance(base, ParamDictV):
                if not isinstance(t.value, ast.Name):
                    raise Unsupported('store into a parameter dict that is not a local name')
                if not isinstance(k, GridKeyV):
                    raise Unsupported('parameter dict key %r is not a grid key' % (k,))
                if not isinstance(v, GridPointV):
                    raise Unsupported('parameter dict value %r is not a grid point' % (v,))
                st.env[t.value.id] = ParamDictV(z3.Store(base.dig, k.j, v.e), z3.Store(base.has, k.j, z3.BoolVal(True)))
                st.ghost['stores'] = st.ghost.get('stores', []) + [(k.j, v.j, v.e)]
            elif isinstance(base, MetaV):
                if not (isinstance(k, StrV) and k.kind == 'const'):
                    raise Unsupported('metadata key is not a constant string')
                st.meta[base.sid][(base.prefix, k.payload)] = v
            elif isinstance(base, OpaqueV):
                if isinstance(t.value, ast.Attribute) and isinstance(t.value.value, ast.Name) and t.value.value.id == self.selfname:
                    st.heap[t.value.attr] = OpaqueV('%s<-store' % base.text)
            else:
                raise Unsupported('store into %r' % (base,))
        else:
            raise Unsupported('assignment target %s' % ast.unparse(t)[:60])

    def s_Assign(self, s, st):
        st = st.fork()
        raises = []
        v = self.eval(s.value, st, raises)
        n, outs = self.split_raises(st, raises)
        if n is None:
            return outs
        for t in s.targets:
            self.assign_to(t, v, n, raises)
        return [(n, 'normal', None)] + outs

    def s_AnnAssign(self, s, st):
        if s.value is None:
            return [(st, 'normal', None)]
        return self.s_Assign(ast.Assign(targets=[s.target], value=s.value), st)

    def s_AugAssign(self, s, st):
        load = ast.copy_location(ast.fix_missing_locations(_as_load(s.target)), s)
        return self.s_Assign(ast.Assign(targets=[s.target], value=ast.BinOp(left=load, op=s.op, right=s.value)), st)

    def s_Return(self, s, st):
        st = st.fork()
        raises = []
        v = self.eval(s.value, st, raises) if s.value is not None else NONE
        st.ghost['ret_node'] = s
        n, outs = self.split_raises(st, raises)
        return ([(n, 'return', v)] if n is not None else []) + outs

    def s_Raise(self, s, st):
        cls = 'Exception'
        if s.exc is not None:
            f = s.exc.func if isinstance(s.exc, ast.Call) else s.exc
            cls = ast.unparse(f).split('.')[-1]
        return [(st, 'raise', cls)]

    def s_If(self, s, st):
        st = st.fork()
        raises = []
        t = self.truth(self.eval(s.test, st, raises))
        n, outs = self.split_raises(st, raises)
        if n is None:
            return outs
        res = list(outs)
        if isinstance(t, bool):
            return res + self.block(s.body if t else s.orelse, n)
        for cond, body in ((t, s.body), (z3.Not(t), s.orelse)):
            if feasible(n.pc, cond):
                s2 = n.fork()
                s2.pc.append(cond)
                res += self.block(body, s2)
        return res

    def s_Try(self, s, st):
        if s.finalbody:
            raise Unsupported('try/finally')
        res = []
        for (s2, kind, payload) in self.block(s.body, st):
            if kind == 'raise':
                handled = False
                for h in s.handlers:
                    names = []
                    if h.type is None:
                        names = None
                    elif isinstance(h.type, ast.Tuple):
                        names = [ast.unparse(x).split('.')[-1] for x in h.type.elts]
                    else:
                        names = [ast.unparse(h.type).split('.')[-1]]
                    if names is None or payload in names or 'Exception' in names or 'BaseException' in names:
                        s3 = s2.fork()
                        if h.name:
                            s3.env[h.name] = OpaqueV('exc')
                        res += self.block(h.body, s3)
                        handled = True
                        break
                if not handled:
                    res.append((s2, kind, payload))
            elif kind == 'normal' and s.orelse:
                res += self.block(s.orelse, s2)
            else:
                res.append((s2, kind, payload))
        return res

    # ---- loops
    def s_For(self, s, st):
        if s.orelse:
            raise Unsupported('for/else')
        st = st.fork()
        raises = []
        it = self.eval(s.iter, st, raises)
        n, outs = self.split_raises(st, raises)
        if n is None:
            return outs
        ordinal = self.loop_ordinal
        self.loop_ordinal += 1
        if isinstance(it, RangeV):
            return outs + self.loop_range(s, it, n, ordinal)
        gi = grid_iter_of(it)
        if gi is not None:
            return outs + self.loop_grid(s, gi.gd, n, ordinal, shape=gi.shape)
        if isinstance(it, OpaqueV):
            return outs + self.loop_opaque(s, it, n, ordinal)
        raise Unsupported('loop over %r' % (it,))

    @staticmethod
    def assigned_in(body):
        names, heap = set(), set()
        for root in body:
            for n in ast.walk(root):
                tg = []
                if isinstance(n, ast.Assign):
                    tg = n.targets
                elif isinstance(n, (ast.AugAssign, ast.AnnAssign)):
                    tg = [n.target]
                elif isinstance(n, ast.For):
                    tg = [n.target]
                elif isinstance(n, ast.Call) and isinstance(n.func, ast.Attribute) and n.func.attr in ('append', 'extend', 'pop', 'insert', 'clear', 'remove') \
                        and isinstance(n.func.value, ast.Name):
                    names.add(n.func.value.id)
                for t in tg:
                    for tt in (t.elts if isinstance(t, (ast.Tuple, ast.List)) else [t]):
                        base = tt
                        while isinstance(base, ast.Subscript):
                            base = base.value
                        if isinstance(base, ast.Name):
                            names.add(base.id)
                        elif isinstance(base, ast.Attribute) and isinstance(base.value, ast.Name):
                            heap.add(base.attr)
        return names, heap

    def loop_opaque(self, s, it, st, ordinal):
        """loop over an opaque iterable: the attributes / containers it fills become opaque functions of the constructor arguments"""
        names, heap = self.assigned_in(s.body)
        for n in names:
            if n in st.env and not isinstance(st.env[n], OpaqueV):
                raise Unsupported('loop over %s modifies the non-opaque local %s' % (it.text, n))
        for h in heap:
            if h in st.heap and not isinstance(st.heap[h], OpaqueV):
                raise Unsupported('loop over %s modifies the attribute %s' % (it.text, h))
            st.heap[h] = OpaqueV('%s.filled_by_loop_over[%s]' % (h, it.text))
        return [(st, 'normal', None)]

    def loop_range(self, s, rng, st, ordinal):
        if not isinstance(s.target, ast.Name):
            raise Unsupported('range loop target')
        names, heap = self.assigned_in(s.body)
        if heap:
            raise Unsupported('attributes %s assigned inside the range loop' % sorted(heap))
        carried = [n for n in names if n in st.env and n != s.target.id]
        lists = [n for n in carried if isinstance(st.env[n], ListV)]
        if sorted(lists) != sorted(carried) or len(lists) != 1:
            raise Unsupported('range loop carries %s (supported: exactly one list that is appended to)' % sorted(carried))
        lname = lists[0]
        l0 = st.env[lname]
        n_iter = z3.If(rng.stop > rng.start, rng.stop - rng.start, 0)
        a = fresh_int('a')
        body_st = st.fork()
        body_st.pc += [a >= 0, a < n_iter]
        body_st.env[s.target.id] = rng.start + a
        body_st.env[lname] = ListV(l0.lid, l0.length + a, l0.elem)
        body_st.ghost.update({'i0': rng.start + a, 'a': a, 'appends': [], 'range': rng, 'outer_list': l0.lid})
        outer = {'a': a, 'n_iter': n_iter, 'start': rng.start, 'stop': rng.stop, 'list': l0.lid, 'len0': l0.length, 'iterations': []}
        self.outer = outer
        for (s2, kind, payload) in self.block(s.body, body_st):
            if kind != 'normal':
                raise Unsupported('%s inside the range loop' % kind)
            ap = [x for x in s2.ghost.get('appends', []) if x[0] == l0.lid]
            if len(ap) != 1:
                raise Unsupported('the list is appended %d times in one iteration (exactly once supported)' % len(ap))
            outer['iterations'].append((s2, ap[0][1]))
        post = st.fork()
        post.ghost['outer'] = outer
        post.env[lname] = ListV(l0.lid, l0.length + n_iter, l0.elem)
        for n in names:
            if n not in st.env:
                post.env.pop(n, None)
        return [(post, 'normal', None)]

    @staticmethod
    def bind_grid_target(target, shape, gd, j, env):
        """binds the loop target to the j-th key / value list / position according to the iterable's shape; -> bound names"""
        if isinstance(shape, tuple):
            if not isinstance(target, (ast.Tuple, ast.List)) or len(target.elts) != len(shape):
                raise Unsupported('loop target %s does not match the iterable over the grid' % ast.unparse(target))
            out = []
            for t, sh in zip(target.elts, shape):
                out += Exec.bind_grid_target(t, sh, gd, j, env)
            return out
        if not isinstance(target, ast.Name):
            raise Unsupported('loop target %s' % ast.unparse(target))
        if env is not None:
            env[target.id] = {'key': GridKeyV(gd, j), 'list': GridListV(gd, j), 'idx': j}[shape]
        return [target.id]

    def loop_grid(self, s, gd, st, ordinal, shape='key'):
        """`for key in self._grid_values`: invariant index = t*W + val, 0 <= val < W, W = product of the radices seen."""
        if 'i0' not in st.ghost:
            raise Unsupported('the loop over the grid is not reached from a loop / comprehension over range(...) of indices')
        targets = self.bind_grid_target(s.target, shape, gd, None, None)
        names, heap = self.assigned_in(s.body)
        if heap:
            raise Unsupported('attributes %s assigned inside the grid loop' % sorted(heap))
        carried = [n for n in names if n in st.env and n not in targets]
        ints = [n for n in carried if is_int(st.env[n])]
        pds = [n for n in carried if isinstance(st.env[n], ParamDictV)]
        if len(ints) != 1 or len(pds) != 1 or len(carried) != 2:
            raise Unsupported('grid loop carries %s (supported: one integer and one parameter dict)' % sorted(carried))
        tname, pdname = ints[0], pds[0]
        i0 = st.ghost['i0']
        L = gd.L
        uid = next(_ids)
        Wf = z3.Function('W!%d' % uid, z3.IntSort(), z3.IntSort())       # W(j) = prod_{k<j} L(k)
        Vf = z3.Function('V!%d' % uid, z3.IntSort(), z3.IntSort())       # V(j) = sum_{k<j} D(k)*W(k)
        Df = z3.Function('D!%d' % uid, z3.IntSort(), z3.IntSort())       # D(k) = digit chosen for key k
        kst = fresh_int('k')

        def inv(j, t, pd):
            return [i0 == t * Wf(j) + Vf(j), Vf(j) >= 0, Vf(j) < Wf(j), t >= 0, Wf(j) >= 1,
                    z3.Implies(z3.And(kst >= 0, kst < j),
                               z3.And(z3.Select(pd.has, kst), z3.Select(pd.dig, kst) >= 0, z3.Select(pd.dig, kst) < L(kst),
                                      z3.Select(pd.dig, kst) == Df(kst)))]
        ghost_def0 = [Wf(0) == 1, Vf(0) == 0]
        # --- establishment
        s0 = st.fork()
        s0.pc += ghost_def0
        self.oblige('inner_inv.init', s0, z3.And(*inv(z3.IntVal(0), as_int(st.env[tname]), st.env[pdname])),
                    'index = t*1 + 0 with t the loop-carried integer on entry; requires index >= 0')
        # --- preservation (generic iteration j)
        j = fresh_int('j')
        t = fresh_int('t')
        pd = ParamDictV(z3.Array('dig!%d' % uid, z3.IntSort(), z3.IntSort()), z3.Array('has!%d' % uid, z3.IntSort(), z3.BoolSort()))
        b = st.fork()
        b.pc += [j >= 0, j < gd.n, L(j) >= 1] + inv(j, t, pd)
        b.env[tname], b.env[pdname] = t, pd
        self.bind_grid_target(s.target, shape, gd, j, b.env)
        b.ghost['stores'] = []
        n_before = len(self.vcs)
        outs = self.block(s.body, b)
        for (s2, kind, payload) in outs:
            if kind != 'normal':
                raise Unsupported('%s inside the grid loop' % kind)
            stores = s2.ghost.get('stores', [])
            if not stores:
                self.oblige('every_parameter_assigned', s2, z3.BoolVal(False), 'an iteration of the grid loop stores no value for its parameter')
                continue
            kj, vj, e = stores[-1]
            self.oblige('value_from_own_grid', s2, z3.And(*[z3.And(k == j, v == j) for (k, v, _) in stores]),
                        'the value stored under parameter j comes from the grid list of parameter j')
            t2, pd2 = as_int(s2.env[tname]), s2.env[pdname]
            gdef = [Df(j) == e, Wf(j + 1) == Wf(j) * L(j), Vf(j + 1) == Vf(j) + Df(j) * Wf(j)]
            s3 = s2.fork()
            s3.pc += gdef
            hint = mixed_radix_step_instance(t, L(j), Wf(j), Vf(j))
            self.vcs.append(VC('%s.inner_inv.preserved' % self.prefix, s3.pc, z3.And(*inv(j + 1, t2, pd2)),
                               'index = t\'*(W*L) + (val + digit*W), 0 <= val\' < W*L, digits recorded'))
            self.vcs[-1].hints = [hint]
            self.vcs.append(VC('%s.digit_is_mixed_radix' % self.prefix, s3.pc, z3.And(e == (i0 / Wf(j)) % L(j), e >= 0, e < L(j)),
                               'the digit stored for parameter j is (index div W_j) mod L_j'))
            self.vcs[-1].hints = [hint, i0 / Wf(j) == t]
        # --- exit
        tn = fresh_int('t_exit')
        pdn = ParamDictV(z3.Array('dig_exit!%d' % uid, z3.IntSort(), z3.IntSort()), z3.Array('has_exit!%d' % uid, z3.IntSort(), z3.BoolSort()))
        post = st.fork()
        post.pc += [gd.n >= 0] + inv(gd.n, tn, pdn)
        post.env[tname], post.env[pdname] = tn, pdn
        for n in names:
            if n not in st.env:
                post.env.pop(n, None)
        for x in targets:
            post.env.pop(x, None)
        post.ghost['inner'] = {'N': Wf(gd.n), 'val': Vf(gd.n), 'q': tn, 'pd': pdn, 'D': Df, 'k': kst, 'pdname': pdname, 'W': Wf}
        return [(post, 'normal', None)]


def _as_load(t):
    t2 = ast.parse(ast.unparse(t), mode='eval').body
    return t2


def mixed_radix_step_instance(t, L, W, val):
    """the hint lemma (proved separately, C13.grid.lemma.mixed_radix_step) instantiated at the loop's terms"""
    return z3.Implies(z3.And(t >= 0, L >= 1, W >= 1, val >= 0, val < W),
                      z3.And(t * W + val == (t / L) * (L * W) + ((t % L) * W + val), (t % L) * W + val < L * W,
                             (t % L) * W + val >= 0, t == (t / L) * L + t % L, t % L >= 0, t % L < L, t / L >= 0))


def lemma_mixed_radix_step():
    t, L, W, val = z3.Ints('t L W val')
    q, r = z3.Ints('q r')
    # stated over the Euclidean decomposition t = q*L + r (what div/mod mean), so that the proof is pure ring arithmetic
    hyps = [t >= 0, L >= 1, W >= 1, val >= 0, val < W, t == q * L + r, r >= 0, r < L]
    goal = z3.And(t * W + val == q * (L * W) + (r * W + val), r * W + val < L * W, r * W + val >= 0, q >= 0)
    return hyps, goal


def lemma_injective_step():
    """one step of the relational induction: equal digits so far and equal values => equal values after the step"""
    v1, v2, d1, d2, W = z3.Ints('v1 v2 d1 d2 W')
    return [v1 == v2, d1 == d2], (v1 + d1 * W == v2 + d2 * W)


def lemma_injective_window():
    """two indices of one window of N consecutive indices with the same value (= same digit vector) are equal"""
    i1, i2, q1, q2, v, N, c = z3.Ints('i1 i2 q1 q2 v N c')
    hyps = [N >= 1, i1 == q1 * N + v, i2 == q2 * N + v, v >= 0, v < N, c <= i1, i1 < c + N, c <= i2, i2 < c + N]
    return hyps, i1 == i2, [z3.Implies(q1 - q2 >= 1, (q1 - q2) * N >= N), z3.Implies(q2 - q1 >= 1, (q2 - q1) * N >= N),
                            (q1 - q2) * N == q1 * N - q2 * N]


# ======================================================================================== contract of GridSearchDesigner
ATTR_INDEX, ATTR_SEED, ATTR_GRID = '_current_index', '_shuffle_seed', '_grid_values'


def _param_values(ex, st, skip=1):
    """symbolic values for the parameters of the method: Optional[int] / default None -> OptInt, int -> Int, else opaque"""
    a = ex.fn.args
    params = list(a.posonlyargs) + list(a.args) + list(a.kwonlyargs)
    out = {}
    for p in params[skip:]:
        ann = ast.unparse(p.annotation) if p.annotation is not None else ''
        if 'int' in ann and ('Optional' in ann or 'None' in ann):
            v = OptInt(z3.Bool('%s_is_none' % p.arg), z3.Int(p.arg))
        elif ann.strip() == 'int':
            v = z3.Int(p.arg)
        else:
            v = OpaqueV(p.arg)
        st.env[p.arg] = v
        out[p.arg] = v
    return out


def vcs_suggest(cm):
    """-> (vcs, structural results [(name, ok, detail)], info)"""
    ex = Exec(cm, 'suggest', 'C13.grid.suggest', inline=True)
    st = State()
    cur = z3.Int('current_index')
    gd = GridDictV(ATTR_GRID)
    st.heap = {ATTR_INDEX: cur, ATTR_GRID: gd}
    st.pc += [cur >= 0, gd.n >= 0]
    params = _param_values(ex, st)
    if len(params) != 1 or not isinstance(list(params.values())[0], OptInt):
        raise Unsupported('suggest is expected to take one Optional[int] count parameter, got %s' % list(params))
    count = list(params.values())[0]
    count_spec = z3.If(z3.Or(count.isnone, count.val == 0), 1, count.val)
    outs = ex.run(st)
    structural = []
    if not hasattr(ex, 'outer'):
        raise Unsupported('no loop over range(...) of indices found in suggest')
    rets = [(s, v) for (s, k, v) in outs if k == 'return']
    if len(rets) != len(outs) or not rets:
        raise Unsupported('suggest has a path that does not return (%s)' % [k for _, k, _ in outs])
    outers = []
    for (s, v) in rets:
        o = s.ghost.get('outer')
        if o is None:
            raise Unsupported('suggest has a returning path that does not run the loop over range(...) of indices')
        if all(o is not x for x in outers):
            outers.append(o)
        # (A) [TrialSuggestion(parameters=p) for p in <index-loop list>]   (B) the index-loop list itself, its elements being suggestions
        ok = isinstance(v, ListV) and ((isinstance(v.elem, SuggestionV) and isinstance(v.elem.params, ElemV) and v.elem.params.lid == o['list'])
                                       or (v.lid == o['list'] and all(isinstance(x, SuggestionV) for _, x in o['iterations'])))
        structural.append(('C13.grid.suggest.returns_all', True if ok else None,
                           'the returned list wraps, in order, every parameter dict appended by the index loop' if ok else
                           'the return value is not of the supported shape `[TrialSuggestion(parameters=p) for p in <the list filled by the loop>]`: %r' % (v,)))
        if not ok:
            continue
        new_cur = s.heap.get(ATTR_INDEX)
        n_ret = v.length
        goal = z3.And(o['start'] == cur, n_ret == z3.If(count_spec > 0, count_spec, 0), as_int(new_cur) == cur + n_ret)
        ex.vcs.append(VC('C13.grid.suggest.index', s.pc, goal,
                         'first index = _current_index, number of suggestions = count (1 for None/0), _current_index\' = _current_index + number returned'))
        ex.vcs.append(VC('C13.grid.suggest.index_nonneg', s.pc, as_int(new_cur) >= 0, 'class invariant _current_index >= 0 is preserved'))
        ex.vcs.append(VC('C13.grid.sequence.contiguous', s.pc,
                         z3.Implies(n_ret >= 1, as_int(new_cur) == (o['start'] + (n_ret - 1)) + 1),
                         'the next call starts at the index following the last one suggested (also after dump/load, which restores the index)'))
    for o, (s2, appended) in [(o, it) for o in outers for it in o['iterations']]:
        inner = s2.ghost.get('inner')
        if inner is None:
            raise Unsupported('no loop over the grid dictionary inside the index loop')
        pd = inner['pd']
        if isinstance(appended, SuggestionV):
            appended = appended.params
        if not isinstance(appended, ParamDictV):
            raise Unsupported('the appended element is not the parameter dict')
        k = inner['k']
        i0 = s2.ghost['i0']
        goal = z3.And(i0 == cur + o['a'],
                      z3.ForAll([z3.Int('x')], z3.And(z3.Select(appended.dig, z3.Int('x')) == z3.Select(pd.dig, z3.Int('x')),
                                                      z3.Select(appended.has, z3.Int('x')) == z3.Select(pd.has, z3.Int('x'))))
                      if appended is not pd and not (appended.dig.eq(pd.dig) and appended.has.eq(pd.has)) else z3.BoolVal(True),
                      i0 == inner['q'] * inner['N'] + inner['val'], inner['val'] >= 0, inner['val'] < inner['N'],
                      z3.Implies(z3.And(k >= 0, k < gd.n),
                                 z3.And(z3.Select(appended.has, k), z3.Select(appended.dig, k) >= 0, z3.Select(appended.dig, k) < gd.L(k),
                                        z3.Select(appended.dig, k) == inner['D'](k))))
        ex.vcs.append(VC('C13.grid.suggest.post.mixed_radix', s2.pc, goal,
                         'the a-th suggestion has index i = _current_index + a; its digit vector d satisfies 0 <= d_k < L_k for every parameter and '
                         'sum_k d_k*W_k = i mod N (i = q*N + val, 0 <= val < N): it is the mixed-radix representation of i mod N'))
    return ex.vcs, structural, {'executor': ex, 'inlined': list(ex.inlined)}


def vcs_lemmas():
    out = []
    h, g = lemma_mixed_radix_step()
    out.append(VC('C13.grid.lemma.mixed_radix_step', h, g, 'nonlinear step (t\'*L+d)*W = t\'*(L*W)+d*W over the Euclidean decomposition t = t\'*L + d (also proved in lean/C13.lean)'))
    h, g = lemma_injective_step()
    out.append(VC('C13.grid.lemma.mixed_radix_injective.step', h, g, 'relational induction step: equal digit prefixes give equal partial values'))
    h, g, hints = lemma_injective_window()
    out.append(VC('C13.grid.lemma.mixed_radix_injective.window', h, g,
                  'two indices within one window of N consecutive indices whose digit vectors (hence values mod N) agree are equal', hints=hints))
    return out


def _heap_for_roundtrip():
    c = z3.Int('current_index')
    seed = OptInt(z3.Bool('shuffle_seed_is_none'), z3.Int('shuffle_seed'))
    U = OpaqueV('_unshuffled_grid_values(search_space, double_grid_resolution)')
    return c, seed, U


def derived_method_of(cm, mname):
    """name of the class method whose application is assigned to _grid_values in `mname` (None when it is not such a call)"""
    fn = cm.methods[mname][2]
    sn = fn.args.args[0].arg
    for n in ast.walk(fn):
        if isinstance(n, ast.Assign):
            for t in n.targets:
                if isinstance(t, ast.Attribute) and isinstance(t.value, ast.Name) and t.value.id == sn and t.attr == ATTR_GRID:
                    v = n.value
                    if isinstance(v, ast.Call) and isinstance(v.func, ast.Attribute) and isinstance(v.func.value, ast.Name) and v.func.value.id == sn:
                        return v.func.attr
    return None


def vcs_init(cm):
    ex = Exec(cm, '__init__', 'C13.grid.init')
    st = State()
    params = _param_values(ex, st)
    outs = ex.run(st)
    vcs, structural = list(ex.vcs), []
    seeds = [v for v in params.values() if isinstance(v, OptInt)]
    if len(seeds) != 1:
        raise Unsupported('__init__ is expected to take exactly one Optional[int] seed parameter, got %s' % list(params))
    seed = seeds[0]
    normal = [(s, k, v) for (s, k, v) in outs if k in ('normal', 'return')]
    if not normal:
        raise Unsupported('__init__ has no normal path')
    for (s, k, v) in normal:
        for a in (ATTR_INDEX, ATTR_SEED, ATTR_GRID):
            if a not in s.heap:
                structural.append(('C13.grid.init.assigns.%s' % a, False, '__init__ has a normal path that does not assign %s' % a))
        if not all(a in s.heap for a in (ATTR_INDEX, ATTR_SEED, ATTR_GRID)):
            continue
        vcs.append(VC('C13.grid.init.current_index_zero', s.pc, eq_value(s.heap[ATTR_INDEX], z3.IntVal(0)), 'a fresh designer starts at index 0'))
        vcs.append(VC('C13.grid.init.shuffle_seed_from_argument', s.pc, eq_value(s.heap[ATTR_SEED], seed), '_shuffle_seed is the constructor argument'))
        g = s.heap[ATTR_GRID]
        ok = isinstance(g, DerivedV) and len(g.args) == 1
        structural.append(('C13.grid.invariant.grid_values_derived.init', True if ok else None,
                           '_grid_values = F(_shuffle_seed) with F a method of the class' if ok else '_grid_values is not computed by a method of the class from the seed: %r' % (g,)))
        if ok:
            vcs.append(VC('C13.grid.invariant.grid_values_derived.init.seed', s.pc, eq_value(g.args[0], s.heap[ATTR_SEED]),
                          'the grid is derived from the stored seed'))
    return vcs, structural, {'derived': derived_method_of(cm, '__init__')}


def vcs_from_problem(cm):
    ex = Exec(cm, 'from_problem', 'C13.grid.from_problem')
    st = State()
    params = _param_values(ex, st)
    st.env[ex.fn.args.args[0].arg] = OpaqueV('cls')
    outs = ex.run(st)
    vcs, structural = list(ex.vcs), []
    seeds = [v for v in params.values() if isinstance(v, OptInt)]
    rets = [(s, v) for (s, k, v) in outs if k == 'return']
    if len(seeds) != 1 or not rets:
        raise Unsupported('from_problem: expected one Optional[int] seed parameter and a return')
    init_sig, _ = sigbind.sig_of_class(cm.mod, cm.ci)
    seed_param = [n for n, _ in init_sig.pos + init_sig.kwonly if 'seed' in n]
    for (s, v) in rets:
        shape = isinstance(v, CtorV) and v.cls == cm.ci.name and len(seed_param) == 1
        ok = shape and seed_param[0] in v.argvals
        structural.append(('C13.grid.from_problem.constructs_designer', ok if shape else None,
                           'from_problem returns %s(...) binding the seed parameter' % cm.ci.name if ok else
                           ('from_problem constructs the designer without passing its seed to the constructor parameter %s' % seed_param[0] if shape else
                            'unsupported return value %r' % (v,))))
        if ok:
            vcs.append(VC('C13.grid.from_problem.seed_to_shuffle_seed', s.pc, eq_value(v.argvals[seed_param[0]], seeds[0]),
                          'the seed given to from_problem reaches the constructor parameter %s' % seed_param[0]))
    return vcs, structural, {}


def vcs_dump_load(cm):
    """load(dump(A)) on a fresh instance B restores every piece of state suggest reads."""
    c, seed, U = _heap_for_roundtrip()
    F = derived_method_of(cm, '__init__') or derived_method_of(cm, 'load')
    if F is None:
        raise Unsupported('no method application assigned to %s in __init__/load' % ATTR_GRID)
    reads = sorted(p[0] for p in cm.effects(F).R if len(p) == 1 and p[0] not in cm.methods)
    exd = Exec(cm, 'dump', 'C13.grid.dump_load')
    A = State()
    A.pc += [c >= 0]
    heapA = {ATTR_INDEX: c, ATTR_SEED: seed, '_unshuffled_grid_values': U}
    heapA[ATTR_GRID] = DerivedV(F, (seed,), tuple((r, heapA[r]) for r in reads if r in heapA))       # class invariant (established by __init__, see C13.grid.invariant.*)
    A.heap = dict(heapA)
    outs = exd.run(A)
    vcs, structural = list(exd.vcs), []
    rets = [(s, v) for (s, k, v) in outs if k == 'return' and isinstance(v, MetaV)]
    if len(rets) != 1 or len(outs) != 1:
        raise Unsupported('dump is expected to have exactly one path returning a Metadata object')
    sA, md = rets[0]
    for a in (ATTR_INDEX, ATTR_SEED, ATTR_GRID):
        e = eq_value(sA.heap.get(a), heapA[a])
        vcs.append(VC('C13.grid.dump.pure.%s' % a, sA.pc, e if e is not None else z3.BoolVal(False), 'dump does not change %s' % a))
    exl = Exec(cm, 'load', 'C13.grid.dump_load')
    B = State()
    B.pc = list(sA.pc)
    seedB = OptInt(z3.Bool('fresh_seed_is_none'), z3.Int('fresh_seed'))
    heapB = {ATTR_INDEX: z3.IntVal(0), ATTR_SEED: seedB, '_unshuffled_grid_values': U}
    heapB[ATTR_GRID] = DerivedV(F, (seedB,), tuple((r, heapB[r]) for r in reads if r in heapB))
    B.heap = heapB
    B.meta = {md.sid: dict(sA.meta[md.sid])}
    lparams = [a.arg for a in exl.fn.args.args[1:]]
    if len(lparams) != 1:
        raise Unsupported('load is expected to take one metadata parameter')
    B.env[lparams[0]] = MetaV(md.sid, md.prefix)
    louts = exl.run(B)
    vcs += exl.vcs
    raising = [(s, v) for (s, k, v) in louts if k == 'raise']
    normal = [(s, v) for (s, k, v) in louts if k in ('normal', 'return')]
    info = {'raises': [], 'stored_keys': sorted('%s:%s' % ('/'.join(k[0]), k[1]) for k in sA.meta[md.sid])}
    for (s, cls) in raising:
        sol = z3.Solver()
        sol.set('timeout', 5000)
        for h in s.pc:
            sol.add(h)
        if sol.check() == z3.sat:
            m = sol.model()
            info['raises'].append((cls, ', '.join('%s=%s' % (d.name(), m[d]) for d in sorted(m.decls(), key=lambda d: d.name()) if d.arity() == 0)))
    structural.append(('C13.grid.dump_load.no_decode_error', not info['raises'],
                       'load(dump(d)) raises on no feasible path' if not info['raises'] else
                       'load raises %s on the output of dump for %s (keys stored by dump: %s)' % (info['raises'][0][0], info['raises'][0][1] or 'every state', info['stored_keys'])))
    for (s, v) in normal:
        for a, nm in ((ATTR_INDEX, 'current_index'), (ATTR_SEED, 'shuffle_seed'), (ATTR_GRID, 'grid_values')):
            e = eq_value(s.heap.get(a), heapA[a]) if a in s.heap else None
            vcs.append(VC('C13.grid.dump_load.%s' % nm, s.pc, e if e is not None else z3.BoolVal(False),
                          'after load(dump(d)) on a fresh instance (arbitrary constructor seed) %s equals d.%s' % (a, a)))
        g = s.heap.get(ATTR_GRID)
        shape = isinstance(g, DerivedV) and len(g.args) == 1
        ok = shape and g.fname == F
        structural.append(('C13.grid.invariant.grid_values_derived.load', ok if shape else None,
                           'load recomputes _grid_values with the same method %s as __init__' % F if ok else '_grid_values after load is %r' % (g,)))
        if ok:
            vcs.append(VC('C13.grid.invariant.grid_values_derived.load.seed', s.pc, eq_value(g.args[0], s.heap[ATTR_SEED]), 'the grid is derived from the restored seed'))
    if not normal:
        structural.append(('C13.grid.dump_load.reaches_normal_exit', False, 'load has no normal path on the output of dump'))
    return vcs, structural, dict(info, derived=F, derived_reads=reads)


def vcs_grid_points(cm, mname='_grid_points_from_parameter_config'):
    """every return path of the grid-point producer yields a non-empty list (so every radix L_j >= 1)"""
    ex = Exec(cm, mname, 'C13.grid.grid_points')
    st = State()
    _param_values(ex, st)
    res = z3.Int('double_grid_resolution')
    st.heap['_double_grid_resolution'] = res
    outs = ex.run(st)
    rets_nodes = [n for n in ast.walk(ex.fn) if isinstance(n, ast.Return)]
    rets_nodes.sort(key=lambda n: (n.lineno, n.col_offset))
    vcs = [v for v in ex.vcs if not v.name.endswith('no_zero_division')]
    pre = [res >= 1]
    structural = []
    seen_len, seen_lohi = set(), set()
    for (s, k, v) in outs:
        if k != 'return':
            continue
        ordinal = rets_nodes.index(s.ghost['ret_node'])
        if not isinstance(v, ListV):
            raise Unsupported('return %d of %s is not a list with a known length: %r' % (ordinal, mname, v))
        hyps = list(s.pc) + pre
        # ParameterConfig invariants (assumed, listed): lo <= hi, feasible_values non-empty
        for d in _consts_of(v.length) | set().union(*[_consts_of(h) for h in s.pc]) if True else ():
            nm = d.decl().name()
            if nm.startswith('len['):
                hyps.append(d >= 1)
            if nm.endswith('.bounds[0]'):
                hyps.append(d <= z3.Int(nm[:-2] + '1]'))
        vcs.append(VC('C13.grid.grid_points.nonempty.ret%d' % ordinal, hyps, v.length >= 1,
                      'return #%d of %s yields at least one grid point (bounds lo <= hi, feasible_values non-empty, double_grid_resolution >= 1 assumed)' % (ordinal, mname)))
    return vcs, structural, {}


def _consts_of(e):
    out = set()
    todo = [e]
    while todo:
        x = todo.pop()
        if z3.is_const(x) and x.decl().kind() == z3.Z3_OP_UNINTERPRETED:
            out.add(x)
        todo += list(x.children())
    return out
