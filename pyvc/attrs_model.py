"""pyvc.attrs_model -- attrs / dataclasses classes, enum.Enum classes and collections.abc mixins of the repo,
for the pyvc engine (DESIGN 2.2 "attrs/dataclass instance = Python-side record", Appendix E "field-list constructors
with inlined converters and validators").

Nothing here is a copy of repository code: the field list of a class (names, defaults, factories, converters,
validators, init/kw_only/eq flags, on_setattr hooks, __attrs_post_init__) is read from the *current* class body
(`pyvc.source.ClassInfo`) on every run; converters/validators that are repo functions or lambdas are executed from
their real AST; only the behaviour of the attrs *library* (generated __init__/__eq__/__setattr__, the
`attr.validators.*`/`attr.converters.*`/`attr.setters.*` helpers, `attr.evolve/asdict/fields/has`) and of
`enum.Enum` / `collections.abc.(Mutable)Mapping` is modelled here (trusted, listed by `TRUST`).

Importing this module registers everything (hooks are chained, previous hooks are kept).

API (stable; reused by C09/C16/C17):
    class_spec(cls: ClassInfo) -> ClassSpec | None     field list & flags of an attrs/dataclass class (None otherwise)
    ClassSpec.fields: [FieldSpec]  (.name, .alias, .init, .kw_only, .has_default, .eq, ...);  ClassSpec.field(name)
    construct(it, cls, args, kw) -> Obj                the generated __init__ (converters, validators, post-init)
    make_instance(it, cls, **attrs) -> Obj             build an instance *without* running __init__ (contract inputs);
                                                       attribute names are the real ones (e.g. '_name')
    evolve(it, inst, changes) -> Obj
    attrs_eq(it, a, b) -> bool | z3 Bool               generated __eq__ (eq=False fields dropped, eq=key applied)
    is_enum(cls) / enum_members(it, cls) -> [Obj] / enum_member(it, cls, 'NAME') -> Obj (interned, identity = equality)
    run_validator(it, validator, inst, fieldspec, value)
    TRUST: list of trusted-library statements for `chk.trust`.
"""
import ast

import z3

from . import engine as E
from . import models as M
from . import protomodel as pm
from . import source
from .engine import Obj, ExcObj, FuncVal, Bound, Builtin, ExtRef, BuiltinClass, Unsupported, PyRaise, EXTERNAL
from .source import ClassInfo

TRUST = [
    'attrs library semantics as modelled in pyvc/attrs_model.py: generated __init__ (positional/keyword binding, '
    'private-name stripping, default/factory, converter then assignment for every field, then validators in field '
    'order, then __attrs_post_init__), generated __eq__ (same class, eq fields in order, eq=key), on_setattr '
    'convert/validate, frozen, attr.evolve; attr.validators.{instance_of,optional,deep_iterable,deep_mapping,in_,and_,'
    'lt,le,gt,ge,is_callable}, attr.converters.{optional,default_if_none}',
    'enum.Enum semantics: members are singletons compared by identity, lookup by value raises ValueError',
    'collections.abc.Mapping/MutableMapping mixin methods (get, pop, update, __contains__, keys/values/items, setdefault, clear)',
]

_ATTR_CLASSIC = {'attr.s', 'attr.attrs', 'attr.attributes'}
_ATTR_NG = {'attr.define', 'attr.mutable', 'attr.frozen', 'attrs.define', 'attrs.mutable', 'attrs.frozen'}
_DATACLASS = {'dataclasses.dataclass'}
_FIELD_CALLS = {'attr.ib', 'attr.attrib', 'attr.attr', 'attr.field', 'attrs.field', 'dataclasses.field'}
_FACTORY_CALLS = {'attr.Factory', 'attrs.Factory'}
_ENUM_BASES = {'enum.Enum', 'enum.IntEnum', 'enum.Flag', 'enum.IntFlag', 'enum.StrEnum'}
_MAPPING_BASES = {'collections.abc.MutableMapping', 'collections.abc.Mapping', 'typing.MutableMapping', 'typing.Mapping',
                  'abc.MutableMapping', 'abc.Mapping'}


# ------------------------------------------------------------------------------------------ name resolution
def _dotted(mod, node):
    """Full dotted name of a decorator / callee expression, through the module's import table."""
    if isinstance(node, ast.Call):
        node = node.func
    if isinstance(node, ast.Subscript):
        node = node.value
    try:
        src = ast.unparse(node)
    except Exception:
        return ''
    head, _, rest = src.partition('.')
    if head in mod.imports:
        full = mod.imports[head] + ('.' + rest if rest else '')
    else:
        full = src
    if full.startswith('collections.abc.') or full.startswith('typing.'):
        return full
    return full


def _norm_attr(full):
    return 'attr.' + full[len('attrs.'):] if full.startswith('attrs.') and full not in _ATTR_NG and full not in _FIELD_CALLS else full


def _const_kw(call, key, default=None):
    if not isinstance(call, ast.Call):
        return default
    for k in call.keywords:
        if k.arg == key:
            if isinstance(k.value, ast.Constant):
                return k.value.value
            raise Unsupported('non-constant %s= in class decorator %s' % (key, ast.unparse(call)))
    return default


def _kw_node(call, key):
    if not isinstance(call, ast.Call):
        return None
    for k in call.keywords:
        if k.arg == key:
            return k.value
    return None


# ------------------------------------------------------------------------------------------ specs
class FieldSpec:
    def __init__(self, owner, name):
        self.owner, self.name = owner, name
        self.alias = name.lstrip('_')
        self.init, self.kw_only = True, False
        self.default_node = self.factory_node = None
        self.factory_takes_self = False
        self.default_method = None          # FunctionDef decorated with @<field>.default
        self.validator_node = None
        self.validator_methods = []         # FunctionDefs decorated with @<field>.validator
        self.converter_node = None
        self.eq = True                      # True | False | ast node (key function)
        self.on_setattr_node = None         # None => class default
        self.on_setattr_given = False
        self.annotation = None

    @property
    def has_default(self):
        return self.default_node is not None or self.factory_node is not None or self.default_method is not None

    def __repr__(self):
        return '<field %s.%s>' % (self.owner.qualname, self.name)


class ClassSpec:
    def __init__(self, cls, kind):
        self.cls, self.kind = cls, kind     # kind: 'attrs' | 'dataclass'
        self.fields = []
        self.init = True
        self.frozen = False
        self.eq = True
        self.kw_only = False
        self.setattr_convert = self.setattr_validate = False   # class-level default on_setattr
        self.own_init = False               # the class (or a base) defines __init__ explicitly

    def field(self, name):
        for f in self.fields:
            if f.name == name:
                return f
        return None


_SPECS = {}


def _class_deco(cls):
    for d in cls.node.decorator_list:
        full = _dotted(cls.mod, d)
        if full in _ATTR_CLASSIC:
            return 'classic', d
        if full in _ATTR_NG:
            return 'ng', d
        if full in _DATACLASS:
            return 'dataclass', d
    return None, None


def _own_fields(cls, flavour, deco):
    """Fields declared in this class body, in order."""
    mod = cls.mod
    auto = _const_kw(deco, 'auto_attribs', None if flavour == 'ng' else False)
    cls_kw_only = bool(_const_kw(deco, 'kw_only', False))
    cands = []      # (name, annotated, value node, annotation, is_field_call)
    for n in cls.node.body:
        name = value = ann = None
        if isinstance(n, ast.AnnAssign) and isinstance(n.target, ast.Name):
            name, value, ann = n.target.id, n.value, n.annotation
        elif isinstance(n, ast.Assign) and len(n.targets) == 1 and isinstance(n.targets[0], ast.Name):
            name, value = n.targets[0].id, n.value
        if name is None:
            continue
        is_call = isinstance(value, ast.Call) and _norm_attr(_dotted(mod, value)) in _FIELD_CALLS
        cands.append((name, ann is not None, value, ann, is_call))
    if flavour == 'dataclass':
        auto = True
    if auto is None:
        unannotated_calls = [c for c in cands if c[4] and not c[1]]
        auto = any(c[1] for c in cands) and not unannotated_calls
    out = []
    for name, annotated, value, ann, is_call in cands:
        if auto:
            if not annotated:
                if is_call:
                    raise Unsupported('attrs field %s.%s lacks an annotation under auto_attribs' % (cls.qualname, name))
                continue
            if 'ClassVar' in ast.unparse(ann):
                continue
        elif not is_call:
            continue
        f = FieldSpec(cls, name)
        f.annotation = ann
        f.kw_only = cls_kw_only
        if is_call:
            for k in value.keywords:
                a, v = k.arg, k.value
                if a == 'default':
                    if isinstance(v, ast.Call) and _norm_attr(_dotted(mod, v)) in ('attr.Factory',):
                        f.factory_node = v.args[0] if v.args else _kw_node(v, 'factory')
                        f.factory_takes_self = bool(_const_kw(v, 'takes_self', False))
                    elif isinstance(v, ast.Attribute) and _norm_attr(_dotted(mod, v)) in ('attr.NOTHING', 'dataclasses.MISSING'):
                        pass
                    else:
                        f.default_node = v
                elif a in ('factory', 'default_factory'):
                    f.factory_node = v
                elif a == 'validator':
                    f.validator_node = v
                elif a == 'converter':
                    f.converter_node = v
                elif a == 'init':
                    f.init = bool(_lit(v, 'init'))
                elif a == 'kw_only':
                    f.kw_only = bool(_lit(v, 'kw_only'))
                elif a in ('eq', 'compare'):
                    if isinstance(v, ast.Constant):
                        f.eq = True if v.value is None else bool(v.value)
                    else:
                        f.eq = v
                elif a == 'cmp' and isinstance(v, ast.Constant) and v.value is not None:
                    f.eq = bool(v.value)
                elif a == 'on_setattr':
                    f.on_setattr_node, f.on_setattr_given = v, True
                elif a == 'alias' and isinstance(v, ast.Constant) and v.value:
                    f.alias = v.value
                # repr, hash, order, metadata, type: no effect on the modelled behaviour
            if value.args:       # attr.ib(default) positional
                f.default_node = value.args[0]
        elif value is not None:
            f.default_node = value
        out.append(f)
    # decorator-based defaults / validators
    byname = {f.name: f for f in out}
    for n in cls.node.body:
        if isinstance(n, ast.FunctionDef):
            for d in n.decorator_list:
                if isinstance(d, ast.Attribute) and isinstance(d.value, ast.Name) and d.value.id in byname:
                    if d.attr == 'validator':
                        byname[d.value.id].validator_methods.append(n)
                    elif d.attr == 'default':
                        byname[d.value.id].default_method = n
    return out


def _lit(node, what):
    if isinstance(node, ast.Constant):
        return node.value
    raise Unsupported('non-constant %s= in an attrs field' % what)


def class_spec(cls):
    """ClassSpec of an attrs/dataclass class (fields of attrs bases included), or None."""
    if not isinstance(cls, ClassInfo):
        return None
    key = (source.REPO, cls.mod.dotted, cls.qualname)
    if key in _SPECS:
        return _SPECS[key]
    flavour, deco = _class_deco(cls)
    if flavour is None:
        # a plain subclass of an attrs class keeps the generated methods of its base
        for b in E.mro(cls)[1:]:
            if isinstance(b, ClassInfo) and _class_deco(b)[0] is not None:
                _SPECS[key] = class_spec(b)
                return _SPECS[key]
        _SPECS[key] = None
        return None
    spec = ClassSpec(cls, 'dataclass' if flavour == 'dataclass' else 'attrs')
    full = _dotted(cls.mod, deco)
    spec.init = bool(_const_kw(deco, 'init', True))
    spec.frozen = bool(_const_kw(deco, 'frozen', full.endswith('.frozen')))
    eq = _const_kw(deco, 'eq', None)
    if eq is None:
        eq = _const_kw(deco, 'cmp', None)
    spec.eq = True if eq is None else bool(eq)
    spec.kw_only = bool(_const_kw(deco, 'kw_only', False))
    osa = _kw_node(deco, 'on_setattr')
    if osa is not None:
        spec.class_on_setattr_node = osa
    elif flavour == 'ng' and not spec.frozen:
        spec.setattr_convert = spec.setattr_validate = True
    fields = []
    for b in reversed(E.mro(cls)[1:]):
        if isinstance(b, ClassInfo):
            bf, bd = _class_deco(b)
            if bf is not None:
                for f in _own_fields(b, bf, bd):
                    fields = [x for x in fields if x.name != f.name] + [f]
    for f in _own_fields(cls, flavour, deco):
        fields = [x for x in fields if x.name != f.name] + [f]
    spec.fields = fields
    c, m = E.find_method(cls, '__init__')
    spec.own_init = m is not None
    _SPECS[key] = spec
    return spec


# ------------------------------------------------------------------------------------------ evaluation helpers
def _class_frame(it, cls):
    """Frame in which class-body expressions (field arguments) are evaluated: class-level functions are plain
    (unbound) functions there, exactly as in a class body."""
    env = {}
    for name, node in cls.methods.items():
        if not name.endswith('.setter'):
            env[name] = FuncVal(cls.mod, node, cls)
    for name, c in cls.classes.items():
        env[name] = c
    return E.Frame(cls.mod, env)


def _eval_in_class(it, cls, node):
    return it.eval(_class_frame(it, cls), node)


def attribute_obj(f):
    return Obj('attr.Attribute', {'name': f.name, 'alias': f.alias, 'init': f.init, 'kw_only': f.kw_only})


def _raise(it, name, *args):
    raise PyRaise(it.make_exc(name, list(args)))


# ------------------------------------------------------------------------------------------ validators (library model)
class Validator:
    """A value produced by attr.validators.*; called as validator(inst, attribute, value)."""

    def __init__(self, kind, *args):
        self.kind, self.args = kind, args

    def __repr__(self):
        return '<attr.validators.%s>' % self.kind


def _isinstance(it, value, types):
    ts = types if isinstance(types, tuple) else (types,)
    res = []
    for t in ts:
        if isinstance(t, ExtRef) and not isinstance(value, ExcObj):
            r = M.isinstance_hook(it, value, t)
            if r is M.MISSING:
                if value is None or isinstance(value, (bool, int, float, str, bytes, list, tuple, M.PyDict, M.PySet)) or \
                        (z3.is_expr(value) and value.sort() in (z3.BoolSort(), z3.IntSort(), pm.Str, pm.Bytes)) or \
                        (isinstance(value, Obj) and isinstance(value.cls, ClassInfo)):
                    r = False      # a builtin scalar/container or a repo-class instance is not an instance of an external class
                else:
                    raise Unsupported('instance_of(%s) on %r: membership in an external class is not modelled' % (t.dotted, value))
            res.append(r)
        else:
            res.append(M.isinstance_one(it, value, t))
    return E.zor(*res)


def run_validator(it, v, inst, f, value):
    """Run validator value `v` (library validator, repo function, lambda, or list of those)."""
    if v is None:
        return
    if isinstance(v, (list, tuple)):
        for x in v:
            run_validator(it, x, inst, f, value)
        return
    if isinstance(v, Validator):
        k, a = v.kind, v.args
        if k == 'instance_of':
            if not it.truth(_isinstance(it, value, a[0])):
                _raise(it, 'TypeError', "'%s' must be %s" % (f.name, _tname(a[0])))
        elif k == 'optional':
            if value is not None:
                run_validator(it, a[0], inst, f, value)
        elif k == 'and_':
            for x in a:
                run_validator(it, x, inst, f, value)
        elif k == 'in_':
            if not it.truth(M.contains(it, a[0], value)):
                _raise(it, 'ValueError', "'%s' must be in the given options" % f.name)
        elif k in ('lt', 'le', 'gt', 'ge'):
            op = {'lt': ast.Lt(), 'le': ast.LtE(), 'gt': ast.Gt(), 'ge': ast.GtE()}[k]
            if not it.truth(M.compare(it, op, value, a[0])):
                _raise(it, 'ValueError', "'%s' must be %s the bound" % (f.name, k))
        elif k == 'is_callable':
            if not M.b_callable(it, [value], {}):
                _raise(it, 'attr.exceptions.NotCallableError', "'%s' must be callable" % f.name)
        elif k == 'deep_iterable':
            member, iterable = a
            if iterable is not None:
                run_validator(it, iterable, inst, f, value)
            if isinstance(value, pm.SymList) and M.try_iterate(it, value) is None:
                # all elements of an array-list have the same sort: validate one arbitrary element
                if it.truth(value.n > 0):
                    j = it.run.fresh('vj', z3.IntSort())
                    it.run.assume(z3.And(j >= 0, j < value.n))
                    run_validator(it, member, inst, f, value.get(j))
            else:
                for x in M.iterate(it, value):
                    run_validator(it, member, inst, f, x)
        elif k == 'deep_mapping':
            kv, vv, mv = a
            if mv is not None:
                run_validator(it, mv, inst, f, value)
            if not isinstance(value, M.PyDict):
                raise Unsupported('deep_mapping validator on %r' % (value,))
            for key, x in value.items():
                if kv is not None:
                    run_validator(it, kv, inst, f, key)
                if vv is not None:
                    run_validator(it, vv, inst, f, x)
        elif k == 'not_':
            raise Unsupported('attr.validators.not_')
        else:
            raise Unsupported('attr.validators.%s' % k)
        return
    if isinstance(v, (FuncVal, Bound, Builtin)):
        it.call(v, [inst, attribute_obj(f), value], {})
        return
    raise Unsupported('validator %r of %r' % (v, f))


def _tname(t):
    if isinstance(t, tuple):
        return '(' + ', '.join(_tname(x) for x in t) + ')'
    return getattr(t, 'name', None) or getattr(t, 'qualname', None) or repr(t)


def _v(kind, nargs=None):
    def make(it, args, kw):
        return Validator(kind, *args)
    return make


def _v_deep_iterable(it, args, kw):
    member = args[0] if args else kw.get('member_validator')
    iterable = args[1] if len(args) > 1 else kw.get('iterable_validator')
    return Validator('deep_iterable', member, iterable)


def _v_deep_mapping(it, args, kw):
    names = ('key_validator', 'value_validator', 'mapping_validator')
    vals = [args[i] if i < len(args) else kw.get(names[i]) for i in range(3)]
    return Validator('deep_mapping', *vals)


class Converter:
    def __init__(self, kind, *args):
        self.kind, self.args = kind, args


def apply_converter(it, c, value, inst=None, f=None):
    if c is None:
        return value
    if isinstance(c, Converter):
        if c.kind == 'optional':
            return None if value is None else apply_converter(it, c.args[0], value, inst, f)
        if c.kind == 'default_if_none':
            if value is None:
                d, fac = c.args
                return it.call(fac, [], {}) if fac is not None else d
            return value
        if c.kind == 'pipe':
            for x in c.args:
                value = apply_converter(it, x, value, inst, f)
            return value
        raise Unsupported('attr.converters.%s' % c.kind)
    if isinstance(c, (list, tuple)):
        for x in c:
            value = apply_converter(it, x, value, inst, f)
        return value
    return it.call(c, [value], {})


class Setter:
    def __init__(self, kind, *args):
        self.kind, self.args = kind, args


for _p in ('attr', 'attrs'):
    for _k in ('instance_of', 'optional', 'in_', 'lt', 'le', 'gt', 'ge', 'is_callable', 'not_', 'matches_re', 'max_len', 'min_len'):
        EXTERNAL['%s.validators.%s' % (_p, _k)] = Builtin('attr.validators.' + _k, _v(_k))
    EXTERNAL[_p + '.validators.and_'] = Builtin('attr.validators.and_', _v('and_'))
    EXTERNAL[_p + '.validators.deep_iterable'] = Builtin('attr.validators.deep_iterable', _v_deep_iterable)
    EXTERNAL[_p + '.validators.deep_mapping'] = Builtin('attr.validators.deep_mapping', _v_deep_mapping)
    EXTERNAL[_p + '.converters.optional'] = Builtin('attr.converters.optional', lambda it, args, kw: Converter('optional', args[0]))
    EXTERNAL[_p + '.converters.default_if_none'] = Builtin(
        'attr.converters.default_if_none',
        lambda it, args, kw: Converter('default_if_none', args[0] if args else kw.get('default'), kw.get('factory')))
    EXTERNAL[_p + '.converters.pipe'] = Builtin('attr.converters.pipe', lambda it, args, kw: Converter('pipe', *args))
    EXTERNAL[_p + '.setters.convert'] = Setter('convert')
    EXTERNAL[_p + '.setters.validate'] = Setter('validate')
    EXTERNAL[_p + '.setters.frozen'] = Setter('frozen')
    EXTERNAL[_p + '.setters.NO_OP'] = Setter('noop')
    EXTERNAL[_p + '.setters.pipe'] = Builtin('attr.setters.pipe', lambda it, args, kw: list(args))
    EXTERNAL[_p + '.NOTHING'] = M.Opaque('attr.NOTHING')


# ------------------------------------------------------------------------------------------ construction
def _field_validators(it, f):
    vs = []
    if f.validator_node is not None:
        vs.append(_eval_in_class(it, f.owner, f.validator_node))
    return vs


def _default_value(it, o, f):
    if f.default_method is not None:
        return it.invoke(FuncVal(f.owner.mod, f.default_method, f.owner), [o], {})
    if f.factory_node is not None:
        fac = _eval_in_class(it, f.owner, f.factory_node)
        return it.call(fac, [o] if f.factory_takes_self else [], {})
    # default=<expr>: evaluated once when the class is created, i.e. the *same* object for every instance
    cache = it.run.__dict__.setdefault('_attrs_defaults', {})
    key = (f.owner.mod.dotted, f.owner.qualname, f.name)
    if key not in cache:
        cache[key] = _eval_in_class(it, f.owner, f.default_node)
    return cache[key]


def attrs_init(it, o, spec, args, kw):
    """The generated __init__ / __attrs_init__ on the (empty) instance `o`."""
    cls = spec.cls
    c, pre = E.find_method(o.cls, '__attrs_pre_init__')
    if pre is not None:
        it.invoke(FuncVal(c.mod, pre, c), [o], {})
    fields = spec.fields
    pos = [f for f in fields if f.init and not f.kw_only]
    args = list(args)
    if len(args) > len(pos):
        _raise(it, 'TypeError', '%s.__init__() takes %d positional arguments but %d were given' % (cls.name, len(pos) + 1, len(args) + 1))
    given = {}
    for f, a in zip(pos, args):
        given[f.name] = a
    kw = dict(kw)
    for f in fields:
        if f.init and f.alias in kw:
            if f.name in given:
                _raise(it, 'TypeError', '%s.__init__() got multiple values for argument %s' % (cls.name, f.alias))
            given[f.name] = kw.pop(f.alias)
    if kw:
        _raise(it, 'TypeError', '%s.__init__() got an unexpected keyword argument %s' % (cls.name, sorted(kw)[0]))
    for f in fields:
        if f.init and f.name not in given and not f.has_default:
            _raise(it, 'TypeError', '%s.__init__() missing required argument %s' % (cls.name, f.alias))
    for f in fields:
        if f.name in given:
            v = given[f.name]
        elif f.has_default:
            v = _default_value(it, o, f)
        else:
            continue                        # init=False without default: left unset
        if f.converter_node is not None:
            v = apply_converter(it, _eval_in_class(it, f.owner, f.converter_node), v, o, f)
        o.attrs[f.name] = v
    if spec.kind == 'attrs':
        for f in fields:
            if f.name in o.attrs:
                for v in _field_validators(it, f):
                    run_validator(it, v, o, f, o.attrs[f.name])
                for n in f.validator_methods:
                    it.invoke(FuncVal(f.owner.mod, n, f.owner), [o, attribute_obj(f), o.attrs[f.name]], {})
    post = '__attrs_post_init__' if spec.kind == 'attrs' else '__post_init__'
    c, m = E.find_method(o.cls, post)
    if m is not None:
        it.invoke(FuncVal(c.mod, m, c), [o], {})
    return None


def construct(it, cls, args, kw):
    spec = class_spec(cls)
    if spec is None:
        raise Unsupported('%s is not an attrs/dataclass class' % cls.qualname)
    o = Obj(cls)
    attrs_init(it, o, spec, args, kw)
    return o


def make_instance(it, cls, **attrs):
    """Instance with the given attribute values, *without* running __init__ (for symbolic contract inputs whose
    representation invariant is stated by the contract)."""
    spec = class_spec(cls)
    if spec is None:
        raise Unsupported('%s is not an attrs/dataclass class' % cls.qualname)
    known = {f.name for f in spec.fields}
    bad = sorted(set(attrs) - known)
    if bad:
        raise Unsupported('%s has no field(s) %s in the current tree' % (cls.qualname, bad))
    return Obj(cls, attrs)


def evolve(it, inst, changes):
    spec = class_spec(inst.cls)
    if spec is None:
        raise Unsupported('evolve() on a non-attrs instance %r' % (inst,))
    kw = dict(changes)
    for f in spec.fields:
        if f.init and f.alias not in kw:
            if f.name not in inst.attrs:
                raise Unsupported('evolve(): field %s is unset' % f.name)
            kw[f.alias] = inst.attrs[f.name]
    return it.call(inst.cls, [], kw)


def _construct_hook(it, cls, args, kw, _prev=M.construct_hook):
    if is_enum(cls):
        return enum_lookup(it, cls, args, kw)
    spec = class_spec(cls)
    if spec is not None:
        c, m = E.find_method(cls, '__init__')
        if m is None:
            if not spec.init:
                raise Unsupported('%s has init=False and no __init__' % cls.qualname)
            return construct(it, cls, args, kw)
        return M.MISSING                    # explicit __init__ (it may call self.__attrs_init__)
    return _prev(it, cls, args, kw)


M.construct_hook = _construct_hook


# ------------------------------------------------------------------------------------------ attribute access / setattr
def _obj_getattr(it, o, a, _prev=M.obj_getattr):
    if isinstance(o.cls, ClassInfo):
        spec = class_spec(o.cls)
        if spec is not None:
            if a in ('__attrs_init__',):
                return Builtin('__attrs_init__', lambda it_, args, kw: attrs_init(it_, o, spec, args, kw))
            if a == '__attrs_attrs__':
                return tuple(attribute_obj(f) for f in spec.fields)
        if a == '__class__':
            return o.cls
        r = _mapping_getattr(it, o, a)
        if r is not M.MISSING:
            return r
    return _prev(it, o, a)


M.obj_getattr = _obj_getattr


def _class_getattr(it, c, a, _prev=M.class_getattr):
    spec = class_spec(c)
    if spec is not None and a == '__attrs_attrs__':
        return tuple(attribute_obj(f) for f in spec.fields)
    if is_enum(c):
        if a == '__members__':
            d = M.PyDict()
            for m in enum_members(it, c):
                d.set(it, m.attrs['name'], m)
            return d
    return _prev(it, c, a)


M.class_getattr = _class_getattr


def _setter_flags(it, spec, f):
    """(convert, validate, frozen) hooks that run when the field is assigned outside __init__."""
    if f.on_setattr_given:
        v = _eval_in_class(it, f.owner, f.on_setattr_node)
    elif getattr(spec, 'class_on_setattr_node', None) is not None:
        v = _eval_in_class(it, spec.cls, spec.class_on_setattr_node)
    else:
        return spec.setattr_convert, spec.setattr_validate, False
    vs = v if isinstance(v, (list, tuple)) else [v]
    kinds = []
    for x in vs:
        if x is None:
            continue
        if not isinstance(x, Setter):
            raise Unsupported('on_setattr hook %r' % (x,))
        kinds.append(x.kind)
    return 'convert' in kinds, 'validate' in kinds, 'frozen' in kinds


_prev_setattr = E.Interp.setattr


def _setattr(self, o, a, v):
    if isinstance(o, Obj) and isinstance(o.cls, ClassInfo) and not isinstance(o, ExcObj):
        spec = class_spec(o.cls)
        if spec is not None:
            f = spec.field(a)
            if f is not None and not getattr(self, '_in_init', 0):
                if spec.frozen:
                    _raise(self, 'AttributeError', 'FrozenInstanceError')
                if spec.kind == 'attrs':
                    conv, val, frozen = _setter_flags(self, spec, f)
                    if frozen:
                        _raise(self, 'AttributeError', 'FrozenAttributeError')
                    if conv and f.converter_node is not None:
                        v = apply_converter(self, _eval_in_class(self, f.owner, f.converter_node), v, o, f)
                    if val:
                        for x in _field_validators(self, f):
                            run_validator(self, x, o, f, v)
                        for n in f.validator_methods:
                            self.invoke(FuncVal(f.owner.mod, n, f.owner), [o, attribute_obj(f), v], {})
    return _prev_setattr(self, o, a, v)


E.Interp.setattr = _setattr


def _is_frozen(cls, _prev=M.is_frozen):
    try:
        spec = class_spec(cls)
    except Unsupported:
        spec = None
    if spec is not None:
        return spec.frozen
    return _prev(cls)


M.is_frozen = _is_frozen


# ------------------------------------------------------------------------------------------ equality
def deep_eq(it, a, b):
    """Python == on the container/record values of the engine (term-level, no forking)."""
    if isinstance(a, M.PyDict) and isinstance(b, M.PyDict):
        if len(a) != len(b):
            # symbolic keys could coincide only within one dict, which PyDict already excludes
            return False
        conj = []
        for k, v in a.items():
            alts = []
            for k2, v2 in b.items():
                ck = deep_eq(it, k, k2)
                if ck is False:
                    continue
                alts.append(E.zand(ck, deep_eq(it, v, v2)))
            conj.append(E.zor(*alts))
        return E.zand(*conj)
    if isinstance(a, M.PySet) and isinstance(b, M.PySet):
        if len(a) != len(b):
            return False
        return E.zand(*[E.zor(*[deep_eq(it, x, y) for y in b.elems]) for x in a.elems])
    if isinstance(a, (list, tuple)) and isinstance(b, (list, tuple)):
        if isinstance(a, tuple) != isinstance(b, tuple) or len(a) != len(b):
            return False
        return E.zand(*[deep_eq(it, x, y) for x, y in zip(a, b)])
    if isinstance(a, pm.SymList) and isinstance(b, pm.SymList):
        if a.elem_sort() != b.elem_sort():
            return False
        j = z3.Int('j!eq')
        return z3.And(a.n == b.n, z3.ForAll([j], z3.Implies(z3.And(j >= 0, j < a.n), a.arr[j] == b.arr[j])))
    if isinstance(a, (M.PyDict, M.PySet, pm.SymList)) or isinstance(b, (M.PyDict, M.PySet, pm.SymList)):
        if isinstance(a, pm.SymList) or isinstance(b, pm.SymList):
            other = b if isinstance(a, pm.SymList) else a
            sl = a if isinstance(a, pm.SymList) else b
            if isinstance(other, list):
                return z3.And(sl.n == len(other), *[E.zbool(E.eq_values(sl.get(z3.IntVal(i)), x)) for i, x in enumerate(other)]) \
                    if other else sl.n == 0
        return False
    return it.truth_term(M.compare(it, ast.Eq(), a, b))


def attrs_eq(it, o, other):
    spec = class_spec(o.cls)
    if spec is None or not spec.eq:
        return M.MISSING
    if o is other:
        return True
    if not isinstance(other, Obj) or not isinstance(other.cls, ClassInfo) or not E.same_class(o.cls, other.cls):
        return False                        # NotImplemented on both sides => identity comparison
    conj = []
    for f in spec.fields:
        if f.eq is False:
            continue
        if f.name not in o.attrs or f.name not in other.attrs:
            raise Unsupported('== on %s with unset field %s' % (o.cls.qualname, f.name))
        x, y = o.attrs[f.name], other.attrs[f.name]
        if f.eq is not True:
            key = _eval_in_class(it, f.owner, f.eq)
            x, y = it.call(key, [x], {}), it.call(key, [y], {})
        c = deep_eq(it, x, y)
        if c is False:
            return False
        conj.append(c)
    return E.zand(*conj)


def _attrs_eq_hook(it, o, other, _prev=M.attrs_eq_hook):
    if isinstance(o.cls, ClassInfo):
        r = attrs_eq(it, o, other)
        if r is not M.MISSING:
            return r
    return _prev(it, o, other)


M.attrs_eq_hook = _attrs_eq_hook


# ------------------------------------------------------------------------------------------ attr.* functions
def _ext_evolve(it, args, kw):
    return evolve(it, args[0], kw)


def _asdict(it, args, kw):
    inst = args[0]
    spec = class_spec(inst.cls) if isinstance(inst, Obj) else None
    if spec is None:
        raise Unsupported('asdict() on %r' % (inst,))
    recurse = kw.get('recurse', True)

    def conv(v):
        if recurse and isinstance(v, Obj) and class_spec(v.cls) is not None:
            return _asdict(it, [v], kw)
        if recurse and isinstance(v, (list, tuple)):
            return type(v)(conv(x) for x in v)
        if recurse and isinstance(v, M.PyDict):
            d = M.PyDict()
            for k, x in v.items():
                d.set(it, conv(k), conv(x))
            return d
        return v
    d = M.PyDict()
    for f in spec.fields:
        if f.name in inst.attrs:
            d.set(it, f.name, conv(inst.attrs[f.name]))
    return d


def _fields(it, args, kw):
    spec = class_spec(args[0])
    if spec is None:
        _raise(it, 'attr.exceptions.NotAnAttrsClassError', 'not an attrs class')
    return tuple(attribute_obj(f) for f in spec.fields)


def _has(it, args, kw):
    return isinstance(args[0], ClassInfo) and class_spec(args[0]) is not None


for _p in ('attr', 'attrs'):
    EXTERNAL[_p + '.evolve'] = Builtin('attr.evolve', _ext_evolve)
    EXTERNAL[_p + '.asdict'] = Builtin('attr.asdict', _asdict)
    EXTERNAL[_p + '.fields'] = Builtin('attr.fields', _fields)
    EXTERNAL[_p + '.has'] = Builtin('attr.has', _has)
EXTERNAL['dataclasses.replace'] = Builtin('dataclasses.replace', _ext_evolve)
EXTERNAL['dataclasses.asdict'] = Builtin('dataclasses.asdict', _asdict)


# ------------------------------------------------------------------------------------------ enum.Enum
_ENUM_CACHE = {}


def is_enum(cls):
    if not isinstance(cls, ClassInfo):
        return False
    for c in E.mro(cls):
        if isinstance(c, ClassInfo):
            for b in c.base_nodes:
                if _dotted(c.mod, b) in _ENUM_BASES:
                    return True
        elif isinstance(c, str) and c in _ENUM_BASES:
            return True
    return False


def _enum_member_names(cls):
    out = []
    for n in cls.node.body:
        if isinstance(n, ast.Assign) and len(n.targets) == 1 and isinstance(n.targets[0], ast.Name):
            nm = n.targets[0].id
            if not (nm.startswith('_') and nm.endswith('_')) and nm != '_ignore_':
                out.append((nm, n.value))
    return out


def enum_members(it, cls):
    key = (source.REPO, cls.mod.dotted, cls.qualname)
    if key not in _ENUM_CACHE:
        members, auto = [], 0
        for nm, node in _enum_member_names(cls):
            if isinstance(node, ast.Call) and _dotted(cls.mod, node) == 'enum.auto':
                auto += 1
                val = auto
            else:
                val = it.eval(E.Frame(cls.mod, {}), node)
                if isinstance(val, int) and not isinstance(val, bool):
                    auto = val
            alias = None
            for m in members:
                if not z3.is_expr(val) and not z3.is_expr(m.attrs['value']) and type(m.attrs['value']) is type(val) and m.attrs['value'] == val:
                    alias = m
            if alias is not None:
                members.append(alias)       # an alias of an earlier member
                continue
            o = Obj(cls, {'name': nm, 'value': val, '_name_': nm, '_value_': val})
            o.enum_member = True
            members.append(o)
        _ENUM_CACHE[key] = (dict(zip([n for n, _ in _enum_member_names(cls)], members)), members)
    return list(dict.fromkeys(_ENUM_CACHE[key][1]))


def enum_member(it, cls, name):
    enum_members(it, cls)
    key = (source.REPO, cls.mod.dotted, cls.qualname)
    try:
        return _ENUM_CACHE[key][0][name]
    except KeyError:
        raise Unsupported('enum %s has no member %s in the current tree' % (cls.qualname, name))


def enum_lookup(it, cls, args, kw):
    if len(args) != 1 or kw:
        raise Unsupported('functional enum API on %s' % cls.qualname)
    x = args[0]
    if isinstance(x, Obj) and getattr(x, 'enum_member', False) and E.same_class(x.cls, cls):
        return x
    for m in enum_members(it, cls):
        c = E.eq_values(m.attrs['value'], x)
        if isinstance(c, bool):
            if c:
                return m
        elif it.truth(c):
            return m
    _raise(it, 'ValueError', 'not a valid %s' % cls.name)


def _class_attr_value(it, cls, name, node, _prev=M.class_attr_value):
    if is_enum(cls) and any(name == n for n, _ in _enum_member_names(cls)):
        return enum_member(it, cls, name)
    return _prev(it, cls, name, node)


M.class_attr_value = _class_attr_value


def _isinstance_hook(it, o, c, _prev=M.isinstance_hook):
    if isinstance(c, ExtRef) and c.dotted in _ENUM_BASES:
        return isinstance(o, Obj) and getattr(o, 'enum_member', False)
    return _prev(it, o, c)


M.isinstance_hook = _isinstance_hook


def _iterate_hook(it, v, _prev=M.iterate_hook):
    if isinstance(v, ClassInfo) and is_enum(v):
        return enum_members(it, v)
    return _prev(it, v)


M.iterate_hook = _iterate_hook


_prev_deepcopy = M.deepcopy


def _deepcopy(it, v, memo=None):
    if isinstance(v, Obj) and getattr(v, 'enum_member', False):
        return v                             # enum members are singletons
    if isinstance(v, (Validator, Converter, Setter)):
        return v
    return _prev_deepcopy(it, v, memo)


M.deepcopy = _deepcopy
EXTERNAL['copy.deepcopy'] = Builtin('copy.deepcopy', lambda it, args, kw: M.deepcopy(it, args[0]))

_prev_shallow = EXTERNAL['copy.copy'].fn


def _shallow(it, args, kw):
    v = args[0]
    if isinstance(v, Obj) and getattr(v, 'enum_member', False):
        return v
    if isinstance(v, pm.SymList):
        return M.deepcopy(it, v)
    return _prev_shallow(it, args, kw)


EXTERNAL['copy.copy'] = Builtin('copy.copy', _shallow)


# ------------------------------------------------------------------------------------------ collections.abc mixins
def _is_mapping_class(cls):
    for c in E.mro(cls):
        if isinstance(c, ClassInfo):
            for b in c.base_nodes:
                if _dotted(c.mod, b) in _MAPPING_BASES:
                    return True
    return False


def _dunder(it, o, name):
    c, m = E.find_method(o.cls, name)
    if m is None:
        raise Unsupported('%s lacks %s required by the Mapping mixin' % (o.cls.qualname, name))
    return Bound(o, FuncVal(c.mod, m, c))


def _map_getitem_or_missing(it, o, k):
    """self[k], or MISSING when it raises KeyError (Mapping.__contains__/get/pop are defined this way)."""
    try:
        return it.call(_dunder(it, o, '__getitem__'), [k], {})
    except PyRaise as pr:
        if it.isinstance_exc(pr.exc, (BuiltinClass('KeyError'),)):
            return M.MISSING
        raise


def _map_keys(it, o):
    return list(M.iterate(it, o))


def _map_update(it, o, args, kw):
    setitem = _dunder(it, o, '__setitem__')
    if args:
        other = args[0]
        if isinstance(other, M.PyDict):
            pairs = other.items()
        elif isinstance(other, Obj) and isinstance(other.cls, ClassInfo) and _is_mapping_class(other.cls):
            pairs = [(k, it.call(_dunder(it, other, '__getitem__'), [k], {})) for k in _map_keys(it, other)]
        else:
            pairs = [tuple(M.iterate(it, kv)) for kv in M.iterate(it, other)]
        for k, v in pairs:
            it.call(setitem, [k, v], {})
    for k, v in kw.items():
        it.call(setitem, [k, v], {})
    return None


def _mapping_getattr(it, o, a):
    if a not in ('get', 'pop', 'update', 'keys', 'values', 'items', 'setdefault', 'clear', 'popitem', '__contains__'):
        return M.MISSING
    if not _is_mapping_class(o.cls):
        return M.MISSING
    if a == 'get':
        def get(it_, args, kw):
            r = _map_getitem_or_missing(it_, o, args[0])
            return (args[1] if len(args) > 1 else kw.get('default')) if r is M.MISSING else r
        return Builtin('Mapping.get', get)
    if a == '__contains__':
        return Builtin('Mapping.__contains__', lambda it_, args, kw: _map_getitem_or_missing(it_, o, args[0]) is not M.MISSING)
    if a == 'pop':
        def pop(it_, args, kw):
            r = _map_getitem_or_missing(it_, o, args[0])
            if r is M.MISSING:
                if len(args) > 1:
                    return args[1]
                _raise(it_, 'KeyError', args[0])
            it_.call(_dunder(it_, o, '__delitem__'), [args[0]], {})
            return r
        return Builtin('MutableMapping.pop', pop)
    if a == 'update':
        return Builtin('MutableMapping.update', lambda it_, args, kw: _map_update(it_, o, args, kw))
    if a == 'keys':
        return Builtin('Mapping.keys', lambda it_, args, kw: M.DictView(_map_keys(it_, o)))
    if a == 'values':
        return Builtin('Mapping.values', lambda it_, args, kw: M.DictView(
            [it_.call(_dunder(it_, o, '__getitem__'), [k], {}) for k in _map_keys(it_, o)]))
    if a == 'items':
        return Builtin('Mapping.items', lambda it_, args, kw: M.DictView(
            [(k, it_.call(_dunder(it_, o, '__getitem__'), [k], {})) for k in _map_keys(it_, o)]))
    if a == 'setdefault':
        def setdefault(it_, args, kw):
            r = _map_getitem_or_missing(it_, o, args[0])
            if r is M.MISSING:
                d = args[1] if len(args) > 1 else None
                it_.call(_dunder(it_, o, '__setitem__'), [args[0], d], {})
                return d
            return r
        return Builtin('MutableMapping.setdefault', setdefault)
    if a == 'clear':
        def clear(it_, args, kw):
            for k in _map_keys(it_, o):
                it_.call(_dunder(it_, o, '__delitem__'), [k], {})
        return Builtin('MutableMapping.clear', clear)
    raise Unsupported('Mapping mixin method %s' % a)


def _contains_hook(it, container, x, _prev=M.contains_hook):
    if isinstance(container, Obj) and isinstance(container.cls, ClassInfo) and not isinstance(container, ExcObj):
        c, m = E.find_method(container.cls, '__contains__')
        if m is None and _is_mapping_class(container.cls):
            return _map_getitem_or_missing(it, container, x) is not M.MISSING
    return _prev(it, container, x)


M.contains_hook = _contains_hook


# ------------------------------------------------------------------------------------------ small builtin gaps
def _len_hook(it, v, _prev=M.len_hook):
    if isinstance(v, M.DictView):
        return len(v.items)
    return _prev(it, v)


M.len_hook = _len_hook
