"""Read-frame analysis (DESIGN.md section 6, "Read frames") -- reusable engine.

A small abstract interpreter over the *real* AST of the repository (never imports it):

* class-aware call-graph closure: a call is expanded only when the receiver's class is
  known -- (1) self.m() through the MRO, (2) self._x.m() when the attribute holds an object
  built by a constructor call of a repo class (tracked by actually interpreting __init__ /
  the attrs-generated __init__) or is annotated, (3) mod.f()/f() through the import table,
  (4) locals bound to a constructor call / annotated parameters, (5) library calls are
  leaves looked up in the ambient-nondeterminism table.  Everything else is NOT expanded
  and is recorded as an assumption ("callee assumed deterministic"), never an alarm.
* seed taint (must-analysis: AND at control-flow joins, OR through data composition),
  None-ness of the seed (branches whose guard is decidably false when the seed parameter is
  not None are pruned -- decided by evaluating the guard expression abstractly, not by name),
* wall-clock values carry the ids of the reads they derive from; a read is excused exactly
  when no derived value ever escapes to something that is not logging / metadata / profiler.

Nothing here knows about property C14; the contract file supplies entries and policy.
"""
import ast
import re

from . import source
from .source import ModuleInfo

N, V = 'N', 'V'
BOTH = frozenset((N, V))
ONLY_V = frozenset((V,))
ONLY_N = frozenset((N,))
EMPTY = frozenset()

SEEDLIKE = re.compile(r'(^|_)(seed|rng|prng)$|^rng_|^random_state$|^(seed|rng)_?key$')


class AV(object):
    """Abstract value.  taint: must-depend on the seed; unk: provenance not fully tracked;
    clock: ids of wall-clock reads this value derives from; null: may be None / a value;
    refs: abstract objects / functions / classes / modules it may denote."""
    __slots__ = ('taint', 'unk', 'clock', 'null', 'refs', 'rng', 'meta', 'setk', 'elem', 'isstr', 'isint', 'items', 'bottom', 'dflt')

    def __init__(self, taint=False, unk=False, clock=EMPTY, null=ONLY_V, refs=EMPTY, rng=False, meta=False,
                 setk=None, elem=None, isstr=False, isint=False, items=None, bottom=False, dflt=False):
        self.taint, self.unk, self.clock, self.null, self.refs = taint, unk, clock, null, refs
        self.rng, self.meta, self.setk, self.elem, self.isstr, self.isint = rng, meta, setk, elem, isstr, isint
        self.items, self.bottom = items, bottom
        self.dflt = dflt     # the callee's own parameter default (the caller omitted the argument)

    def sig(self):
        return (self.taint, self.unk, self.clock, self.null, self.refs, self.rng, self.meta, self.setk, self.elem,
                self.isstr, self.isint, self.bottom, self.dflt)

    def but(self, **kw):
        d = {k: getattr(self, k) for k in AV.__slots__}
        d.update(kw)
        return AV(**d)

    def __repr__(self):
        fl = [k for k in ('taint', 'unk', 'rng', 'meta', 'isstr', 'isint') if getattr(self, k)]
        return '<AV %s null=%s refs=%d clock=%d%s>' % (','.join(fl), ''.join(sorted(self.null)), len(self.refs),
                                                       len(self.clock), ' set:%s' % self.setk if self.setk else '')


BOTTOM = AV(taint=True, null=EMPTY, bottom=True)
NONE = AV(null=ONLY_N)


def unknown(taint=False, unk=True, clock=EMPTY, null=BOTH):
    return AV(taint=taint, unk=(unk and not taint), clock=clock, null=null)


def join(a, b):
    """Control-flow join."""
    if a is None or a.bottom:
        return b
    if b is None or b.bottom:
        return a
    if a is b:
        return a
    setk = a.setk if a.setk == b.setk else ('unk' if (a.setk and b.setk) else None)
    items = None
    if a.items is not None and b.items is not None and len(a.items) == len(b.items):
        items = tuple(join(x, y) for x, y in zip(a.items, b.items))
    return AV(taint=a.taint and b.taint, unk=a.unk or b.unk, clock=a.clock | b.clock, null=a.null | b.null,
              refs=a.refs | b.refs, rng=a.rng or b.rng, meta=a.meta or b.meta, setk=setk,
              elem=a.elem if a.elem == b.elem else None, isstr=a.isstr and b.isstr, isint=a.isint and b.isint, items=items,
              dflt=a.dflt and b.dflt)


def compose(vals, null=ONLY_V, **kw):
    """Data composition (operators, containers, results of deterministic callees)."""
    vals = [v for v in vals if v is not None and not v.bottom]
    t = any(v.taint for v in vals)
    c = EMPTY
    for v in vals:
        c = c | v.clock
    return AV(taint=t, unk=(not t) and any(v.unk for v in vals), clock=c, null=null, **kw)


# ----------------------------------------------------------------------------- library tables
CLOCK_CALLS = {
    'time.time', 'time.time_ns', 'time.monotonic', 'time.monotonic_ns', 'time.perf_counter', 'time.perf_counter_ns',
    'time.process_time', 'time.process_time_ns', 'time.clock_gettime', 'time.clock_gettime_ns', 'time.gmtime',
    'time.localtime', 'time.ctime', 'time.asctime', 'time.strftime', 'time.thread_time',
    'datetime.datetime.now', 'datetime.datetime.utcnow', 'datetime.datetime.today', 'datetime.date.today',
}
RANDOM_AMBIENT_EXACT = {'uuid.uuid1', 'uuid.uuid4', 'uuid.getnode', 'os.urandom', 'os.getpid', 'os.getrandom',
                        'random.SystemRandom', 'secrets.token_bytes', 'secrets.token_hex', 'secrets.randbits',
                        'secrets.choice', 'secrets.randbelow', 'secrets.token_urlsafe', 'threading.get_ident',
                        'jax.random.PRNGKey_from_time'}
NP_RANDOM_CTORS = {'RandomState', 'default_rng', 'Generator', 'SeedSequence', 'PCG64', 'PCG64DXSM', 'MT19937', 'Philox',
                   'SFC64', 'BitGenerator'}
PY_RANDOM_NON_AMBIENT = {'Random', 'SystemRandom'}
RNG_CTORS = {
    'numpy.random.RandomState', 'numpy.random.default_rng', 'numpy.random.Generator', 'numpy.random.SeedSequence',
    'numpy.random.PCG64', 'numpy.random.PCG64DXSM', 'numpy.random.MT19937', 'numpy.random.Philox', 'numpy.random.SFC64',
    'random.Random', 'jax.random.PRNGKey', 'jax.random.key',
    'scipy.stats.qmc.Halton', 'scipy.stats.qmc.Sobol', 'scipy.stats.qmc.LatinHypercube', 'scipy.stats.qmc.PoissonDisk',
    'scipy.stats.qmc.MultinomialQMC', 'scipy.stats.qmc.MultivariateNormalQMC',
    'evojax.algo.cma_jax.CMA_ES_JAX',
}
RNG_SEED_KW = ('seed', 'key', 'x', 'entropy', 'bit_generator', 'rng')
# seed given positionally as the first argument (qmc engines and CMA take it by keyword only)
RNG_POSITIONAL = {n for n in RNG_CTORS if not n.startswith('scipy.') and not n.startswith('evojax.')}
LOG_PREFIXES = ('absl.logging.', 'logging.', 'warnings.', 'jax.monitoring.')
LOG_EXACT = {'print', 'absl.logging', 'logging'}
PASSTHROUGH = {'equinox.filter_jit', 'jax.jit', 'copy.deepcopy', 'copy.copy', 'attr.evolve', 'attrs.evolve',
               'dataclasses.replace', 'jax.block_until_ready', 'jax.device_get', 'jax.device_put'}
# clock value in, clock value out (never an escape)
PROPAGATE = {'int', 'float', 'str', 'repr', 'round', 'abs', 'min', 'max', 'format', 'divmod', 'bool', 'sum', 'tuple', 'list',
             'numpy.int32', 'numpy.int64', 'numpy.float32', 'numpy.float64', 'numpy.uint32', 'numpy.uint64', 'numpy.asarray',
             'numpy.array', 'datetime.timedelta', 'math.floor', 'math.ceil', 'numpy.floor', 'numpy.ceil'}
NONNULL_BUILTINS = {'int', 'float', 'str', 'repr', 'round', 'abs', 'len', 'bool', 'list', 'dict', 'tuple', 'set', 'frozenset',
                    'range', 'sorted', 'enumerate', 'zip', 'sum', 'min', 'max', 'isinstance', 'type', 'iter', 'map', 'filter',
                    'reversed', 'all', 'any', 'hash', 'id', 'format', 'bytes', 'divmod', 'pow', 'issubclass', 'callable'}
BUILTINS = NONNULL_BUILTINS | {'print', 'getattr', 'setattr', 'hasattr', 'next', 'super', 'open', 'vars', 'dir', 'object',
                               'ValueError', 'TypeError', 'KeyError', 'RuntimeError', 'NotImplementedError', 'Exception',
                               'AssertionError', 'IndexError', 'StopIteration', 'AttributeError', 'property', 'staticmethod',
                               'classmethod', 'slice', 'NotImplemented', 'Ellipsis', 'delattr', 'globals', 'locals', 'input'}
CONTAINER_MUTATORS = {'append', 'extend', 'add', 'insert', 'put', 'update', 'setdefault', 'appendleft', 'put_nowait'}
ORDER_SENSITIVE_CONSUMERS = {'list', 'tuple', 'enumerate', 'zip', 'iter', 'next', 'numpy.array', 'numpy.asarray', 'map',
                             'filter', 'numpy.fromiter', 'numpy.stack', 'numpy.concatenate', 'dict.fromkeys'}
ATTRS_DECOS = re.compile(r'^(attr|attrs)\.(define|s|attrs|frozen|mutable|dataclass)\b|^(dataclasses\.)?dataclass\b|'
                         r'^(flax\.)?struct\.dataclass\b|^chex\.dataclass\b')
DATACLASS_BASES = re.compile(r'^(eqx|equinox)\.Module$|^(flax\.)?struct\.PyTreeNode$')
FIELD_CALLS = re.compile(r'^(attr|attrs)\.(field|ib|attrib)$|^(dataclasses\.)?field$|^(flax\.)?struct\.field$|^(eqx|equinox)\.field$')


def classify_lib(name):
    """-> ('clock'|'random'|'rngctor'|'log'|'passthrough'|None)."""
    if name in CLOCK_CALLS:
        return 'clock'
    if name in RANDOM_AMBIENT_EXACT:
        return 'random'
    if name in RNG_CTORS:
        return 'rngctor'
    p = name.split('.')
    if len(p) == 3 and p[0] == 'numpy' and p[1] == 'random' and p[2] not in NP_RANDOM_CTORS and p[2][:1].islower():
        return 'random'
    if len(p) == 2 and p[0] == 'random' and p[1] not in PY_RANDOM_NON_AMBIENT and p[1][:1].islower():
        return 'random'
    if len(p) >= 2 and p[0] == 'uuid' and p[1] in ('uuid1', 'uuid4'):
        return 'random'
    if name in LOG_EXACT or any(name.startswith(x) for x in LOG_PREFIXES):
        return 'log'
    if name in PASSTHROUGH:
        return 'passthrough'
    return None


def dotted_of(e):
    if isinstance(e, ast.Name):
        return [e.id]
    if isinstance(e, ast.Attribute):
        b = dotted_of(e.value)
        return b + [e.attr] if b else None
    return None


def is_stub(fn):
    """Abstract / protocol method: docstring, pass, ..., raise NotImplementedError only."""
    for s in fn.body:
        if isinstance(s, ast.Pass):
            continue
        if isinstance(s, ast.Expr) and isinstance(s.value, ast.Constant):
            continue
        if isinstance(s, ast.Raise) and s.exc is not None and 'NotImplementedError' in ast.unparse(s.exc):
            continue
        return False
    return True


class AObj(object):
    """Abstract object: one per allocation site (or per annotated class)."""
    def __init__(self, key, cls, origin):
        self.key, self.cls, self.origin, self.attrs = key, cls, origin, {}

    def __repr__(self):
        return '<obj %s %s>' % (self.cls.qualname, self.origin)


class Collector(object):
    """Everything one entry's analysis records (final fix-point round only)."""
    def __init__(self):
        self.reset()
        self.assumptions = set()

    def reset(self):
        self.closure = {}            # 'mod:qual' -> (mod, qual)
        self.hits = {}               # site -> dict   (random-type ambient, hash(str), set iteration)
        self.clock_sites = {}        # site -> {'what','where','escapes':[...]}
        self.rng_ctors = {}          # site -> dict
        self.rng_uses = set()
        self.forwards = {}           # site -> dict  (explicit seed-like arguments)
        self.pruned = {}             # site -> text  (guarded fall-backs excluded)
        self.unresolved = set()
        self.taint_passed = set()     # seed-derived values handed to callees we could not resolve


class Frame(object):
    def __init__(self, mod, cls, fn, env, parent=None, selfobj=None, qual='?'):
        self.mod, self.cls, self.fn, self.env, self.parent, self.selfobj, self.qual = mod, cls, fn, env, parent, selfobj, qual
        self.returns = []
        self.local_imports = {}
        self.loop_exits = []

    def where(self, node):
        return '%s:%s:%d' % (self.mod.dotted, self.qual, getattr(node, 'lineno', 0))


class Engine(object):
    """Policy:
      expand_prefixes: module prefixes whose functions are expanded (others: 'assumed deterministic')
      sink_modules:    repo modules whose calls are timing/logging sinks (not expanded; results carry a clock id)
      restore_methods: methods never part of a seeded closure (load/recover: C13's concern)
    """
    def __init__(self, expand_prefixes, sink_modules=(), max_depth=40):
        self.expand_prefixes = tuple(expand_prefixes)
        self.sink_modules = tuple(sink_modules)
        self.max_depth = max_depth
        self.objs = {}
        self.col = Collector()
        self.memo = {}
        self.active = set()
        self.changed = False
        self.depth = 0
        self.modval_memo = {}
        self.mro_memo = {}
        self.entry_seed_regex = True      # entry parameters named like a seed (SEEDLIKE) are seeds even if not declared

    # ------------------------------------------------------------------ module level resolution
    def expandable(self, dotted):
        return any(dotted == p or dotted.startswith(p + '.') or dotted.startswith(p) and p.endswith('.') for p in self.expand_prefixes)

    def is_sink_module(self, dotted):
        return any(dotted == p or dotted.startswith(p + '.') for p in self.sink_modules)

    def mod_name(self, mod, name, frame=None, seen=()):
        """Value of a module-level name: AV or None when the module does not define it."""
        if frame is not None and name in frame.local_imports:
            return self.import_target(mod, frame.local_imports[name])
        if name in mod.funcs:
            return AV(refs=frozenset([('func', mod.dotted, name)]))
        if name in mod.classes:
            return AV(refs=frozenset([('class', mod.dotted, name)]))
        if name in mod.imports:
            return self.import_target(mod, mod.imports[name], name)
        if name in mod.assigns:
            key = (mod.dotted, name)
            if key in self.modval_memo:
                return self.modval_memo[key]
            if key in seen:
                return unknown()
            self.modval_memo[key] = unknown()          # recursion guard
            fr = Frame(mod, None, None, {}, qual='<module>')
            try:
                v = self.eval(mod.assigns[name], fr)
            except RecursionError:
                v = unknown()
            self.modval_memo[key] = v
            return v
        return None

    def import_target(self, mod, target, alias=None):
        """`import a.b as x` / `from a import b`: repo module, repo class/function, or library leaf."""
        if ModuleInfo.exists(target):
            return AV(refs=frozenset([('mod', target)]))
        if '.' in target:
            base, attr = target.rsplit('.', 1)
            if ModuleInfo.exists(base):
                try:
                    m2 = ModuleInfo.get(base)
                except (SyntaxError, FileNotFoundError):
                    return unknown()
                v = self.mod_name(m2, attr)
                if v is not None:
                    return v
                return unknown()
        if target.split('.')[0] in ('vizier',):
            return unknown()
        return AV(refs=frozenset([('lib', target)]))

    def get_mod(self, dotted):
        try:
            return ModuleInfo.get(dotted)
        except (FileNotFoundError, SyntaxError):
            return None

    # ------------------------------------------------------------------ classes
    def class_of(self, ref):
        m = self.get_mod(ref[1])
        if m is None:
            return None
        try:
            return m.find_class(ref[2])
        except KeyError:
            return None

    def base_classes(self, ci):
        out = []
        for b in ci.base_nodes:
            while isinstance(b, ast.Subscript):
                b = b.value
            try:
                v = self.eval(b, Frame(ci.mod, None, None, {}, qual='<class %s>' % ci.name))
            except Exception:
                continue
            for r in v.refs:
                if r[0] == 'class':
                    c = self.class_of(r)
                    if c is not None:
                        out.append(c)
        return out

    def mro(self, ci):
        key = (ci.mod.dotted, ci.qualname)
        if key in self.mro_memo:
            return self.mro_memo[key]
        self.mro_memo[key] = [ci]
        out, seen = [], set()

        def walk(c, depth):
            k = (c.mod.dotted, c.qualname)
            if k in seen or depth > 12:
                return
            seen.add(k)
            out.append(c)
            for b in self.base_classes(c):
                walk(b, depth + 1)
        walk(ci, 0)
        self.mro_memo[key] = out
        return out

    def find_method(self, ci, name, after=None):
        """(defining ClassInfo, FunctionDef) through the MRO; `after`: start after that class (super())."""
        chain = self.mro(ci)
        if after is not None:
            ks = [(c.mod.dotted, c.qualname) for c in chain]
            k = (after.mod.dotted, after.qualname)
            chain = chain[ks.index(k) + 1:] if k in ks else []
        for c in chain:
            if name in c.methods:
                return c, c.methods[name]
        return None, None

    def class_attr_expr(self, ci, name):
        for c in self.mro(ci):
            if name in c.assigns:
                return c, c.assigns[name]
        return None, None

    def class_annotation(self, ci, name):
        for c in self.mro(ci):
            if name in c.annotations:
                return c, c.annotations[name]
        return None, None

    def is_dataclass_like(self, ci):
        for c in self.mro(ci):
            if any(ATTRS_DECOS.search(d) for d in c.decorators):
                return True
            if any(DATACLASS_BASES.search(b) for b in c.bases):
                return True
        return False

    def fields(self, ci):
        """attrs / dataclass fields in definition order over the MRO (bases first).
        -> list of dict(name, init_name, init, kw_only, default(expr|None), factory(expr|None), owner)"""
        out, idx = [], {}
        for c in reversed(self.mro(ci)):
            decos = ' '.join(c.decorators)
            auto = not re.search(r'auto_attribs\s*=\s*False', decos)
            old_style = bool(re.search(r'(^|\s)attr\.s\b|attr\.attrs\b', decos)) and 'auto_attribs=True' not in decos
            class_kw_only = bool(re.search(r'kw_only\s*=\s*True', decos))
            for name in c.field_order:
                val = c.assigns.get(name)
                ann = c.annotations.get(name)
                isfield = isinstance(val, ast.Call) and FIELD_CALLS.match(ast.unparse(val.func) or '')
                if ann is not None and 'ClassVar' in ast.unparse(ann):
                    continue
                if ann is None and not isfield:
                    continue
                if ann is not None and not isfield and (not auto or old_style):
                    continue
                f = {'name': name, 'init_name': name.lstrip('_'), 'init': True, 'kw_only': class_kw_only, 'default': None,
                     'factory': None, 'owner': c, 'has_default': False}
                if isfield:
                    for kw in val.keywords:
                        if kw.arg == 'init' and isinstance(kw.value, ast.Constant):
                            f['init'] = bool(kw.value.value)
                        elif kw.arg == 'kw_only' and isinstance(kw.value, ast.Constant):
                            f['kw_only'] = bool(kw.value.value)
                        elif kw.arg == 'alias' and isinstance(kw.value, ast.Constant):
                            f['init_name'] = kw.value.value
                        elif kw.arg == 'default':
                            v = kw.value
                            if isinstance(v, ast.Call) and ast.unparse(v.func) in ('attr.Factory', 'attrs.Factory') and v.args:
                                f['factory'] = v.args[0]
                            else:
                                f['default'] = v
                            f['has_default'] = True
                        elif kw.arg in ('factory', 'default_factory'):
                            f['factory'] = kw.value
                            f['has_default'] = True
                elif val is not None:
                    f['default'] = val
                    f['has_default'] = True
                if name in idx:
                    out[idx[name]] = f
                else:
                    idx[name] = len(out)
                    out.append(f)
        return out

    # ------------------------------------------------------------------ annotations
    def annot_class(self, mod, ann, frame=None):
        """Repo class named by an annotation (Optional[X] / 'X' / X[...] stripped), else None."""
        if ann is None:
            return None
        if isinstance(ann, ast.Constant) and isinstance(ann.value, str):
            try:
                ann = ast.parse(ann.value, mode='eval').body
            except SyntaxError:
                return None
        if isinstance(ann, ast.Subscript):
            head = ast.unparse(ann.value)
            if head.split('.')[-1] in ('Optional',):
                return self.annot_class(mod, ann.slice, frame)
            if head.split('.')[-1] in ('Sequence', 'List', 'list', 'Dict', 'dict', 'Tuple', 'tuple', 'Union', 'Callable',
                                        'Iterable', 'Collection', 'Set', 'set', 'Mapping', 'Type', 'DefaultDict'):
                return None
            ann = ann.value
        if isinstance(ann, ast.BinOp):      # X | None
            return self.annot_class(mod, ann.left, frame)
        if not isinstance(ann, (ast.Name, ast.Attribute)):
            return None
        try:
            v = self.eval(ann, Frame(mod, None, None, {}, qual='<annotation>'))
        except Exception:
            return None
        cl = [r for r in v.refs if r[0] == 'class']
        if len(cl) == 1 and not v.unk:
            return self.class_of(cl[0])
        return None

    def annot_elem(self, mod, ann, depth=0):
        """'str' | 'int' | None: key/element type promised by a container annotation."""
        if ann is None or depth > 4:
            return None
        if isinstance(ann, ast.Constant) and isinstance(ann.value, str):
            try:
                ann = ast.parse(ann.value, mode='eval').body
            except SyntaxError:
                return None
        if isinstance(ann, ast.Name) and ann.id in mod.assigns:
            return self.annot_elem(mod, mod.assigns[ann.id], depth + 1)
        if isinstance(ann, ast.Subscript):
            head = ast.unparse(ann.value).split('.')[-1]
            sl = ann.slice
            if head == 'Optional':
                return self.annot_elem(mod, sl, depth + 1)
            if head in ('Dict', 'dict', 'Mapping', 'DefaultDict', 'OrderedDict', 'MutableMapping', 'List', 'list', 'Sequence',
                        'Set', 'set', 'FrozenSet', 'frozenset', 'Iterable', 'Collection', 'Tuple', 'tuple'):
                first = sl.elts[0] if isinstance(sl, ast.Tuple) and sl.elts else sl
                t = ast.unparse(first)
                if t == 'str':
                    return 'str'
                if t == 'int':
                    return 'int'
        return None

    def typed_obj(self, ci):
        key = ('annot', ci.mod.dotted, ci.qualname)
        if key not in self.objs:
            self.objs[key] = AObj(key, ci, 'annot')
        return self.objs[key]

    def param_value(self, mod, arg, base=None, frame=None):
        """AV of a parameter nobody supplied a tracked object for: type it by its annotation (rule 4)."""
        v = base if base is not None else AV(null=BOTH)
        ann = arg.annotation
        if ann is not None and not any(r[0] == 'obj' for r in v.refs):
            ci = self.annot_class(mod, ann, frame)
            if ci is not None and (self.expandable(ci.mod.dotted) or self.is_sink_module(ci.mod.dotted)):
                v = v.but(refs=v.refs | frozenset([('obj', self.typed_obj(ci).key)]))
        if ann is not None and v.elem is None:
            e = self.annot_elem(mod, ann)
            if e:
                v = v.but(elem=e)
        if ann is not None and ast.unparse(ann) in ('str', 'Optional[str]'):
            v = v.but(isstr=V in v.null and v.null == ONLY_V)
        return v

    # ------------------------------------------------------------------ small helpers
    def assume(self, text):
        self.col.assumptions.add(text)

    def new_clock_site(self, what, frame, node):
        site = frame.where(node) + ':' + str(getattr(node, 'col_offset', 0))
        self.col.clock_sites.setdefault(site, {'what': what, 'where': frame.where(node), 'escapes': [], 'sinks': []})
        return site

    def escape(self, av, reason, frame, node):
        if av is None:
            return
        for s in av.clock:
            rec = self.col.clock_sites.setdefault(s, {'what': '?', 'where': s, 'escapes': [], 'sinks': []})
            r = '%s at %s' % (reason, frame.where(node))
            if r not in rec['escapes']:
                rec['escapes'].append(r)

    def sink(self, av, kind, frame, node):
        if av is None:
            return
        for s in av.clock:
            rec = self.col.clock_sites.get(s)
            if rec is not None and kind not in rec['sinks']:
                rec['sinks'].append(kind)

    def hit(self, kind, what, frame, node, extra=None):
        site = frame.where(node) + ':' + str(getattr(node, 'col_offset', 0))
        self.col.hits[site] = {'kind': kind, 'what': what, 'where': frame.where(node), 'detail': extra}

    def lib_name_of(self, func, frame):
        """Fully qualified library name of a call target, purely syntactically (for pruned branches)."""
        d = dotted_of(func)
        if not d:
            return None
        head = d[0]
        f = frame
        while f is not None:
            if f.env is not None and head in f.env:
                return None
            f = f.parent
        tgt = frame.local_imports.get(head) or frame.mod.imports.get(head)
        if tgt is None:
            return '.'.join(d) if head in BUILTINS and len(d) == 1 else None
        if ModuleInfo.exists(tgt) or tgt.split('.')[0] == 'vizier':
            return None
        return '.'.join([tgt] + d[1:])

    def scan_pruned(self, nodes, frame, guard):
        for n in nodes if isinstance(nodes, list) else [nodes]:
            for c in ast.walk(n):
                if isinstance(c, ast.Call):
                    ln = self.lib_name_of(c.func, frame)
                    if ln and classify_lib(ln) in ('clock', 'random'):
                        self.col.pruned[frame.where(c) + ':' + str(c.col_offset)] = (
                            '%s at %s excluded: guard `%s` is false whenever the seed is not None' % (ln, frame.where(c), guard))

    # ------------------------------------------------------------------ expressions
    def lookup(self, name, frame):
        f = frame
        while f is not None:
            if f.env is not None and name in f.env:
                return f.env[name]
            f = f.parent
        v = self.mod_name(frame.mod, name, frame)
        if v is not None:
            return v
        if name in BUILTINS:
            return AV(refs=frozenset([('builtin', name)]))
        if name in ('True', 'False'):
            return AV()
        return unknown()

    def eval(self, node, frame):
        m = getattr(self, 'e_' + type(node).__name__, None)
        if m is None:
            vals = [self.eval(c, frame) for c in ast.iter_child_nodes(node) if isinstance(c, ast.expr)]
            return compose(vals, null=BOTH).but(unk=True) if not any(v.taint for v in vals) else compose(vals, null=BOTH)
        return m(node, frame)

    def e_Constant(self, node, frame):
        v = node.value
        if v is None:
            return NONE
        return AV(isstr=isinstance(v, str), isint=isinstance(v, int) and not isinstance(v, bool))

    def e_Name(self, node, frame):
        return self.lookup(node.id, frame)

    def e_JoinedStr(self, node, frame):
        vals = [self.eval(v.value, frame) for v in node.values if isinstance(v, ast.FormattedValue)]
        return compose(vals, isstr=True)

    def e_FormattedValue(self, node, frame):
        return self.eval(node.value, frame)

    def e_NamedExpr(self, node, frame):
        v = self.eval(node.value, frame)
        self.assign(node.target, v, frame)
        return v

    def e_Starred(self, node, frame):
        return self.eval(node.value, frame)

    def e_Await(self, node, frame):
        return self.eval(node.value, frame)

    def e_Yield(self, node, frame):
        v = self.eval(node.value, frame) if node.value is not None else NONE
        frame.returns.append(v)
        return unknown()

    e_YieldFrom = e_Yield

    def e_Slice(self, node, frame):
        return compose([self.eval(x, frame) for x in (node.lower, node.upper, node.step) if x is not None])

    def e_Tuple(self, node, frame):
        vals = [self.eval(e, frame) for e in node.elts]
        strs = bool(vals) and all(v.isstr for v in vals)
        ints = bool(vals) and all(v.isint for v in vals)
        out = compose(vals, elem='str' if strs else ('int' if ints else None))
        refs = EMPTY
        for v in vals:
            refs = refs | v.refs
        return out.but(items=tuple(vals), rng=any(v.rng for v in vals))

    e_List = e_Tuple

    def e_Set(self, node, frame):
        vals = [self.eval(e, frame) for e in node.elts]
        k = 'str' if vals and all(v.isstr for v in vals) else ('int' if vals and all(v.isint for v in vals) else 'unk')
        return compose(vals, setk=k, elem=None if k == 'unk' else k)

    def e_Dict(self, node, frame):
        ks = [self.eval(k, frame) for k in node.keys if k is not None]
        vs = [self.eval(v, frame) for v in node.values]
        e = 'str' if ks and all(k.isstr for k in ks) else None
        return compose(ks + vs, elem=e)

    def e_BinOp(self, node, frame):
        a, b = self.eval(node.left, frame), self.eval(node.right, frame)
        out = compose([a, b], isstr=(a.isstr and b.isstr and isinstance(node.op, ast.Add)) or (a.isstr and isinstance(node.op, (ast.Mod, ast.Mult))),
                      isint=a.isint and b.isint and not isinstance(node.op, ast.Div))
        if a.setk or b.setk:
            ks = {a.setk, b.setk} - {None}
            out = out.but(setk=ks.pop() if len(ks) == 1 else 'unk')
        return out

    def e_UnaryOp(self, node, frame):
        v = self.eval(node.operand, frame)
        return compose([v], isint=v.isint and not isinstance(node.op, ast.Not))

    def e_Compare(self, node, frame):
        vals = [self.eval(node.left, frame)] + [self.eval(c, frame) for c in node.comparators]
        return compose(vals)

    def e_BoolOp(self, node, frame):
        is_or = isinstance(node.op, ast.Or)
        saved = frame.env
        env = dict(saved)
        vals, nulls = [], EMPTY
        for i, operand in enumerate(node.values):
            frame.env = env
            v = self.eval(operand, frame)
            vals.append(v)
            last = i == len(node.values) - 1
            if not last:
                nulls = nulls | ((v.null - ONLY_N) if is_or else (v.null & ONLY_N))
                env2 = self.branch(operand, frame, not is_or)
                if env2 is None:
                    self.scan_pruned(node.values[i + 1:], frame, ast.unparse(operand) + (' is falsy' if is_or else ' is truthy'))
                    break
                env = env2
            else:
                nulls = nulls | v.null
        frame.env = saved
        out = vals[0]
        for v in vals[1:]:
            out = join(out, v)
        # the result is a function of the first operand on every path (it selects which operand is returned)
        return out.but(taint=vals[0].taint or all(v.taint for v in vals), null=nulls or BOTH,
                       unk=out.unk and not vals[0].taint)

    def e_IfExp(self, node, frame):
        tv = self.eval(node.test, frame)
        self.escape(tv, 'controls a conditional expression', frame, node)
        saved = frame.env
        out = None
        for positive, sub in ((True, node.body), (False, node.orelse)):
            frame.env = saved
            env = self.branch(node.test, frame, positive)
            if env is None:
                self.scan_pruned(sub, frame, ast.unparse(node.test) if positive else 'not (%s)' % ast.unparse(node.test))
                continue
            frame.env = env
            out = join(out, self.eval(sub, frame))
        frame.env = saved
        return out if out is not None else BOTTOM

    def e_Lambda(self, node, frame):
        return self.make_closure(node, frame, '<lambda>')

    def e_Subscript(self, node, frame):
        base = self.eval(node.value, frame)
        idx = self.eval(node.slice, frame)
        out = compose([base, idx], null=BOTH)
        if base.items is not None and isinstance(node.slice, ast.Constant) and isinstance(node.slice.value, int) \
                and -len(base.items) <= node.slice.value < len(base.items):
            return base.items[node.slice.value]
        return out.but(refs=EMPTY, rng=base.rng, meta=base.meta, unk=out.unk or (bool(base.refs) and not out.taint),
                       isstr=False)

    def comp(self, node, frame, elts):
        saved = frame.env
        frame.env = dict(saved)
        iters = []
        for g in node.generators:
            it = self.eval(g.iter, frame)
            self.check_set_iteration(it, g.iter, frame, 'comprehension iterates over')
            iters.append(it)
            self.assign(g.target, self.element_of(it), frame)
            for c in g.ifs:
                self.escape(self.eval(c, frame), 'controls a comprehension filter', frame, c)
        vals = [self.eval(e, frame) for e in elts]
        frame.env = saved
        return vals, iters

    def e_ListComp(self, node, frame):
        vals, iters = self.comp(node, frame, [node.elt])
        return compose(vals + iters, elem='str' if vals[0].isstr else ('int' if vals[0].isint else None)).but(rng=vals[0].rng)

    e_GeneratorExp = e_ListComp

    def e_SetComp(self, node, frame):
        vals, iters = self.comp(node, frame, [node.elt])
        k = 'str' if vals[0].isstr else ('int' if vals[0].isint else 'unk')
        return compose(vals + iters, setk=k, elem=None if k == 'unk' else k)

    def e_DictComp(self, node, frame):
        vals, iters = self.comp(node, frame, [node.key, node.value])
        return compose(vals + iters, elem='str' if vals[0].isstr else None)

    def element_of(self, it):
        """AV of an element obtained by iterating `it`."""
        if it.items is not None and it.items:
            out = None
            for x in it.items:
                out = join(out, x)
            return out
        return AV(taint=it.taint, unk=it.unk, clock=it.clock, null=BOTH if it.unk else ONLY_V, isstr=it.elem == 'str',
                  isint=it.elem == 'int', rng=it.rng)

    def check_set_iteration(self, it, node, frame, how):
        if it.setk == 'str':
            self.hit('set_iteration', '%s a set of str (order depends on PYTHONHASHSEED): %s' % (how, ast.unparse(node)[:80]), frame, node)
        elif it.setk == 'unk':
            self.assume('set iterated at %s has elements of unknown type (assumed int or order-insensitive use)' % frame.where(node))

    def e_Attribute(self, node, frame):
        d = dotted_of(node)
        if d and frame.env is not None:
            k = '@' + '.'.join(d)
            if k in frame.env:
                return frame.env[k]
        base = self.eval(node.value, frame)
        return self.getattr(base, node.attr, frame, node)

    def getattr(self, base, name, frame, node):
        outs = []
        for r in sorted(base.refs, key=repr):
            kind = r[0]
            if kind == 'obj':
                outs.append(self.obj_attr(self.objs[r[1]], name, base, frame, node))
            elif kind == 'class':
                ci = self.class_of(r)
                outs.append(self.class_attr(ci, r, name, frame, node) if ci is not None else unknown())
            elif kind == 'mod':
                m = self.get_mod(r[1])
                v = self.mod_name(m, name) if m is not None else None
                if v is None and ModuleInfo.exists(r[1] + '.' + name):
                    v = AV(refs=frozenset([('mod', r[1] + '.' + name)]))
                outs.append(v if v is not None else unknown())
            elif kind == 'lib':
                outs.append(AV(refs=frozenset([('lib', r[1] + '.' + name)])))
            elif kind == 'super':
                tgt, after = r[1], self.class_of(('class',) + r[2])
                if tgt[0] == 'obj':
                    ci = self.objs[tgt[1]].cls
                    c, fn = self.find_method(ci, name, after=after)
                    outs.append(AV(refs=frozenset([('bound', tgt[1], c.mod.dotted, c.qualname, name)])) if fn is not None else unknown())
                else:
                    ci = self.class_of(tgt)
                    c, fn = self.find_method(ci, name, after=after) if ci is not None else (None, None)
                    outs.append(AV(refs=frozenset([('cbound', tgt[1], tgt[2], c.mod.dotted, c.qualname, name)])) if fn is not None else unknown())
            else:
                outs.append(unknown(taint=base.taint, unk=True))
        if not outs or base.unk:
            outs.append(AV(taint=base.taint, unk=(not base.taint) and (base.unk or not outs and bool(base.refs)), clock=base.clock,
                           null=BOTH, rng=base.rng and name in ('bit_generator', 'key'), meta=base.meta or name == 'metadata'))
        out = None
        for o in outs:
            out = join(out, o)
        return out

    def obj_attr(self, obj, name, base, frame, node):
        if name in obj.attrs:
            v = obj.attrs[name]
            if v.elem is None:
                c, ann = self.class_annotation(obj.cls, name)
                e = self.annot_elem(c.mod, ann) if ann is not None else None
                if e:
                    v = v.but(elem=e)
            return v
        if name == '__attrs_init__' and self.is_dataclass_like(obj.cls):
            return AV(refs=frozenset([('attrsinit', obj.key)]))
        c, fn = self.find_method(obj.cls, name)
        if fn is not None:
            decos = [ast.unparse(x) for x in fn.decorator_list]
            if any(x == 'property' or x.endswith('cached_property') for x in decos):
                return self.call_function(c.mod, c, fn, AV(refs=frozenset([('obj', obj.key)])), [], {}, [], [], frame, node,
                                          qual=c.qualname + '.' + name, selfobj=obj)
            if 'classmethod' in decos or 'staticmethod' in decos:
                return AV(refs=frozenset([('cbound', obj.cls.mod.dotted, obj.cls.qualname, c.mod.dotted, c.qualname, name)]))
            return AV(refs=frozenset([('bound', obj.key, c.mod.dotted, c.qualname, name)]))
        c, expr = self.class_attr_expr(obj.cls, name)
        if expr is not None and not (isinstance(expr, ast.Call) and FIELD_CALLS.match(ast.unparse(expr.func))):
            return self.eval(expr, Frame(c.mod, c, None, {}, qual=c.qualname))
        # attribute never assigned on a path we interpreted (annotation-typed object, or set elsewhere)
        c, ann = self.class_annotation(obj.cls, name)
        v = AV(unk=True, null=BOTH, meta=name == 'metadata')
        if ann is not None:
            e = self.annot_elem(c.mod, ann)
            # rule (2) is about self._x inside the object's own methods; attributes of *foreign* annotation-typed objects
            # (state.algorithm.supporter...) are not followed: DESIGN section 6 'everything else is not expanded'
            ci = self.annot_class(c.mod, ann) if (frame is not None and frame.selfobj is obj) else None
            if e:
                v = v.but(elem=e)
            if ci is not None and (self.expandable(ci.mod.dotted) or self.is_sink_module(ci.mod.dotted)):
                # rule (2): annotated attribute -> methods resolve; its own attributes stay unknown
                v = v.but(refs=frozenset([('obj', self.typed_obj(ci).key)]))
        return v

    def class_attr(self, ci, ref, name, frame, node):
        c, fn = self.find_method(ci, name)
        if fn is not None:
            return AV(refs=frozenset([('cbound', ref[1], ref[2], c.mod.dotted, c.qualname, name)]))
        for k in self.mro(ci):
            if name in k.classes:
                return AV(refs=frozenset([('class', k.mod.dotted, k.classes[name].qualname)]))
        c, expr = self.class_attr_expr(ci, name)
        if expr is not None:
            return self.eval(expr, Frame(c.mod, c, None, {}, qual=c.qualname))
        return unknown()

    def make_closure(self, node, frame, name):
        key = ('closure', frame.mod.dotted, getattr(node, 'lineno', 0), getattr(node, 'col_offset', 0), name)
        if not hasattr(self, 'closures'):
            self.closures = {}
        first = key not in self.closures
        self.closures[key] = (node, frame)
        if first or True:
            # analyse the body once at definition time (it may only ever be called by a library combinator);
            # parameters are optimistic: assumed seed-derived (printed assumption), so only ambient reads are alarms
            k2 = (key, id(frame.selfobj), 'def')
            if k2 not in self.memo:
                self.memo[k2] = True
                args = node.args
                env = {}
                for a in args.posonlyargs + args.args + args.kwonlyargs + [x for x in (args.vararg, args.kwarg) if x]:
                    env[a.arg] = AV(taint=True, null=BOTH, rng=bool(SEEDLIKE.search(a.arg)))
                fr = Frame(frame.mod, frame.cls, node, env, parent=frame, selfobj=frame.selfobj, qual=frame.qual + '.' + name)
                self.col.closure[frame.mod.dotted + ':' + fr.qual] = (frame.mod.dotted, fr.qual)
                self.depth += 1
                try:
                    if self.depth < self.max_depth:
                        if isinstance(node, ast.Lambda):
                            self.eval(node.body, fr)
                        else:
                            self.exec_block(node.body, fr)
                finally:
                    self.depth -= 1
        return AV(refs=frozenset([key]))

    # ------------------------------------------------------------------ calls
    def e_Call(self, node, frame):
        func = node.func
        # --- special forms
        if isinstance(func, ast.Name) and func.id == 'super' and not node.args:
            if frame.selfobj is not None and frame.cls is not None:
                return AV(refs=frozenset([('super', ('obj', frame.selfobj.key), (frame.cls.mod.dotted, frame.cls.qualname))]))
            cv = self.lookup('cls', frame) if frame.cls is not None else None
            if cv is not None:
                cl = [r for r in cv.refs if r[0] == 'class']
                if cl:
                    return AV(refs=frozenset([('super', cl[0], (frame.cls.mod.dotted, frame.cls.qualname))]))
            return unknown()
        args, stars, kwargs, kwstars = [], [], {}, []
        for a in node.args:
            if isinstance(a, ast.Starred):
                stars.append(self.eval(a.value, frame))
            else:
                args.append(self.eval(a, frame))
        for k in node.keywords:
            if k.arg is None:
                kwstars.append(self.eval(k.value, frame))
            else:
                kwargs[k.arg] = self.eval(k.value, frame)
        recv = None
        if isinstance(func, ast.Attribute):
            recv = self.eval(func.value, frame)
            callee = self.getattr(recv, func.attr, frame, func)
        else:
            callee = self.eval(func, frame)
        text = ast.unparse(func)
        if len(text) > 70:
            text = text[:67] + '...'
        outs = []
        callable_refs = [r for r in callee.refs if r[0] in ('func', 'bound', 'cbound', 'class', 'lib', 'builtin', 'closure', 'obj', 'attrsinit')]
        for r in sorted(callable_refs, key=repr):
            outs.append(self.call_ref(r, recv, args, kwargs, stars, kwstars, frame, node, text))
        if not callable_refs or callee.unk:
            outs.append(self.call_unresolved(recv, callee, func, args, kwargs, stars, kwstars, frame, node, text,
                                             partly=bool(callable_refs)))
        out = None
        for o in outs:
            out = join(out, o)
        return out if out is not None else unknown()

    def forward_check(self, name, av, callee_text, frame, node):
        """An explicitly passed seed-like argument (keyword or bound parameter name)."""
        if not SEEDLIKE.search(name):
            return
        site = '%s:%d:%s' % (frame.where(node), node.col_offset, name)
        self.escape(av, 'passed as `%s` to %s' % (name, callee_text), frame, node)
        self.col.forwards[site] = {'where': frame.where(node), 'callee': callee_text, 'param': name, 'tainted': av.taint,
                                   'unknown': av.unk, 'is_none': av.null == ONLY_N, 'own_default': av.dflt, 'call': ast.unparse(node)[:160]}

    def call_ref(self, r, recv, args, kwargs, stars, kwstars, frame, node, text):
        kind = r[0]
        if kind == 'lib':
            return self.call_lib(r[1], recv, args, kwargs, stars, kwstars, frame, node)
        if kind == 'builtin':
            return self.call_builtin(r[1], args, kwargs, stars, frame, node)
        if kind == 'func':
            m = self.get_mod(r[1])
            try:
                c, fn = m.find(r[2])
            except (KeyError, AttributeError):
                return unknown()
            return self.call_function(m, c, fn, None, args, kwargs, stars, kwstars, frame, node, qual=r[2])
        if kind == 'bound':
            obj = self.objs[r[1]]
            m = self.get_mod(r[2])
            c = m.find_class(r[3])
            fn = c.methods[r[4]]
            return self.call_function(m, c, fn, AV(refs=frozenset([('obj', obj.key)])), args, kwargs, stars, kwstars, frame, node,
                                      qual=r[3] + '.' + r[4], selfobj=obj)
        if kind == 'cbound':
            m = self.get_mod(r[3])
            c = m.find_class(r[4])
            fn = c.methods[r[5]]
            decos = [ast.unparse(x) for x in fn.decorator_list]
            first = None
            if 'classmethod' in decos:
                first = AV(refs=frozenset([('class', r[1], r[2])]))
            elif 'staticmethod' not in decos and args:
                # Class.method(obj, ...): plain function taking the instance explicitly
                first, args = args[0], args[1:]
                so = [x for x in first.refs if x[0] == 'obj']
                return self.call_function(m, c, fn, first, args, kwargs, stars, kwstars, frame, node, qual=r[4] + '.' + r[5],
                                          selfobj=self.objs[so[0][1]] if len(so) == 1 else None)
            return self.call_function(m, c, fn, first, args, kwargs, stars, kwstars, frame, node, qual=r[4] + '.' + r[5])
        if kind == 'class':
            ci = self.class_of(r)
            if ci is None:
                return unknown()
            return self.construct(ci, args, kwargs, stars, kwstars, frame, node)
        if kind == 'attrsinit':
            obj = self.objs[r[1]]
            self.attrs_init(obj, obj.cls, args, kwargs, stars, kwstars, frame, node)
            return NONE
        if kind == 'closure':
            cnode, cframe = self.closures[r]
            return self.call_function(cframe.mod, cframe.cls, cnode, None, args, kwargs, stars, kwstars, frame, node,
                                      qual=cframe.qual + '.' + r[4], selfobj=cframe.selfobj, parent=cframe, closure_key=r)
        if kind == 'obj':
            obj = self.objs[r[1]]
            c, fn = self.find_method(obj.cls, '__call__')
            if fn is None:
                self.assume('call of an instance of %s without __call__ at %s: callee assumed deterministic' % (obj.cls.qualname, frame.where(node)))
                return compose(args + list(kwargs.values()), null=BOTH).but(unk=True)
            return self.call_function(c.mod, c, fn, AV(refs=frozenset([('obj', obj.key)])), args, kwargs, stars, kwstars, frame, node,
                                      qual=c.qualname + '.__call__', selfobj=obj)
        return unknown()

    # --- library leaves
    def call_lib(self, name, recv, args, kwargs, stars, kwstars, frame, node):
        kind = classify_lib(name)
        allv = args + list(kwargs.values()) + stars + kwstars
        if kind == 'clock':
            site = self.new_clock_site(name, frame, node)
            return AV(clock=frozenset([site]))
        if kind == 'random':
            self.hit('ambient_random', '%s(...) uses process-global / OS randomness' % name, frame, node)
            return AV()
        if kind == 'rngctor':
            seed = None
            if name in RNG_POSITIONAL and args:
                seed = args[0]
            for k in RNG_SEED_KW:
                if seed is None and k in kwargs:
                    seed = kwargs[k]
            for s in stars + kwstars:
                seed = s if seed is None else compose([seed, s], null=seed.null)
            site = frame.where(node) + ':' + str(node.col_offset)
            argless = seed is None or seed.null == ONLY_N
            rec = {'ctor': name, 'where': frame.where(node), 'call': ast.unparse(node)[:160], 'argless': argless,
                   'tainted': bool(seed is not None and seed.taint), 'unknown': bool(seed is not None and seed.unk),
                   'may_be_none': bool(seed is not None and N in seed.null and seed.null != ONLY_N),
                   'clock': sorted(seed.clock) if seed is not None else []}
            self.col.rng_ctors[site] = rec
            if argless and not name.startswith('evojax.'):
                self.hit('argless_rng', '%s constructed without a seed (OS entropy)' % name, frame, node)
            if seed is not None:
                self.escape(seed, 'seeds %s' % name, frame, node)
            return AV(taint=rec['tainted'], unk=rec['unknown'], rng=True)
        if kind == 'log':
            for v in allv:
                self.sink(v, 'logging', frame, node)
            return NONE
        if kind == 'passthrough':
            return args[0] if args else (unknown() if not allv else compose(allv))
        for k, v in kwargs.items():
            self.forward_check(k, v, name, frame, node)
        if name.startswith('jax.random.'):
            if any(v.rng for v in allv):
                self.col.rng_uses.add(frame.where(node))
            out = compose(allv)
            return out.but(rng=name.split('.')[-1] in ('split', 'fold_in', 'clone', 'wrap_key_data', 'key_data'))
        if name in PROPAGATE:
            short = name.split('.')[-1]
            return compose(allv, isstr=short in ('str', 'repr', 'format'), isint=short in ('int', 'int32', 'int64', 'uint32', 'uint64'))
        if name in ORDER_SENSITIVE_CONSUMERS:
            for v in args:
                self.check_set_iteration(v, node, frame, name + '() consumes')
        for v in allv:
            self.escape(v, 'passed to %s' % name, frame, node)
        return compose(allv + ([recv] if recv is not None else []))

    def call_builtin(self, name, args, kwargs, stars, frame, node):
        allv = args + list(kwargs.values()) + stars
        if name == 'print':
            for v in allv:
                self.sink(v, 'logging', frame, node)
            return NONE
        if name == 'hash':
            if args and args[0].isstr:
                self.hit('hash_str', 'hash() of a str depends on PYTHONHASHSEED: %s' % ast.unparse(node)[:80], frame, node)
            elif args and not args[0].isint:
                # the argument's type is not tracked (a tuple holding a str, an object with the default id-based hash, ...):
                # a CANDIDATE ambient source -- the caller decides it by a two-process replay (different PYTHONHASHSEED),
                # and it stays an assumption when no replay exists or the replay does not diverge
                self.hit('hash_maybe_salted', 'hash() of a value of untracked type may depend on PYTHONHASHSEED / object identity: %s'
                         % ast.unparse(node)[:80], frame, node)
            return compose(allv, isint=True)
        if name == 'id':
            self.assume('id() at %s assumed not to influence results' % frame.where(node))
            return AV(isint=True)
        if name in ('set', 'frozenset'):
            if not args:
                return AV(setk='unk')
            a = args[0]
            k = a.setk if a.setk else (a.elem or 'unk')
            return compose([a], setk=k, elem=None if k == 'unk' else k)
        if name == 'sorted':
            a = args[0] if args else AV()
            return compose(allv, elem=a.elem)
        if name in ('list', 'tuple', 'enumerate', 'zip', 'iter', 'next', 'map', 'filter', 'reversed'):
            for v in args:
                self.check_set_iteration(v, node, frame, name + '() consumes')
            a = args[0] if args else AV()
            if name in ('list', 'tuple') and a.items is not None:
                return a.but(setk=None)
            if name == 'next':
                return self.element_of(a).but(null=BOTH if len(args) > 1 else ONLY_V)
            return compose(allv, elem=a.elem if name in ('list', 'tuple', 'iter', 'reversed') else None).but(rng=a.rng)
        if name == 'range':
            return compose(allv, elem='int')
        if name == 'getattr':
            if len(args) >= 2 and isinstance(node.args[1], ast.Constant) and isinstance(node.args[1].value, str):
                v = self.getattr(args[0], node.args[1].value, frame, node)
                return join(v, args[2]) if len(args) > 2 else v
            return compose(allv, null=BOTH).but(unk=True)
        if name == 'isinstance' or name == 'issubclass' or name == 'callable' or name == 'hasattr':
            return AV()
        if name == 'type':
            return unknown(taint=any(v.taint for v in allv))
        if name in PROPAGATE or name in NONNULL_BUILTINS:
            return compose(allv, isstr=name in ('str', 'repr', 'format'), isint=name in ('int', 'len'))
        if name in ('setattr', 'delattr'):
            return NONE
        for v in allv:
            self.escape(v, 'passed to %s()' % name, frame, node)
        return compose(allv, null=BOTH)

    # --- unresolved
    def call_unresolved(self, recv, callee, func, args, kwargs, stars, kwstars, frame, node, text, partly=False):
        allv = args + list(kwargs.values()) + stars + kwstars
        attr = func.attr if isinstance(func, ast.Attribute) else None
        for k, v in kwargs.items():
            self.forward_check(k, v, text, frame, node)
        if recv is not None and recv.rng:
            self.col.rng_uses.add(frame.where(node))
            return compose([recv] + allv).but(rng=attr in ('spawn', 'split', 'jumped'))
        if recv is not None and recv.meta:
            for v in allv:
                self.sink(v, 'metadata', frame, node)
            return compose([recv] + allv, null=BOTH).but(meta=attr in ('ns', 'abs_ns', 'attach', 'current_ns') or recv.meta and attr == 'ns',
                                                          unk=recv.unk)
        if attr in CONTAINER_MUTATORS and recv is not None and not recv.refs:
            merged = compose([recv] + allv).but(setk=recv.setk, elem=recv.elem, null=recv.null, rng=recv.rng)
            if recv.setk and attr == 'add' and args:
                k = 'str' if args[0].isstr else ('int' if args[0].isint else 'unk')
                merged = merged.but(setk=k if recv.setk in ('unk', k) and not recv.elem else ('unk' if recv.setk != k else k))
            self.assign(func.value, merged, frame, weak=True)
            return NONE.but(null=BOTH)
        if recv is not None and recv.setk and attr == 'pop':
            self.check_set_iteration(recv, node, frame, 'set.pop() picks from')
        if attr == 'join' and args and recv is not None and recv.isstr:
            self.check_set_iteration(args[0], node, frame, 'str.join() consumes')
            return compose(allv, isstr=True)
        if attr in ('keys', 'values', 'items', 'copy') and recv is not None and not allv:
            return recv.but(refs=EMPTY, items=None, null=ONLY_V, elem=recv.elem if attr != 'values' else None)
        if attr in ('format', 'strip', 'lower', 'upper', 'replace', 'isoformat', 'strftime', 'total_seconds', 'timestamp',
                    'item', 'tolist', 'astype', 'reshape', 'squeeze', 'flatten', 'sum', 'mean', 'all', 'any'):
            return compose(([recv] if recv is not None else []) + allv, isstr=attr in ('format', 'strip', 'lower', 'upper', 'replace', 'isoformat', 'strftime'))
        for v in allv:
            self.escape(v, 'passed to unresolved callee %s' % text, frame, node)
            if v.taint:
                self.col.taint_passed.add(frame.where(node))
        if not partly:
            self.col.unresolved.add(text)
        base = ([recv] if recv is not None else [callee]) + allv
        out = compose(base, null=BOTH)
        if not out.taint:
            out = out.but(unk=out.unk or recv is None or bool(recv.unk) or not recv.refs and not (recv.isstr or recv.isint))
        return out

    # ------------------------------------------------------------------ repo functions
    def call_function(self, mod, cdef, fn, first, args, kwargs, stars, kwstars, frame, node, qual, selfobj=None, parent=None,
                      closure_key=None):
        where = frame.where(node) if frame is not None and node is not None else '<entry>'
        allv = args + list(kwargs.values()) + stars + kwstars
        if self.is_sink_module(mod.dotted):
            for v in allv:
                self.sink(v, 'profiler', frame, node)
            self.assume('%s.%s is a timing/logging sink: it records durations only (not expanded)' % (mod.dotted, qual))
            site = self.new_clock_site('%s.%s' % (mod.dotted, qual), frame, node)
            self.col.clock_sites[site]['sinks'].append('profiler')
            return AV(clock=frozenset([site]), null=BOTH)
        if not self.expandable(mod.dotted):
            self.assume('callees in %s assumed deterministic and seed-free (module outside the expanded closure)' % mod.dotted)
            for v in allv:
                self.escape(v, 'passed to %s.%s' % (mod.dotted, qual), frame, node)
            out = compose(allv + ([first] if first is not None else []), null=BOTH)
            return out.but(unk=not out.taint)
        # bind
        a = fn.args
        params = list(a.posonlyargs) + list(a.args)
        env, explicit = {}, {}
        pos = list(args)
        if first is not None and params:
            env[params[0].arg] = first
            params = params[1:]
        elif first is None and cdef is not None and params and params[0].arg in ('self', 'cls') and closure_key is None \
                and not any(ast.unparse(d) == 'staticmethod' for d in getattr(fn, 'decorator_list', [])):
            # unbound access we could not attach a receiver to
            env[params[0].arg] = unknown()
            params = params[1:]
        star_av = None
        for s in stars:
            star_av = join(star_av, self.element_of(s))
        kwstar_av = None
        for s in kwstars:
            kwstar_av = join(kwstar_av, s.but(refs=EMPTY, items=None))
        for i, p in enumerate(params):
            if i < len(pos):
                env[p.arg] = pos[i]
                explicit[p.arg] = pos[i]
        extra_pos = pos[len(params):]
        for k, v in kwargs.items():
            if any(p.arg == k for p in params + list(a.kwonlyargs)):
                env[k] = v
                explicit[k] = v
        ndef = len(a.defaults)
        defaults = {}
        for p, d in zip(params[len(params) - ndef:] if ndef else [], a.defaults):
            defaults[p.arg] = d
        if first is not None and ndef > len(params):
            pass
        for p, d in zip(a.kwonlyargs, a.kw_defaults):
            if d is not None:
                defaults[p.arg] = d
        dframe = Frame(mod, cdef, None, {}, qual=qual)
        for p in params + list(a.kwonlyargs):
            if p.arg in env:
                env[p.arg] = self.param_value(mod, p, base=env[p.arg])
                continue
            cands = []
            if star_av is not None and p in params:
                cands.append(star_av)
            if kwstar_av is not None:
                cands.append(kwstar_av)
            if p.arg in defaults:
                cands.append(self.eval(defaults[p.arg], dframe).but(dflt=True))
            if not cands:
                cands.append(self.param_value(mod, p, base=AV(null=BOTH, unk=frame is not None)))
            v = None
            for c in cands:
                v = join(v, c)
            env[p.arg] = self.param_value(mod, p, base=v)
        if a.vararg is not None:
            env[a.vararg.arg] = compose(extra_pos + stars) if (extra_pos or stars) else AV()
        if a.kwarg is not None:
            rest = [v for k, v in kwargs.items() if k not in explicit]
            env[a.kwarg.arg] = compose(rest + kwstars) if (rest or kwstars) else AV()
        callee_text = '%s:%s' % (mod.dotted, qual)
        if frame is not None:
            for k, v in explicit.items():
                self.forward_check(k, v, callee_text, frame, node)
            for k, v in kwargs.items():
                if k not in explicit:
                    self.forward_check(k, v, callee_text, frame, node)
        if not isinstance(fn, ast.Lambda) and is_stub(fn):
            self.assume('abstract/protocol method %s: the concrete callee is chosen at run time and assumed deterministic' % callee_text)
            out = compose(allv + ([first] if first is not None else []), null=BOTH)
            return out.but(unk=not out.taint)
        for d in getattr(fn, 'decorator_list', []):
            dt = ast.unparse(d)
            if dt not in ('classmethod', 'staticmethod', 'property', 'abc.abstractmethod', 'functools.cached_property', 'override'):
                self.assume('decorator @%s assumed to preserve determinism' % dt.split('(')[0])
        key = (mod.dotted, qual, id(fn), selfobj.key if selfobj is not None else None,
               tuple(sorted((k, v.sig()) for k, v in env.items())), id(parent))
        self.col.closure[callee_text] = (mod.dotted, qual)
        if key in self.memo:
            return self.memo[key]
        if key in self.active or self.depth >= self.max_depth:
            if self.depth >= self.max_depth:
                self.assume('analysis depth limit reached at %s: callee assumed deterministic' % callee_text)
            return BOTTOM
        self.active.add(key)
        self.depth += 1
        fr = Frame(mod, cdef, fn, env, parent=parent, selfobj=selfobj, qual=qual)
        try:
            if isinstance(fn, ast.Lambda):
                fr.returns.append(self.eval(fn.body, fr))
            else:
                self.exec_block(fn.body, fr)
                if fr.env is not None:
                    fr.returns.append(NONE)
        finally:
            self.depth -= 1
            self.active.discard(key)
        out = None
        for r in fr.returns:
            out = join(out, r)
        if out is None:
            out = NONE
        if not isinstance(fn, ast.Lambda) and fn.returns is not None:
            if out.elem is None:
                e = self.annot_elem(mod, fn.returns)
                if e:
                    out = out.but(elem=e)
            if not any(r[0] == 'obj' for r in out.refs) and out.unk:
                ci = self.annot_class(mod, fn.returns)
                if ci is not None and self.expandable(ci.mod.dotted):
                    out = out.but(refs=out.refs | frozenset([('obj', self.typed_obj(ci).key)]))
        self.memo[key] = out
        return out

    def set_attr(self, obj, name, val, weak_first=False):
        old = obj.attrs.get(name)
        new = val if old is None else join(old, val)
        if old is None or new.sig() != old.sig():
            obj.attrs[name] = new
            self.changed = True

    def construct(self, ci, args, kwargs, stars, kwstars, frame, node):
        allv = args + list(kwargs.values()) + stars + kwstars
        full = '%s.%s' % (ci.mod.dotted, ci.qualname)
        if not (self.expandable(ci.mod.dotted)):
            meta = ci.name in ('Metadata', 'Namespace') and 'pyvizier' in ci.mod.dotted
            if self.is_sink_module(ci.mod.dotted):
                return AV(null=ONLY_V)
            self.assume('constructor of %s assumed deterministic and seed-free (module outside the expanded closure)' % full)
            for v in allv:
                if meta:
                    self.sink(v, 'metadata', frame, node)
                else:
                    self.escape(v, 'passed to constructor %s' % full, frame, node)
            for k, v in kwargs.items():
                self.forward_check(k, v, full, frame, node)
            out = compose(allv)
            return out.but(meta=meta)
        key = ('ctor', frame.mod.dotted, frame.qual, getattr(node, 'lineno', 0), getattr(node, 'col_offset', 0), ci.mod.dotted, ci.qualname)
        if key not in self.objs:
            self.objs[key] = AObj(key, ci, 'ctor')
            self.changed = True
        obj = self.objs[key]
        selfv = AV(refs=frozenset([('obj', key)]))
        c, fn = self.find_method(ci, '__init__')
        dcl = self.is_dataclass_like(ci)
        if fn is not None and (not dcl or c is ci or not self.is_dataclass_like(c) and not any(
                self.is_dataclass_like(k) for k in self.mro(ci)[:self.mro(ci).index(c)])):
            self.call_function(c.mod, c, fn, selfv, args, kwargs, stars, kwstars, frame, node, qual=c.qualname + '.__init__', selfobj=obj)
        elif dcl:
            self.attrs_init(obj, ci, args, kwargs, stars, kwstars, frame, node)
        elif allv:
            self.assume('%s has no __init__ in the repository: constructor arguments ignored' % full)
        return selfv

    def attrs_init(self, obj, ci, args, kwargs, stars, kwstars, frame, node):
        """The attrs/dataclass-generated __init__: a default / factory is evaluated exactly when the argument is not supplied."""
        full = '%s.%s' % (ci.mod.dotted, ci.qualname)
        self.col.closure['%s:%s.__init__<generated>' % (ci.mod.dotted, ci.qualname)] = (ci.mod.dotted, ci.qualname + '.__init__<generated>')
        pos = list(args)
        star_av = None
        for s in stars:
            star_av = join(star_av, self.element_of(s))
        kwstar_av = None
        for s in kwstars:
            kwstar_av = join(kwstar_av, s.but(refs=EMPTY, items=None))
        used = set()
        for f in self.fields(ci):
            v, given = None, False
            if f['init']:
                if not f['kw_only'] and pos:
                    v, given = pos.pop(0), True
                elif f['init_name'] in kwargs:
                    v, given = kwargs[f['init_name']], True
                    used.add(f['init_name'])
                if given:
                    self.forward_check(f['init_name'], v, full, frame, node)
                    _, ann = self.class_annotation(ci, f['name'])
                    if ann is not None and not any(r[0] == 'obj' for r in v.refs):
                        tc = self.annot_class(f['owner'].mod, ann)
                        if tc is not None and self.expandable(tc.mod.dotted):
                            v = v.but(refs=v.refs | frozenset([('obj', self.typed_obj(tc).key)]))
            if not given:
                cands = []
                if f['init'] and star_av is not None and not f['kw_only']:
                    cands.append(star_av)
                if f['init'] and kwstar_av is not None:
                    cands.append(kwstar_av)
                dfr = Frame(f['owner'].mod, f['owner'], None, {}, qual=f['owner'].qualname + '.' + f['name'] + '<default>')
                if f['factory'] is not None:
                    fac = self.eval(f['factory'], dfr)
                    fr_refs = [r for r in fac.refs if r[0] in ('func', 'class', 'closure', 'lib', 'builtin', 'cbound', 'bound')]
                    if fr_refs:
                        out = None
                        for r in sorted(fr_refs, key=repr):
                            out = join(out, self.call_ref(r, None, [], {}, [], [], dfr, f['factory'], ast.unparse(f['factory'])[:60]))
                        cands.append(out)
                    else:
                        self.assume('default factory %s of %s.%s assumed deterministic' % (ast.unparse(f['factory'])[:60], full, f['name']))
                        cands.append(unknown())
                elif f['default'] is not None:
                    cands.append(self.eval(f['default'], dfr))
                elif not cands and f['init']:
                    cands.append(AV(null=BOTH, unk=True))
                for c in cands:
                    v = join(v, c)
            if v is not None:
                self.set_attr(obj, f['name'], v)
        for k, v in kwargs.items():
            if k not in used:
                self.forward_check(k, v, full, frame, node)
        selfv = AV(refs=frozenset([('obj', obj.key)]))
        for post in ('__attrs_post_init__', '__post_init__'):
            c, fn = self.find_method(ci, post)
            if fn is not None:
                self.call_function(c.mod, c, fn, selfv, [], {}, [], [], frame, node, qual=c.qualname + '.' + post, selfobj=obj)

    # ------------------------------------------------------------------ assignment
    def assign(self, target, val, frame, weak=False):
        if frame.env is None:
            return
        if isinstance(target, ast.Name):
            frame.env[target.id] = join(frame.env.get(target.id), val) if weak and target.id in frame.env else val
        elif isinstance(target, (ast.Tuple, ast.List)):
            n = len(target.elts)
            for i, t in enumerate(target.elts):
                if isinstance(t, ast.Starred):
                    self.assign(t.value, val.but(items=None, refs=EMPTY), frame, weak)
                elif val.items is not None and len(val.items) == n:
                    self.assign(t, val.items[i], frame, weak)
                else:
                    self.assign(t, self.element_of(val) if val.items is None else self.element_of(val), frame, weak)
        elif isinstance(target, ast.Attribute):
            d = dotted_of(target)
            if d:
                for k in [k for k in frame.env if k.startswith('@') and (k == '@' + '.'.join(d) or k.startswith('@' + '.'.join(d) + '.'))]:
                    del frame.env[k]
            base = self.eval(target.value, frame)
            objs = [r for r in base.refs if r[0] == 'obj']
            for r in objs:
                self.set_attr(self.objs[r[1]], target.attr, val)
            if not objs and isinstance(target.value, (ast.Name, ast.Attribute)):
                # attribute store on an untracked value: the holder now carries the flags
                self.assign(target.value, compose([base, val], null=base.null).but(refs=base.refs, rng=base.rng, meta=base.meta), frame, True)
        elif isinstance(target, ast.Subscript):
            base = self.eval(target.value, frame)
            idx = self.eval(target.slice, frame)
            if base.meta:
                self.sink(val, 'metadata', frame, target)
                self.sink(idx, 'metadata', frame, target)
                return
            merged = compose([base, val, idx], null=base.null).but(refs=base.refs, rng=base.rng, setk=base.setk, elem=base.elem)
            if isinstance(target.value, (ast.Name, ast.Attribute)):
                self.assign(target.value, merged, frame, True)
        elif isinstance(target, ast.Starred):
            self.assign(target.value, val, frame, weak)

    # ------------------------------------------------------------------ guards
    def refine(self, expr, env, av):
        if isinstance(expr, ast.Name):
            env[expr.id] = av
        elif isinstance(expr, ast.Attribute):
            d = dotted_of(expr)
            if d:
                env['@' + '.'.join(d)] = av
        elif isinstance(expr, ast.NamedExpr):
            self.refine(expr.target, env, av)

    def branch(self, test, frame, positive):
        """Environment in which `test` evaluates to `positive`, or None when that is impossible.  Only None-ness facts are
        used: `x is None`, `x is not None`, `x == None`, truthiness of x, not/and/or of those."""
        env = dict(frame.env)
        if isinstance(test, ast.UnaryOp) and isinstance(test.op, ast.Not):
            return self.branch(test.operand, frame, not positive)
        if isinstance(test, ast.BoolOp):
            conj = isinstance(test.op, ast.And)
            if conj == positive:
                saved = frame.env
                try:
                    for v in test.values:
                        e = self.branch(v, frame, positive)
                        if e is None:
                            return None
                        frame.env = e
                    return frame.env
                finally:
                    frame.env = saved
            # some operand decides: v1..v(i-1) are `not positive`-deciding, v_i decides
            saved = frame.env
            out = None
            try:
                cur = dict(saved)
                for v in test.values:
                    frame.env = cur
                    e = self.branch(v, frame, positive)
                    if e is not None:
                        out = e if out is None else self.join_env(out, e)
                    cur = self.branch(v, frame, not positive)
                    if cur is None:
                        break
            finally:
                frame.env = saved
            return out
        if isinstance(test, ast.Compare) and len(test.ops) == 1 and isinstance(test.ops[0], (ast.Is, ast.IsNot, ast.Eq, ast.NotEq)):
            l, r = test.left, test.comparators[0]
            other = None
            if isinstance(r, ast.Constant) and r.value is None:
                other = l
            elif isinstance(l, ast.Constant) and l.value is None:
                other = r
            if other is not None:
                want_none = isinstance(test.ops[0], (ast.Is, ast.Eq)) == positive
                xv = self.eval(other, frame)
                if xv.bottom or not xv.null:
                    return env
                if want_none:
                    if N not in xv.null:
                        return None
                    self.refine(other, env, xv.but(null=ONLY_N, refs=EMPTY, rng=False))
                else:
                    if xv.null == ONLY_N:
                        return None
                    self.refine(other, env, xv.but(null=ONLY_V))
                return env
        if isinstance(test, (ast.Name, ast.Attribute, ast.NamedExpr)):
            xv = self.eval(test if not isinstance(test, ast.NamedExpr) else test.target, frame)
            if xv.bottom or not xv.null:
                return env
            if positive:
                if xv.null == ONLY_N:
                    return None
                self.refine(test, env, xv.but(null=ONLY_V))
            return env          # falsy: None, 0, '', empty ... always possible for a non-None value
        if isinstance(test, ast.Constant):
            return env if bool(test.value) == positive else None
        return env

    def join_env(self, a, b):
        if a is None:
            return b
        if b is None:
            return a
        out = {}
        for k in set(a) | set(b):
            if k.startswith('@'):
                if k in a and k in b:
                    out[k] = join(a[k], b[k])
                continue
            out[k] = join(a.get(k), b.get(k))
        return out

    # ------------------------------------------------------------------ statements
    def exec_block(self, stmts, frame):
        for s in stmts:
            if frame.env is None:
                return
            m = getattr(self, 's_' + type(s).__name__, None)
            if m is None:
                for c in ast.iter_child_nodes(s):
                    if isinstance(c, ast.expr):
                        self.eval(c, frame)
                continue
            m(s, frame)
            if frame.env is not None and not isinstance(s, (ast.If, ast.For, ast.While, ast.With, ast.Try)):
                if any(k.startswith('@') for k in frame.env) and any(isinstance(c, ast.Call) for c in ast.walk(s)):
                    for k in [k for k in frame.env if k.startswith('@')]:
                        del frame.env[k]

    def s_Expr(self, s, frame):
        self.eval(s.value, frame)

    def s_Pass(self, s, frame):
        pass

    s_Global = s_Nonlocal = s_ClassDef = s_Pass

    def s_Import(self, s, frame):
        for a in s.names:
            frame.local_imports[a.asname or a.name.split('.')[0]] = a.name if a.asname else a.name.split('.')[0]

    def s_ImportFrom(self, s, frame):
        base = s.module or ''
        if s.level:
            pk = frame.mod.dotted.split('.')[:-s.level]
            base = '.'.join(pk + ([s.module] if s.module else []))
        for a in s.names:
            frame.local_imports[a.asname or a.name] = base + '.' + a.name

    def s_Assign(self, s, frame):
        v = self.eval(s.value, frame)
        for t in s.targets:
            self.assign(t, v, frame)

    def s_AnnAssign(self, s, frame):
        if s.value is not None:
            v = self.eval(s.value, frame)
            if v.elem is None:
                e = self.annot_elem(frame.mod, s.annotation)
                if e:
                    v = v.but(elem=e)
            self.assign(s.target, v, frame)

    def s_AugAssign(self, s, frame):
        cur = self.eval(s.target, frame)
        v = self.eval(s.value, frame)
        new = compose([cur, v], null=cur.null).but(refs=cur.refs, rng=cur.rng, elem=cur.elem, meta=cur.meta,
                                                  isint=cur.isint and v.isint, isstr=cur.isstr and v.isstr)
        if cur.setk or v.setk:
            ks = {cur.setk, v.setk} - {None}
            new = new.but(setk=ks.pop() if len(ks) == 1 else 'unk')
        self.assign(s.target, new, frame)

    def s_Delete(self, s, frame):
        for t in s.targets:
            if isinstance(t, ast.Name):
                frame.env.pop(t.id, None)

    def s_Return(self, s, frame):
        frame.returns.append(self.eval(s.value, frame) if s.value is not None else NONE)
        frame.env = None

    def s_Raise(self, s, frame):
        if s.exc is not None:
            self.eval(s.exc, frame)
        frame.env = None

    def s_Assert(self, s, frame):
        self.eval(s.test, frame)
        e = self.branch(s.test, frame, True)
        if e is not None:
            frame.env = e

    def s_Break(self, s, frame):
        frame.loop_exits.append(frame.env)
        frame.env = None

    def s_Continue(self, s, frame):
        frame.loop_exits.append(frame.env)
        frame.env = None

    def s_FunctionDef(self, s, frame):
        frame.env[s.name] = self.make_closure(s, frame, s.name)

    s_AsyncFunctionDef = s_FunctionDef

    def s_If(self, s, frame):
        tv = self.eval(s.test, frame)
        self.escape(tv, 'controls a branch', frame, s)
        pre = frame.env
        outs = []
        for positive, body in ((True, s.body), (False, s.orelse)):
            frame.env = pre
            env = self.branch(s.test, frame, positive)
            if env is None:
                self.scan_pruned(body, frame, ast.unparse(s.test) if positive else 'not (%s)' % ast.unparse(s.test))
                continue
            frame.env = env
            self.exec_block(body, frame)
            if frame.env is not None:
                outs.append(frame.env)
        res = None
        for e in outs:
            res = self.join_env(res, e)
        frame.env = res

    def loop(self, s, frame, bind):
        pre = frame.env
        saved_exits, frame.loop_exits = frame.loop_exits, []
        acc = dict(pre)
        for _ in range(2):
            frame.env = dict(acc)
            bind()
            if frame.env is not None:
                self.exec_block(s.body, frame)
            if frame.env is not None:
                acc = self.join_env(acc, frame.env)
            for e in frame.loop_exits:
                acc = self.join_env(acc, e)
            frame.loop_exits = []
        frame.env = acc
        frame.loop_exits = saved_exits
        if s.orelse:
            self.exec_block(s.orelse, frame)

    def s_For(self, s, frame):
        it = self.eval(s.iter, frame)
        self.check_set_iteration(it, s.iter, frame, 'for-loop iterates over')
        self.loop(s, frame, lambda: self.assign(s.target, self.element_of(it), frame))

    s_AsyncFor = s_For

    def s_While(self, s, frame):
        def bind():
            tv = self.eval(s.test, frame)
            self.escape(tv, 'controls a loop', frame, s)
            e = self.branch(s.test, frame, True)
            frame.env = e
        self.loop(s, frame, bind)

    def s_With(self, s, frame):
        for item in s.items:
            v = self.eval(item.context_expr, frame)
            if item.optional_vars is not None:
                self.assign(item.optional_vars, v, frame)
        self.exec_block(s.body, frame)

    s_AsyncWith = s_With

    def s_Try(self, s, frame):
        pre = frame.env
        self.exec_block(s.body, frame)
        after_body = frame.env
        ends = []
        if after_body is not None:
            frame.env = after_body
            self.exec_block(s.orelse, frame)
            if frame.env is not None:
                ends.append(frame.env)
        mid = self.join_env(dict(pre), after_body)
        for h in s.handlers:
            frame.env = dict(mid)
            if h.name:
                frame.env[h.name] = AV(unk=True)
            self.exec_block(h.body, frame)
            if frame.env is not None:
                ends.append(frame.env)
        res = None
        for e in ends:
            res = self.join_env(res, e)
        frame.env = res
        if s.finalbody:
            if frame.env is None:
                frame.env = dict(mid)
                self.exec_block(s.finalbody, frame)
                frame.env = None
            else:
                self.exec_block(s.finalbody, frame)

    s_TryStar = s_Try

    def s_Match(self, s, frame):
        self.eval(s.subject, frame)
        pre = frame.env
        res = None
        for c in s.cases:
            frame.env = dict(pre)
            self.exec_block(c.body, frame)
            res = self.join_env(res, frame.env)
        frame.env = self.join_env(res, pre)

    # ------------------------------------------------------------------ entry points (driver API)
    def begin_round(self):
        keep = self.col.assumptions
        self.col.reset()
        self.col.assumptions = set()
        self.memo, self.active, self.changed, self.depth = {}, set(), False, 0
        self.modval_memo = {}
        return keep

    def seed_value(self, name):
        return AV(taint=True, null=ONLY_V, rng=bool(re.search(r'rng|key', name)))

    def _entry_args(self, mod, fn, seed_params, skip_first):
        """Seed parameters: tainted and not None.  Every other parameter: an arbitrary input (joined with its default)."""
        a = fn.args
        params = list(a.posonlyargs) + list(a.args)
        if skip_first and params:
            params = params[1:]
        ndef = len(a.defaults)
        defaults = dict(zip([p.arg for p in (list(a.posonlyargs) + list(a.args))[len(a.posonlyargs) + len(a.args) - ndef:]] if ndef else [], a.defaults))
        for p, d in zip(a.kwonlyargs, a.kw_defaults):
            if d is not None:
                defaults[p.arg] = d
        kwargs, found = {}, []
        dfr = Frame(mod, None, None, {}, qual='<entry default>')
        for p in params + list(a.kwonlyargs):
            if p.arg in seed_params or (self.entry_seed_regex and SEEDLIKE.search(p.arg)):
                kwargs[p.arg] = self.seed_value(p.arg)
                found.append(p.arg)
            else:
                v = AV(null=BOTH)
                if p.arg in defaults:
                    v = join(v, self.eval(defaults[p.arg], dfr))
                kwargs[p.arg] = v
        kwstars = []
        if a.kwarg is not None and a.kwarg.arg in seed_params:
            kwstars.append(self.seed_value(a.kwarg.arg))
            found.append(a.kwarg.arg)
        return kwargs, kwstars, found

    def entry_function(self, dotted, qual, seed_params, first=None, selfobj=None):
        """Analyse module function / method `qual` as a seeded entry.  -> (result AV, seed params found)."""
        mod = ModuleInfo.get(dotted)
        cdef, fn = mod.find(qual)
        decos = [ast.unparse(d) for d in fn.decorator_list]
        if cdef is not None and first is None and 'classmethod' in decos:
            first = AV(refs=frozenset([('class', dotted, cdef.qualname)]))
        skip = cdef is not None and 'staticmethod' not in decos
        kwargs, kwstars, found = self._entry_args(mod, fn, seed_params, skip)
        efr = Frame(mod, cdef, None, {}, qual='<entry %s>' % qual)
        node = ast.copy_location(ast.Pass(), fn)
        node.col_offset = 0
        out = self.call_function(mod, cdef, fn, first, [], kwargs, [], kwstars, efr, node, qual=qual, selfobj=selfobj)
        return out, found

    def entry_construct(self, dotted, clsqual, seed_params):
        """Construct an instance of the class with its seed parameter(s) given.  -> (object AV, seed params found)."""
        mod = ModuleInfo.get(dotted)
        ci = mod.find_class(clsqual)
        c, fn = self.find_method(ci, '__init__')
        dcl = self.is_dataclass_like(ci)
        efr = Frame(mod, ci, None, {}, qual='<entry %s>' % clsqual)
        node = ast.copy_location(ast.Pass(), ci.node)
        node.col_offset = 0
        if fn is not None and (not dcl or c is ci):
            kwargs, kwstars, found = self._entry_args(c.mod, fn, seed_params, True)
            out = self.construct(ci, [], kwargs, [], kwstars, efr, node)
        else:
            kwargs, found = {}, []
            for f in self.fields(ci):
                if f['init'] and (f['init_name'] in seed_params or f['name'] in seed_params or
                                  (self.entry_seed_regex and SEEDLIKE.search(f['init_name']))):
                    kwargs[f['init_name']] = self.seed_value(f['init_name'])
                    found.append(f['init_name'])
                elif f['init'] and not f['has_default']:
                    kwargs[f['init_name']] = AV(null=BOTH)
            out = self.construct(ci, [], kwargs, [], [], efr, node)
        return out, found

    def entry_method(self, objv, name, seed_params=()):
        """Call obj.<name>(arbitrary inputs; seed_params tainted) on an object built by entry_construct.
        -> (AV or None if no such method, seed params found)."""
        out, found = None, []
        for r in objv.refs:
            if r[0] != 'obj':
                continue
            obj = self.objs[r[1]]
            c, fn = self.find_method(obj.cls, name)
            if fn is None:
                continue
            kwargs, kwstars, found = self._entry_args(c.mod, fn, seed_params, True)
            efr = Frame(c.mod, c, None, {}, qual='<entry %s.%s>' % (obj.cls.qualname, name))
            node = ast.copy_location(ast.Pass(), fn)
            node.col_offset = 0
            v = self.call_function(c.mod, c, fn, AV(refs=frozenset([r])), [], kwargs, [], kwstars, efr, node,
                                   qual=c.qualname + '.' + name, selfobj=obj)
            out = join(out, v)
        return out, found

    # ------------------------------------------------------------------ results
    def summary(self):
        col = self.col
        ambient, excluded = [], []
        candidates = []
        for site, h in sorted(col.hits.items()):
            (candidates if h['kind'] == 'hash_maybe_salted' else ambient).append(
                {'site': site, 'kind': h['kind'], 'what': h['what'], 'where': h['where']})
        for site, c in sorted(col.clock_sites.items()):
            if c['escapes']:
                ambient.append({'site': site, 'kind': 'wall_clock', 'what': '%s read and its value %s' % (c['what'], '; '.join(c['escapes'][:4])),
                                'where': c['where']})
            else:
                excluded.append('%s at %s excluded by sink: value reaches only %s' % (c['what'], c['where'], ', '.join(sorted(set(c['sinks']))) or 'nothing (discarded)'))
        excluded += [v for _, v in sorted(col.pruned.items())]
        return {
            'closure': sorted(col.closure), 'ambient': ambient, 'candidates': candidates, 'excluded': excluded,
            'rng_ctors': [v for _, v in sorted(col.rng_ctors.items())],
            'rng_uses': sorted(col.rng_uses),
            'forwards': [v for _, v in sorted(col.forwards.items())],
            'taint_passed': sorted(col.taint_passed),
            'assumptions': sorted(col.assumptions), 'unresolved': sorted(col.unresolved),
        }


def run_to_fixpoint(engine, body, max_rounds=8):
    """body(engine) performs the entry calls; repeated until the abstract object states are stable.
    Only the last round's records are kept.  -> (converged, rounds)"""
    for i in range(max_rounds):
        engine.begin_round()
        body(engine)
        if not engine.changed:
            return True, i + 1
    return False, max_rounds
