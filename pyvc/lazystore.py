"""pyvc.lazystore -- a python dict whose initial contents are *given by a specification* and materialised on demand.

Used by C07 (DESIGN.md 5 "C07", 2.4b rule 2): the nested dicts of `NestedDictRAMDataStore._owners` start as the image
of an abstract datastore view D0 under the representation relation Rep.  A `LazyDict` is

    entries : the keys the path has touched so far (pairwise distinct under the path condition: every lookup forks on
              equality with each materialised key, exactly like `models.PyDict`), each with a presence flag, a python-side
              value (identity matters: aliasing is decided by python object identity) and an insertion stamp `ord`;
    bg      : the *background* for every key not materialised yet: `has(k)`, `make(it, k)`, `ord(k)`, `vterm(k)` as
              z3 terms over the initial view (None = the dict contains nothing else: a dict created by the code itself).

CPython dict semantics modelled here (trusted, stated once): lookup/`in`/`del` by key equality; `d[k] = v` on an existing
key keeps its position, on a new key appends (stamp := the store's tick counter, which is larger than every stamp so far);
`del` + re-insert moves the key to the end; `len(d)` = number of present keys (needs the cardinality ghost `bg.count`);
`list(d.values()/keys())` lists the present keys in stamp order -- for a dict with a background this is a *definitional*
array-list (fresh `n, arr, keyat, pos` with: every listed key is present and listed once, every present key is listed,
stamps strictly increase along the list).  The elements of such a list ARE the stored objects: the list carries the
marker `alias_of` which survives `list(...)`, and a comprehension whose element expression returns (part of) the element,
and is dropped by `copy.deepcopy` -- this is how C07 decides pass-by-value of list results.

Every operation on a LazyDict is recorded in `StoreCtx.ops` together with the locks held (C07 `lock` obligation).
"""
import ast

import z3

from . import engine as E
from . import models as M
from . import protomodel as pm
from .engine import Unsupported, PyRaise, Builtin, Obj
from .protomodel import Msg, SymList, Str, MsgSchema


class StoreCtx:
    """Shared by all dicts of one store: the insertion tick, the lock that must be held, the operation log."""

    def __init__(self, tick, lock_name='_lock'):
        self.tick0 = tick
        self.tick = tick
        self.lock_name = lock_name
        self.ops = []            # (op, dict name, lock held?)
        self.alias_objs = []     # python objects handed out by `AliasSymList.get`: they denote stored objects
        self.lists = []          # definitional lists created (diagnostics)

    def record(self, it, op, d):
        held = any(l[0] == self.lock_name for l in it.run.locks)
        self.ops.append((op, d.name, held))


class Background:
    """Initial contents of a LazyDict as functions of the (z3) key."""

    def __init__(self, has, make, ord=None, vterm=None, count=None, lookup=None, touch=None):
        self.has, self.make, self.ord, self.vterm, self.count = has, make, ord, vterm, count
        self.lookup = lookup or {}      # deep lookups used by the abstraction function: kind -> fn(*subkeys) -> term
        self.touch = touch              # touch(it, k): instantiate the invariants of the initial view at key k


class Kind:
    """What the values of a dict are: `elem` (MsgSchema of a listed element), `leaf_term(value)` -> z3 term of a present
    value, `wrap(term)` -> python object denoting the stored value with that term (for list elements)."""

    def __init__(self, elem=None, leaf_term=None, wrap=None, ordered=True):
        self.elem, self.leaf_term, self.wrap, self.ordered = elem, leaf_term, wrap, ordered


class Entry:
    __slots__ = ('key', 'present', 'value', 'ord', 'origin')

    def __init__(self, key, present, value, ord, origin):
        self.key, self.present, self.value, self.ord, self.origin = key, present, value, ord, origin


class Poison:
    """Placeholder for a part of a listed node that the list does not describe: any use is Unsupported."""

    def __init__(self, what):
        self.what = what

    def __repr__(self):
        return '<not modelled: %s>' % self.what


def key_term(k):
    try:
        return E.to_z3(k)
    except Unsupported:
        return None


class LazyDict:
    def __init__(self, name, ksort, ctx, kind, bg=None):
        self.name, self.ksort, self.ctx, self.kind, self.bg = name, ksort, ctx, kind, bg
        self.entries = []
        self.delta = 0           # (#keys added) - (#keys removed) since the start, for len()

    def __repr__(self):
        return '<lazydict %s>' % self.name

    # ------------------------------------------------------------ materialisation
    def entry(self, it, k, op='lookup'):
        """The entry of key k (materialised on demand); None if k can never be a key of this dict (wrong type)."""
        self.ctx.record(it, op, self)
        kt = key_term(k)
        if kt is None or kt.sort() != self.ksort:
            return None
        for e in self.entries:
            c = z3.simplify(kt == e.key)
            if z3.is_true(c):
                return e
            if z3.is_false(c):
                continue
            if it.truth(c):
                return e
        if self.bg is None:
            e = Entry(kt, False, None, None, 'new')
        else:
            if self.bg.touch is not None:
                self.bg.touch(it, kt)
            has = self.bg.has(kt)
            if it.truth(has):
                e = Entry(kt, True, self.bg.make(it, kt), self.bg.ord(kt) if self.bg.ord else None, 'bg')
            else:
                e = Entry(kt, False, None, None, 'bg')
        self.entries.append(e)
        return e

    def get(self, it, k, default=M.MISSING):
        e = self.entry(it, k)
        if e is None or not e.present:
            if default is M.MISSING:
                raise PyRaise(it.make_exc('KeyError', [k]))
            return default
        return e.value

    def has(self, it, k):
        e = self.entry(it, k, 'contains')
        return e is not None and e.present

    def set(self, it, k, v):
        e = self.entry(it, k, 'store')
        if e is None:
            raise Unsupported('store into %r under a key of another type: %r' % (self, k))
        if e.present:
            e.value = v
            return
        e.present, e.value = True, v
        if self.kind.ordered:
            e.ord = self.ctx.tick
            self.ctx.tick = self.ctx.tick + 1
        else:
            e.ord = None
        self.entries.remove(e)
        self.entries.append(e)
        self.delta += 1

    def delete(self, it, k):
        e = self.entry(it, k, 'delete')
        if e is None or not e.present:
            raise PyRaise(it.make_exc('KeyError', [k]))
        e.present, e.value, e.ord = False, None, None
        self.delta -= 1

    def pop(self, it, k, default=M.MISSING):
        e = self.entry(it, k, 'delete')
        if e is None or not e.present:
            if default is M.MISSING:
                raise PyRaise(it.make_exc('KeyError', [k]))
            return default
        v = e.value
        e.present, e.value, e.ord = False, None, None
        self.delta -= 1
        return v

    def clear(self, it):
        self.ctx.record(it, 'clear', self)
        self.entries, self.bg, self.delta = [], None, 0
        self.cleared = True

    def length(self, it):
        self.ctx.record(it, 'len', self)
        if self.bg is None and not getattr(self, 'cleared', False):
            return sum(1 for e in self.entries if e.present)
        if getattr(self, 'cleared', False):
            return sum(1 for e in self.entries if e.present)
        if self.bg.count is None:
            raise Unsupported('len() of %r: no cardinality ghost for this dict' % (self,))
        return self.bg.count + self.delta

    # ------------------------------------------------------------ abstraction (z3 functions of a generic key)
    def chain(self, k, on_entry, on_bg, absent):
        """if k is a materialised key: on_entry(entry) / absent; else on_bg(k) (absent if there is no background)."""
        r = on_bg(k) if self.bg is not None else absent
        for e in self.entries:
            r = z3.If(k == e.key, on_entry(e) if e.present else absent, r)
        return r

    def has_term(self, k):
        return self.chain(k, lambda e: z3.BoolVal(True), lambda k_: self.bg.has(k_), z3.BoolVal(False))

    def ord_term(self, k):
        return self.chain(k, lambda e: e.ord if e.ord is not None else z3.IntVal(-1),
                          lambda k_: self.bg.ord(k_) if self.bg.ord else z3.IntVal(-1), z3.IntVal(-1))

    def val_term(self, k):
        dflt = pm._default_term(pm.msg_sort(self.kind.elem))
        return self.chain(k, lambda e: self.kind.leaf_term(e.value), lambda k_: self.bg.vterm(k_), dflt)

    # ------------------------------------------------------------ iteration
    def listing(self, it, what):
        """list(d.values()) / list(d.keys()) as a python list (exact dict) or a definitional array-list."""
        self.ctx.record(it, 'iterate', self)
        if what not in ('values', 'keys'):
            raise Unsupported('%s() of %r' % (what, self))
        if self.bg is None:
            es = [e for e in self.entries if e.present]
            return [e.value if what == 'values' else e.key for e in es]
        if not self.kind.ordered or self.bg.ord is None:
            raise Unsupported('iteration over %r: its order is not modelled' % (self,))
        run = it.run
        ks = self.ksort
        n = run.fresh(self.name + '_n', z3.IntSort())
        keyat = run.fresh(self.name + '_keyat', z3.ArraySort(z3.IntSort(), ks))
        pos = run.fresh(self.name + '_pos', z3.ArraySort(ks, z3.IntSort()))
        run.assume(n >= 0)
        i, j = z3.Int('i!lz'), z3.Int('j!lz')
        k = z3.Const('k!lz', ks)
        if what == 'values':
            if self.kind.elem is None or self.bg.vterm is None:
                raise Unsupported('values() of %r: element sort unknown' % (self,))
            arr = run.fresh(self.name + '_vals', z3.ArraySort(z3.IntSort(), pm.msg_sort(self.kind.elem)))
            elem = self.kind.elem
            at = lambda ix: self.val_term(keyat[ix])
        else:
            arr = keyat
            elem = 'str' if ks == Str else 'int'
            at = lambda ix: keyat[ix]
        run.axiom(z3.ForAll([i], z3.Implies(z3.And(i >= 0, i < n),
                                            z3.And(self.has_term(keyat[i]), arr[i] == at(i), pos[keyat[i]] == i))))
        run.axiom(z3.ForAll([k], z3.Implies(self.has_term(k), z3.And(pos[k] >= 0, pos[k] < n, keyat[pos[k]] == k))))
        run.axiom(z3.ForAll([i, j], z3.Implies(z3.And(i >= 0, i < j, j < n), self.ord_term(keyat[i]) < self.ord_term(keyat[j]))))
        if self.bg.count is not None:
            run.assume(n == self.bg.count + self.delta)
        r = AliasSymList(n, arr, elem, self, what, keyat, pos)
        r.it = it
        self.ctx.lists.append(r)
        return r


class AliasSymList(SymList):
    """list(d.values()) of a LazyDict: element i IS the stored object of key keyat[i]."""

    def __init__(self, n, arr, elem, d, what, keyat, pos):
        SymList.__init__(self, n, arr, elem)
        self.alias_of = d if what == 'values' else None
        self.lazy, self.what, self.keyat, self.pos = d, what, keyat, pos

    def instance(self, run, ix):
        """ground instance of 'every listed key is present, listed at its position' at index ix (for the path solver)."""
        d = self.lazy
        k = self.keyat[ix]
        run.assume(z3.Implies(z3.And(ix >= 0, ix < self.n), z3.And(d.has_term(k), self.pos[k] == ix)))
        if d.bg is not None and d.bg.touch is not None and getattr(self, 'it', None) is not None:
            d.bg.touch(self.it, k)

    def wrap(self, term):
        if self.what == 'values' and self.lazy.kind.wrap is not None:
            v = self.lazy.kind.wrap(term)
            self.lazy.ctx.alias_objs.append(v)
            return v
        return SymList.wrap(self, term)


# ------------------------------------------------------------------------------------------ object graphs (identity)
def reach(roots):
    """ids -> objects reachable from the python-side values `roots` (messages, sub-messages, containers, nodes)."""
    seen = {}
    todo = list(roots)
    while todo:
        v = todo.pop()
        if v is None or isinstance(v, (bool, int, float, str, bytes)) or z3.is_expr(v):
            continue
        if id(v) in seen:
            continue
        if isinstance(v, Msg):
            seen[id(v)] = v
            todo.extend(v.f.values())
        elif isinstance(v, SymList):
            seen[id(v)] = v
        elif isinstance(v, LazyDict):
            seen[id(v)] = v
            todo.extend(e.value for e in v.entries if e.present)
        elif isinstance(v, M.PyDict):
            seen[id(v)] = v
            for k, x in v.items_:
                todo.append(k)
                todo.append(x)
        elif isinstance(v, M.PySet):
            seen[id(v)] = v
            todo.extend(v.elems)
        elif isinstance(v, (list, tuple)):
            if isinstance(v, list):
                seen[id(v)] = v
            todo.extend(v)
        elif isinstance(v, M.DictView):
            todo.extend(v.items)
        elif isinstance(v, Obj):
            seen[id(v)] = v
            todo.extend(v.attrs.values())
    return seen


def shared(a_roots, b_roots):
    """objects reachable from both (by identity)."""
    ra, rb = reach(a_roots), reach(b_roots)
    return [ra[i] for i in ra if i in rb]


# ------------------------------------------------------------------------------------------ hooks into pyvc.models
def _chain(name, fn):
    prev = getattr(M, name)

    def hook(*a):
        r = fn(*a)
        if r is not M.MISSING:
            return r
        return prev(*a)
    setattr(M, name, hook)


def _subscript(it, base, idx):
    if isinstance(base, LazyDict):
        return base.get(it, idx)
    if isinstance(base, Poison):
        raise Unsupported('use of %r' % (base,))
    return M.MISSING


def _setitem(it, base, idx, v):
    if isinstance(base, LazyDict):
        base.set(it, idx, v)
        return True
    return M.MISSING


def _delitem(it, base, idx):
    if isinstance(base, LazyDict):
        base.delete(it, idx)
        return True
    return M.MISSING


def _contains(it, container, x):
    if isinstance(container, LazyDict):
        return container.has(it, x)
    return M.MISSING


def _view(d, what):
    def fn(it, args, kw):
        r = d.listing(it, what)
        return M.DictView(r) if isinstance(r, list) else r
    return Builtin(what, fn)


def _getattr(it, v, a):
    if isinstance(v, LazyDict):
        if a in ('values', 'keys'):
            return _view(v, a)
        if a == 'items':
            def items(it_, args, kw):
                if v.bg is not None:
                    raise Unsupported('items() of %r' % (v,))
                v.ctx.record(it_, 'iterate', v)
                return M.DictView([(e.key, e.value) for e in v.entries if e.present])
            return Builtin('items', items)
        if a == 'get':
            return Builtin('get', lambda it_, args, kw: v.get(it_, args[0], args[1] if len(args) > 1 else kw.get('default')))
        if a == 'pop':
            return Builtin('pop', lambda it_, args, kw: v.pop(it_, args[0], args[1] if len(args) > 1 else M.MISSING))
        if a == 'clear':
            return Builtin('clear', lambda it_, args, kw: v.clear(it_))
        if a == 'setdefault':
            def setdefault(it_, args, kw):
                e = v.entry(it_, args[0], 'store')
                if e is not None and e.present:
                    return e.value
                v.set(it_, args[0], args[1] if len(args) > 1 else None)
                return args[1] if len(args) > 1 else None
            return Builtin('setdefault', setdefault)
        if a == 'update':
            def update(it_, args, kw):
                if args:
                    src = args[0]
                    if isinstance(src, M.PyDict):
                        pairs = src.items()
                    elif isinstance(src, LazyDict) and src.bg is None:
                        pairs = [(e.key, e.value) for e in src.entries if e.present]
                    else:
                        pairs = [tuple(M.iterate(it_, kv)) for kv in M.iterate(it_, src)]
                    for k, x in pairs:
                        v.set(it_, k, x)
                for k, x in kw.items():
                    v.set(it_, k, x)
            return Builtin('update', update)
        raise Unsupported('dict method %s on %r' % (a, v))
    if isinstance(v, Poison):
        raise Unsupported('use of %r' % (v,))
    return M.MISSING


def _len(it, v):
    if isinstance(v, LazyDict):
        return v.length(it)
    return M.MISSING


def _iterate(it, v):
    if isinstance(v, LazyDict):
        r = v.listing(it, 'keys')
        if isinstance(r, list):
            return r
        raise Unsupported('iteration over the keys of %r in a context that needs a concrete sequence' % (v,))
    return M.MISSING


def _deepcopy(it, v, memo):
    if isinstance(v, LazyDict):
        raise Unsupported('deepcopy of %r (a whole lazily represented dict)' % (v,))
    return M.MISSING


_chain('subscript_hook', _subscript)
_chain('setitem_hook', _setitem)
_chain('delitem_hook', _delitem)
_chain('contains_hook', _contains)
_chain('value_getattr_hook', _getattr)
_chain('len_hook', _len)
_chain('iterate_hook', _iterate)
_chain('deepcopy_hook', _deepcopy)

_prev_truth = M.truth_hook


def _truth(it, v):
    if isinstance(v, LazyDict):
        n = v.length(it)
        return n > 0
    return _prev_truth(it, v)


M.truth_hook = _truth


# -- list(x): a shallow copy keeps the elements (alias marker survives); comprehension: decided by object identity
_orig_list = M.BUILTINS['list'].fn


def keys_of(it, v):
    """iterating a dict = iterating its keys: LazyDict -> python list (exact dict) or the definitional key listing."""
    return v.listing(it, 'keys') if isinstance(v, LazyDict) else v


def _b_list(it, args, kw):
    if args and isinstance(args[0], LazyDict):
        r = args[0].listing(it, 'keys')
        return list(r) if isinstance(r, list) else r
    if args and isinstance(args[0], SymList) and getattr(args[0], 'alias_of', None) is not None:
        v = args[0]
        if isinstance(v, AliasSymList):
            return AliasSymList(v.n, v.arr, v.elem, v.lazy, v.what, v.keyat, v.pos)
        r = SymList(v.n, v.arr, v.elem)
        r.alias_of = v.alias_of
        return r
    return _orig_list(it, args, kw)


M.BUILTINS['list'] = Builtin('list', _b_list)

_orig_sfm = M.symbolic_filter_map


def _sfm(it, fr, e, xs):
    r = _orig_sfm(it, fr, e, xs)
    # Skolemised form of the engine's "every passing element is kept" axiom (an inverse of the index map `src`), so that
    # a proof can name the position of a kept element: for all i passing the filter, src[isrc[i]] = i.
    run = it.run
    isrc = run.fresh('cisrc', z3.ArraySort(z3.IntSort(), z3.IntSort()))
    i = z3.Int('i!isrc')
    run.axiom(z3.ForAll([i], z3.Implies(z3.And(i >= 0, i < xs.n, r.cond_at(i)),
                                        z3.And(isrc[i] >= 0, isrc[i] < r.n, r.src[isrc[i]] == i)), patterns=[isrc[i]]))
    if not hasattr(run, 'sfm_inverse'):
        run.sfm_inverse = {}
    run.sfm_inverse[r.src.get_id()] = isrc
    d = getattr(xs, 'alias_of', None)
    if d is not None:
        # is the element expression (part of) the stored element?  evaluate it on a probe element and compare identities
        gen = e.generators[0]
        fr2 = E.Frame(fr.mod, {}, parent=fr)
        probe = xs.get(it.run.fresh('probe', z3.IntSort()))
        it.pure += 1
        try:
            it.assign(fr2, gen.target, probe)
            v = it.eval(fr2, e.elt)
        finally:
            it.pure -= 1
        if shared([v], [probe]):
            r.alias_of = d
    return r


M.symbolic_filter_map = _sfm

# -- max()/min()/sorted() of an array-list of ints or strings, or of a lazy dict (= of its keys): definitional.
#    Strings compare by code points: `models.str_lt` is an uninterpreted strict TOTAL order (irreflexive, transitive, total) --
#    in particular it is NOT the numeric order of decimal strings ('10' < '9'), and nothing relates it to int().
_orig_max, _orig_min = M.BUILTINS['max'].fn, M.BUILTINS['min'].fn


def str_order_axioms(run):
    if getattr(run, 'str_order_stated', False):
        return
    run.str_order_stated = True
    a, b, c = z3.Const('a!so', Str), z3.Const('b!so', Str), z3.Const('c!so', Str)
    lt = M.str_lt
    run.axiom(z3.ForAll([a], z3.Not(lt(a, a))))
    run.axiom(z3.ForAll([a, b, c], z3.Implies(z3.And(lt(a, b), lt(b, c)), lt(a, c))))
    run.axiom(z3.ForAll([a, b], z3.Or(lt(a, b), a == b, lt(b, a))))


def order_of(it, xs):
    """(le, lt) on the elements of an array-list of ints / strings, or None."""
    if xs.elem == 'int':
        return (lambda a, b: a <= b), (lambda a, b: a < b)
    if xs.elem == 'str':
        str_order_axioms(it.run)
        return (lambda a, b: z3.Not(M.str_lt(b, a))), (lambda a, b: M.str_lt(a, b))
    return None


def _extreme(it, args, kw, name, orig, is_max):
    if len(args) == 1 and isinstance(args[0], LazyDict):
        args = [keys_of(it, args[0])]
    if len(args) == 1 and isinstance(args[0], SymList) and M.try_iterate(it, args[0]) is None and 'key' not in kw:
        xs = args[0]
        order = order_of(it, xs)
        if order is None:
            raise Unsupported('%s() over an array-list of %s' % (name, xs.elem))
        le = order[0]
        run = it.run
        if not it.truth(xs.n > 0):
            if 'default' in kw:
                return kw['default']
            raise PyRaise(it.make_exc('ValueError', ['%s() arg is an empty sequence' % name]))
        m = run.fresh(name, xs.elem_sort())
        j = run.fresh(name + '_at', z3.IntSort())
        run.assume(z3.And(j >= 0, j < xs.n, xs.arr[j] == m))
        if isinstance(xs, AliasSymList):
            xs.instance(run, j)
        i = z3.Int('i!mx')
        run.axiom(z3.ForAll([i], z3.Implies(z3.And(i >= 0, i < xs.n), le(xs.arr[i], m) if is_max else le(m, xs.arr[i]))))
        return m
    return orig(it, args, kw)


M.BUILTINS['max'] = Builtin('max', lambda it, args, kw: _extreme(it, args, kw, 'max', _orig_max, True))
M.BUILTINS['min'] = Builtin('min', lambda it, args, kw: _extreme(it, args, kw, 'min', _orig_min, False))

_orig_sorted = M.BUILTINS['sorted'].fn


def _b_sorted(it, args, kw):
    """sorted(xs): a permutation of xs (bijection `perm` on positions), ascending in the order of the element type."""
    if args and isinstance(args[0], LazyDict):
        args = [keys_of(it, args[0])] + list(args[1:])
    if args and isinstance(args[0], SymList) and M.try_iterate(it, args[0]) is None:
        xs = args[0]
        if kw.get('key') is not None or kw.get('reverse', False) is not False:
            raise Unsupported('sorted(key=/reverse=) over a symbolic list')
        order = order_of(it, xs)
        if order is None:
            raise Unsupported('sorted() over an array-list of %s' % (xs.elem,))
        run = it.run
        arr = run.fresh('sorted_a', xs.arr.sort())
        perm = run.fresh('sorted_perm', z3.ArraySort(z3.IntSort(), z3.IntSort()))
        inv = run.fresh('sorted_inv', z3.ArraySort(z3.IntSort(), z3.IntSort()))
        i, j = z3.Int('i!srt'), z3.Int('j!srt')
        inr = lambda x: z3.And(x >= 0, x < xs.n)
        run.axiom(z3.ForAll([i], z3.Implies(inr(i), z3.And(inr(perm[i]), inv[perm[i]] == i, arr[perm[i]] == xs.arr[i]))))
        run.axiom(z3.ForAll([j], z3.Implies(inr(j), z3.And(inr(inv[j]), perm[inv[j]] == j, arr[j] == xs.arr[inv[j]]))))
        run.axiom(z3.ForAll([i, j], z3.Implies(z3.And(i >= 0, i < j, j < xs.n), order[0](arr[i], arr[j]))))
        r = SymList(xs.n, arr, xs.elem)
        r.sorted_from = (xs, perm, inv)
        return r
    return _orig_sorted(it, args, kw)


M.BUILTINS['sorted'] = Builtin('sorted', _b_sorted)


# -- `for k in d:` and `[... for k in d]`: the iterable is replaced by the key listing (an array-list), so that the engine's
#    rules for array-lists apply (definitional comprehension; a `for` statement over a symbolic dict needs a loop contract
#    LOOPS[(module, function, ordinal)] like any loop over a symbolic collection).
_REWRITTEN = {}


def _with_listed_iter(self, fr, node, get_iter, set_iter):
    """node with its (first) iterable replaced by a name bound to the key listing, if that iterable is a LazyDict."""
    v = self.eval(fr, get_iter(node))
    if isinstance(v, LazyDict):
        v = v.listing(self, 'keys')
    key = id(node)
    if key not in _REWRITTEN:
        import copy as _copy
        n2 = _copy.copy(node)
        set_iter(n2, ast.Name(id='__listed_iter_%d' % len(_REWRITTEN), ctx=ast.Load()))
        _REWRITTEN[key] = (n2, node)     # keep `node` alive: ids must not be reused
    n2 = _REWRITTEN[key][0]
    return n2, v


_orig_s_For = E.Interp.s_For


def _s_For(self, fr, s):
    if id(s) in {id(v[0]) for v in _REWRITTEN.values()}:
        return _orig_s_For(self, fr, s)
    n2, v = _with_listed_iter(self, fr, s, lambda n: n.iter, lambda n, x: setattr(n, 'iter', x))
    fr.env[n2.iter.id] = v
    mod, qual, ordinal = self.loop_key(fr, s)          # the rewritten node answers to the ordinal of the real loop
    f = fr
    while f is not None and f.func is None:
        f = f.parent
    if f is not None:
        self._ordinals[id(f.func.node)][id(n2)] = ordinal
    try:
        return _orig_s_For(self, fr, n2)
    finally:
        fr.env.pop(n2.iter.id, None)


E.Interp.s_For = _s_For

_orig_comprehension = M.comprehension


def _comprehension(it, fr, e, kind):
    if id(e) in {id(v[0]) for v in _REWRITTEN.values()}:
        return _orig_comprehension(it, fr, e, kind)

    def set_iter(n, x):
        import copy as _copy
        g = _copy.copy(n.generators[0])
        g.iter = x
        n.generators = [g] + list(n.generators[1:])
    n2, v = _with_listed_iter(it, fr, e, lambda n: n.generators[0].iter, set_iter)
    fr2 = E.Frame(fr.mod, {n2.generators[0].iter.id: v}, parent=fr)
    return _orig_comprehension(it, fr2, n2, kind)


M.comprehension = _comprehension
