"""Extended-real float model (DESIGN.md 2.2): fin(Real) | +inf | -inf | nan.

A finite double *is* the real it denotes; comparisons, equality, negation, min/max, int(), float(int)
are exact; + - * / on finite values are mathematical (recorded assumption "machine arithmetic treated as
mathematical": no rounding, no overflow to inf).
"""
import math

import z3

XReal = z3.Datatype('XReal')
XReal.declare('fin', ('r', z3.RealSort()))
XReal.declare('pinf')
XReal.declare('ninf')
XReal.declare('nan')
XReal = XReal.create()

fin, pinf, ninf, nan = XReal.fin, XReal.pinf, XReal.ninf, XReal.nan
is_fin, is_pinf, is_ninf, is_nan = XReal.is_fin, XReal.is_pinf, XReal.is_ninf, XReal.is_nan
r = XReal.r


def lit(x):
    if isinstance(x, bool):
        x = int(x)
    if isinstance(x, int):
        return fin(z3.RealVal(x))
    if math.isnan(x):
        return nan
    if math.isinf(x):
        return pinf if x > 0 else ninf
    return fin(z3.RealVal(repr(float(x)) if 'e' not in repr(float(x)) else _exact(x)))


def _exact(x):
    from fractions import Fraction
    fr = Fraction(x)
    return '%d/%d' % (fr.numerator, fr.denominator)


def from_num(t):
    """z3 Int/Real term -> XReal."""
    if t.sort() == z3.IntSort():
        t = z3.ToReal(t)
    return fin(t)


def is_x(v):
    return z3.is_expr(v) and v.sort() == XReal


def lift(v):
    if is_x(v):
        return v
    if z3.is_expr(v):
        if v.sort() == z3.BoolSort():
            return fin(z3.If(v, z3.RealVal(1), z3.RealVal(0)))
        return from_num(v)
    return lit(v)


def lt(a, b):
    return z3.Or(z3.And(is_fin(a), is_fin(b), r(a) < r(b)),
                 z3.And(is_ninf(a), z3.Or(is_fin(b), is_pinf(b))),
                 z3.And(is_fin(a), is_pinf(b)))


def le(a, b):
    return z3.And(z3.Not(is_nan(a)), z3.Not(is_nan(b)), z3.Or(lt(a, b), a == b))


def gt(a, b):
    return lt(b, a)


def ge(a, b):
    return le(b, a)


def eq(a, b):
    """IEEE ==: nan != nan."""
    return z3.And(z3.Not(is_nan(a)), a == b)


def ne(a, b):
    return z3.Not(eq(a, b))


def neg(a):
    return z3.If(is_fin(a), fin(-r(a)), z3.If(is_pinf(a), ninf, z3.If(is_ninf(a), pinf, nan)))


def sign_pos(a):
    return z3.Or(is_pinf(a), z3.And(is_fin(a), r(a) > 0))


def sign_neg(a):
    return z3.Or(is_ninf(a), z3.And(is_fin(a), r(a) < 0))


def is_zero(a):
    return z3.And(is_fin(a), r(a) == 0)


def add(a, b):
    return z3.If(z3.Or(is_nan(a), is_nan(b)), nan,
                 z3.If(z3.And(is_fin(a), is_fin(b)), fin(r(a) + r(b)),
                       z3.If(z3.Or(z3.And(is_pinf(a), is_ninf(b)), z3.And(is_ninf(a), is_pinf(b))), nan,
                             z3.If(z3.Or(is_pinf(a), is_pinf(b)), pinf, ninf))))


def sub(a, b):
    return add(a, neg(b))


def mul(a, b):
    return z3.If(z3.Or(is_nan(a), is_nan(b)), nan,
                 z3.If(z3.And(is_fin(a), is_fin(b)), fin(r(a) * r(b)),
                       z3.If(z3.Or(is_zero(a), is_zero(b)), nan,
                             z3.If(sign_pos(a) == sign_pos(b), pinf, ninf))))


def isfinite(a):
    return is_fin(a)


def truth(a):
    return z3.Not(is_zero(a))


def model_value(m, t):
    """Concrete python float of an XReal term under model m (nearest double for non-representable reals)."""
    v = m.eval(t, model_completion=True)
    d = v.decl().name()
    if d == 'pinf':
        return float('inf')
    if d == 'ninf':
        return float('-inf')
    if d == 'nan':
        return float('nan')
    rv = v.arg(0)
    try:
        return float(rv.as_fraction())
    except Exception:
        return float(rv.approx(20).as_fraction())
