"""pyvc.spacekit -- shared pieces of the C15 / C03 checks (numeric encoding of trials, in-domain suggestions).

Additive extension of `pyvc.np_model` (imported, not edited) plus the value-producer vocabulary of C03/C15:

  * numpy extras (registered in `engine.EXTERNAL`, this process only): `np.dtype`, `np.abs`, `np.argmin/argmax`,
    exact `np.clip` (= minimum(maximum(x, lo), hi), also when lo > hi), `np.where` on scalars, `np.eye`, `np.log/np.exp`
    (uninterpreted, domain obligation on log), `np.expand_dims`, ndarray `.flatten/.reshape/.dtype`;
  * XReal true division (finite / non-zero finite is the mathematical quotient);
  * `list(range(a, b))` with symbolic ends as an array-list with the defining axiom arr[i] = a + i;
  * `min(enumerate(xs), key=f)` / `min(xs)` / `max(xs)` over an array-list (attained bound);
  * assumed contracts of `numpy.random` generators (`uniform`, `choice`, `integers/random_integers`, `random`);
  * the membership oracle `member(dom, v)` written from the property statement (C03/C15), symbolic parameter
    definitions (`Dom`, taken from the C16 check, whose postcondition `C16.factory.normalises.*` is their invariant).

Library facts stated here are cross-checked against the real numpy by replay/c15_replay.py `np_facts`.
"""
import ast
import itertools

import z3

from . import engine as E
from . import models as M
from . import np_model as NP
from . import protomodel as pm
from . import xreal
from .engine import Unsupported, PyRaise, Builtin, EXTERNAL
from .np_model import NDArray
from .protomodel import SymList, Str

_uid = itertools.count()

TRUST = [
    'numpy fragment of pyvc/np_model.py plus pyvc/spacekit.py: np.clip == minimum(maximum(x, lo), hi); np.argmin/argmax return the first '
    'index of an attained minimum/maximum (NaN-free input); np.abs, np.isfinite, np.where pointwise; np.eye(n)[i] is the i-th unit row; '
    'ndarray.flatten()/list() enumerate the elements in order (exercised against the real numpy by replay/c15_replay.py np_facts)',
    'np.log / np.exp are uninterpreted functions on finite reals (ln defined for positive arguments only: every application emits a domain obligation)',
]


# ------------------------------------------------------------------------------------------ dtypes
_DT_NAMES = ('float32', 'float64', 'int32', 'int64', 'object_', 'bool_')


def _np_dtype(it, args, kw):
    """np.dtype(x): dtype objects are represented by the scalar-type value itself (np.dtype(np.float32) == np.float32 holds in numpy)."""
    return args[0]


for _pkg in ('numpy', 'jax.numpy'):
    EXTERNAL[_pkg + '.dtype'] = Builtin('np.dtype', _np_dtype)
    if _pkg + '.object_' not in EXTERNAL:
        EXTERNAL[_pkg + '.object_'] = Builtin('object_', lambda it, args, kw: args[0])


def dtype_kind(d):
    try:
        return NP.dtype_arg(d)
    except Unsupported:
        return None


# ------------------------------------------------------------------------------------------ scalar helpers
def xl(v):
    return xreal.lift(v)


def xmax(a, b):
    """np.maximum on scalars (NaN propagates)."""
    return z3.If(z3.Or(xreal.is_nan(a), xreal.is_nan(b)), xreal.nan, z3.If(xreal.lt(a, b), b, a))


def xmin(a, b):
    return z3.If(z3.Or(xreal.is_nan(a), xreal.is_nan(b)), xreal.nan, z3.If(xreal.lt(b, a), b, a))


def xdiv(it, a, b):
    """a / b on extended reals for a divisor that is not zero on this path."""
    a, b = xl(a), xl(b)
    if it.truth(xreal.is_zero(b)):
        # Python floats raise ZeroDivisionError, numpy scalars return inf/nan: not distinguished by the value model
        raise Unsupported('float division by a possibly-zero divisor')
    fa, fb = xreal.is_fin(a), xreal.is_fin(b)
    inf_a = z3.Or(xreal.is_pinf(a), xreal.is_ninf(a))
    inf_b = z3.Or(xreal.is_pinf(b), xreal.is_ninf(b))
    same = xreal.sign_pos(a) == xreal.sign_pos(b)
    return z3.If(z3.Or(xreal.is_nan(a), xreal.is_nan(b)), xreal.nan,
                 z3.If(z3.And(fa, fb), xreal.fin(xreal.r(a) / xreal.r(b)),
                       z3.If(z3.And(fa, inf_b), xreal.fin(z3.RealVal(0)),
                             z3.If(z3.And(inf_a, inf_b), xreal.nan,
                                   z3.If(same, xreal.pinf, xreal.ninf)))))


def _is_floaty(v):
    return isinstance(v, float) or (z3.is_expr(v) and v.sort() == xreal.XReal)


def _is_num(v):
    return isinstance(v, (int, float)) or (z3.is_expr(v) and v.sort() in (xreal.XReal, z3.IntSort(), z3.BoolSort()))


def _binop_hook(it, op, l, r, inplace, _prev=M.binop_hook):
    if isinstance(op, ast.Div) and _is_num(l) and _is_num(r) and (z3.is_expr(l) or z3.is_expr(r)) and (_is_floaty(l) or _is_floaty(r)):
        it.run.assumed.add('machine arithmetic treated as mathematical (true division of finite floats is the real quotient)')
        return xdiv(it, l, r)
    if isinstance(op, ast.Div) and isinstance(l, NDArray) and _is_num(r):
        f = l.fn
        return NDArray(l.shape, 'float', lambda *i: xdiv(it, f(*i), r))
    return _prev(it, op, l, r, inplace)


M.binop_hook = _binop_hook


# ------------------------------------------------------------------------------------------ numpy functions
def _map(fn_scalar, out_dtype=None):
    return NP._map1(fn_scalar, out_dtype)


def _np_clip(it, args, kw):
    a = args[0]
    lo = args[1] if len(args) > 1 else kw.get('a_min')
    hi = args[2] if len(args) > 2 else kw.get('a_max')

    def clip1(it_, x):
        x = xl(x)
        if lo is not None:
            x = xmax(x, xl(lo))
        if hi is not None:
            x = xmin(x, xl(hi))
        return x
    return _map(clip1, 'float')(it, [a], {})


def _np_abs(it, args, kw):
    return _map(lambda it_, x: M.b_abs(it_, [x], {}))(it, [args[0]], {})


def _arg_extreme(which):
    """np.argmin / np.argmax of a rank-1 array: first index of an attained extreme (NaN ordered before every number, as numpy does)."""
    def fn(it, args, kw):
        a = args[0]
        if not isinstance(a, NDArray):
            a = NP.from_nested(it, a)
        axis = kw.get('axis', args[1] if len(args) > 1 else None)
        if a.rank == 2 and axis in (1, -1):
            n, d = a.shape
            rows = NP.conc(n)
            if rows is None:
                # symbolic number of rows: an index function with the range fact and (NaN-free rows) the extremal fact
                run = it.run
                if not it.truth(NP.zi(d) >= 1):
                    raise PyRaise(it.make_exc('ValueError', ['attempt to get arg%s of an empty sequence' % which]))
                f = NP.fresh_fn(run, 'arg' + which, 1, z3.IntSort())
                NP.fact(run, NP.QA(n, lambda i: z3.And(f(i) >= 0, f(i) < NP.zi(d))))
                if a.dtype == 'float':
                    st = (lambda x, y: xreal.lt(x, y)) if which == 'min' else (lambda x, y: xreal.lt(y, x))
                    bt = lambda x, y: z3.Or(z3.And(xreal.is_nan(x), z3.Not(xreal.is_nan(y))), st(x, y))
                    NP.fact(run, NP.QA(n, lambda i: z3.And(
                        NP.QA(d, lambda k: z3.Not(bt(a.at(i, k), a.at(i, f(i))))),
                        NP.QA(f(i), lambda k: bt(a.at(i, f(i)), a.at(i, k))))))
                return NDArray((n,), 'int', lambda i: f(i))
            outs = [fn(it, [a.row(i)], {}) for i in range(rows)]
            return NP.from_nested(it, outs, 'int')
        if a.rank != 1 or axis not in (None, 0, -1):
            raise Unsupported('np.arg%s of a rank-%d array with axis=%r' % (which, a.rank, axis))
        n = a.shape[0]
        run = it.run
        if not it.truth(NP.zi(n) >= 1):
            raise PyRaise(it.make_exc('ValueError', ['attempt to get arg%s of an empty sequence' % which]))
        idx = run.fresh('arg' + which, z3.IntSort())
        run.assume(z3.And(idx >= 0, idx < NP.zi(n)))
        if a.dtype == 'bool':
            raise Unsupported('np.arg%s of a boolean array' % which)
        if a.dtype == 'float':
            # numpy orders NaN before everything in argmin/argmax (the first NaN is returned)
            strict = (lambda x, y: xreal.lt(x, y)) if which == 'min' else (lambda x, y: xreal.lt(y, x))
            better = lambda x, y: z3.Or(z3.And(xreal.is_nan(x), z3.Not(xreal.is_nan(y))), strict(x, y))
        else:
            better = (lambda x, y: x < y) if which == 'min' else (lambda x, y: y < x)
        # the array is named by a fresh function g (defining axiom with the trigger g(j)): the extremal facts are then
        # instantiated by E-matching on g, whatever arithmetic the element expression contains
        nc = NP.conc(n)
        if nc is not None:
            g = lambda j: a.at(j)
        else:
            gf = NP.fresh_fn(run, 'arr', 1, NP.SORTS[a.dtype])
            g = lambda j: gf(NP.zi(j))
            j = z3.Int('q!%d' % next(_uid))
            run.axiom(z3.ForAll([j], z3.Implies(z3.And(j >= 0, j < NP.zi(n)), gf(j) == z3.simplify(a.at(j))), patterns=[gf(j)]))
            run.assume(gf(idx) == z3.simplify(a.at(idx)))
        best = g(idx)
        if nc is not None:
            NP.fact(run, NP.QA(n, lambda j: z3.simplify(z3.Not(better(g(j), best)))))
            NP.fact(run, NP.QA(idx, lambda j: z3.simplify(better(best, g(j)))))
        else:
            j = z3.Int('q!%d' % next(_uid))
            run.axiom(z3.ForAll([j], z3.Implies(z3.And(j >= 0, j < NP.zi(n)), z3.Not(better(gf(j), best))), patterns=[gf(j)]))
            run.axiom(z3.ForAll([j], z3.Implies(z3.And(j >= 0, j < idx), better(best, gf(j))), patterns=[gf(j)]))
        run.__dict__.setdefault('arg_log', []).append((which, a, idx, g))
        return idx
    return fn


def _np_where(it, args, kw):
    if len(args) != 3:
        raise Unsupported('np.where with one argument')
    c, x, y = args

    def pick(cc, xx, yy):
        cz = NP.zb(cc)
        if _is_floaty(xx) or _is_floaty(yy):
            return z3.If(cz, xl(xx), xl(yy))
        return z3.If(cz, E.to_z3(xx), E.to_z3(yy))
    arrs = [v for v in (c, x, y) if isinstance(v, NDArray)]
    if not arrs:
        return pick(c, x, y)
    sh = arrs[0].shape
    at = lambda v, i: v.at(*i) if isinstance(v, NDArray) else v
    dt = 'float' if any((isinstance(v, NDArray) and v.dtype == 'float') or _is_floaty(v) for v in (x, y)) else 'int'
    return NDArray(sh, dt, lambda *i: pick(at(c, i), at(x, i), at(y, i)))


def _np_eye(it, args, kw):
    n = args[0]
    one, zero = xreal.lit(1), xreal.lit(0)
    return NDArray((n, n), 'float', lambda i, k: z3.If(i == k, one, zero))


ln = z3.Function('ln', z3.RealSort(), z3.RealSort())
exp = z3.Function('exp', z3.RealSort(), z3.RealSort())
LOG_OBLIGATION = ['numpy.log.domain']     # obligation name used for np.log applications (set by the contract; None: no obligation)


def _np_log(it, args, kw):
    def log1(it_, x):
        x = xl(x)
        pos = z3.And(xreal.is_fin(x), xreal.r(x) > 0)
        if LOG_OBLIGATION[0] is not None:
            it_.run.oblige(LOG_OBLIGATION[0], pos, 'np.log')
        # log(0) = -inf, log(negative) = nan, log(+inf) = +inf, log(nan) = nan
        return z3.If(pos, xreal.fin(ln(xreal.r(x))),
                     z3.If(xreal.is_zero(x), xreal.ninf, z3.If(xreal.is_pinf(x), xreal.pinf, xreal.nan)))
    return _map(log1, 'float')(it, [args[0]], {})


def _np_exp(it, args, kw):
    def exp1(it_, x):
        x = xl(x)
        return z3.If(xreal.is_fin(x), xreal.fin(exp(xreal.r(x))),
                     z3.If(xreal.is_ninf(x), xreal.fin(z3.RealVal(0)), x))
    return _map(exp1, 'float')(it, [args[0]], {})


def _np_expand_dims(it, args, kw):
    a = args[0]
    axis = kw.get('axis', args[1] if len(args) > 1 else None)
    if not isinstance(a, NDArray):
        a = NP.from_nested(it, a)
    if a.rank == 1 and axis in (-1, 1):
        f = a.fn
        return NDArray((a.shape[0], 1), a.dtype, lambda i, k: f(i))
    raise Unsupported('np.expand_dims(rank %d, axis=%r)' % (a.rank, axis))


for _pkg in ('numpy', 'jax.numpy'):
    EXTERNAL[_pkg + '.clip'] = Builtin('np.clip', _np_clip)
    EXTERNAL[_pkg + '.abs'] = Builtin('np.abs', _np_abs)
    EXTERNAL[_pkg + '.absolute'] = Builtin('np.abs', _np_abs)
    EXTERNAL[_pkg + '.argmin'] = Builtin('np.argmin', _arg_extreme('min'))
    EXTERNAL[_pkg + '.argmax'] = Builtin('np.argmax', _arg_extreme('max'))
    EXTERNAL[_pkg + '.where'] = Builtin('np.where', _np_where)
    EXTERNAL[_pkg + '.eye'] = Builtin('np.eye', _np_eye)
    EXTERNAL[_pkg + '.log'] = Builtin('np.log', _np_log)
    EXTERNAL[_pkg + '.exp'] = Builtin('np.exp', _np_exp)
    EXTERNAL[_pkg + '.expand_dims'] = Builtin('np.expand_dims', _np_expand_dims)
    EXTERNAL[_pkg + '.newaxis'] = None


def flatten(a):
    if a.rank == 1:
        return a.copy()
    n, d = a.shape
    dc = NP.conc(d)
    f = a.fn
    if dc == 1:
        return NDArray((n,), a.dtype, lambda i: f(i, z3.IntVal(0)))
    nc = NP.conc(n)
    if dc is not None and nc is not None:
        return NDArray((nc * dc,), a.dtype, lambda j: f(j / dc, j % dc))
    raise Unsupported('flatten() of an array with symbolic trailing extent')


def _nd_getattr(it, v, a):
    if not isinstance(v, NDArray):
        return M.MISSING
    if a == 'flatten' or a == 'ravel':
        return Builtin(a, lambda it_, args, kw: flatten(v))
    if a == 'dtype':
        return EXTERNAL['numpy.float64'] if v.dtype == 'float' else EXTERNAL['numpy.int64'] if v.dtype == 'int' else EXTERNAL['numpy.bool_']
    if a == 'reshape':
        def reshape(it_, args, kw):
            sh = args[0] if len(args) == 1 else list(args)
            sh = list(M.try_iterate(it_, sh) or [])
            if v.rank == 1 and sh == [-1, 1]:
                f = v.fn
                return NDArray((v.shape[0], 1), v.dtype, lambda i, k: f(i))
            if sh == [-1]:
                return flatten(v)
            raise Unsupported('reshape(%r) of a rank-%d array' % (sh, v.rank))
        return Builtin('reshape', reshape)
    if a == 'tolist' and v.rank == 1:
        return Builtin('tolist', lambda it_, args, kw: NP.elements(v) if NP.elements(v) is not None else _raise_unsup('tolist of symbolic extent'))
    return M.MISSING


def _raise_unsup(msg):
    raise Unsupported(msg)


NP._chain('value_getattr_hook', _nd_getattr)


# ------------------------------------------------------------------------------------------ array-list extras
def elem_eq(a, b):
    """Python == on two element terms (IEEE equality on floats)."""
    if z3.is_expr(a) and a.sort() == xreal.XReal or z3.is_expr(b) and b.sort() == xreal.XReal:
        return xreal.eq(xl(a), xl(b))
    return E.zbool(E.eq_values(a, b))


_prev_list = M.BUILTINS['list'].fn


def _b_list(it, args, kw):
    """list(range(a, b)) with symbolic ends: the array-list with arr[i] = a + i, length max(0, b - a)."""
    if args and isinstance(args[0], M.SymRange) and M.try_iterate(it, args[0]) is None:
        rg = args[0]
        if NP.conc(rg.step) != 1:
            raise Unsupported('list(range(..., step != 1)) with symbolic ends')
        lo, hi = NP.zi(rg.lo), NP.zi(rg.hi)
        n = z3.If(hi > lo, hi - lo, z3.IntVal(0))
        j = z3.Int('j!rg')
        r = SymList(z3.simplify(n), z3.Lambda([j], lo + j), 'int')
        r.range_of = (lo, hi)
        return r
    return _prev_list(it, args, kw)


M.BUILTINS['list'] = Builtin('list', _b_list)


def symlist_index(it, lst, x):
    """lst.index(x): the first position holding a value equal to x, ValueError if there is none."""
    run = it.run
    i = run.fresh('index', z3.IntSort())
    found = z3.And(i >= 0, i < lst.n, elem_eq(lst.arr[i], E.to_z3(x) if not _is_floaty(x) else xl(x)))
    if run.choose(found):
        NP.fact(run, NP.QA(i, lambda j: z3.Not(elem_eq(lst.arr[j], E.to_z3(x) if not _is_floaty(x) else xl(x)))))
        return i
    NP.fact(run, NP.QA(lst.n, lambda j: z3.Not(elem_eq(lst.arr[j], E.to_z3(x) if not _is_floaty(x) else xl(x)))))
    raise PyRaise(it.make_exc('ValueError', ['x not in list']))


_prev_value_getattr = M.value_getattr


def _value_getattr(it, v, a):
    if isinstance(v, SymList) and not isinstance(v, NP.EnumList) and a == 'index' and M.try_iterate(it, v) is None:
        return Builtin('index', lambda it_, args, kw: symlist_index(it_, v, args[0]))
    return _prev_value_getattr(it, v, a)


M.value_getattr = _value_getattr


def _symlist_extreme(it, xs, which):
    """min(xs) / max(xs) over an array-list of numbers: an attained bound (ValueError on an empty list)."""
    run = it.run
    if not it.truth(xs.n >= 1):
        raise PyRaise(it.make_exc('ValueError', ['%s() arg is an empty sequence' % which]))
    w = run.fresh(which + '_at', z3.IntSort())
    run.assume(z3.And(w >= 0, w < xs.n))
    best = xs.arr[w]
    lt = (lambda a, b: E.zbool(M.num_lt(it, a, b)))
    if which == 'min':
        NP.fact(run, NP.QA(xs.n, lambda j: z3.Not(lt(xs.arr[j], best))))
    else:
        NP.fact(run, NP.QA(xs.n, lambda j: z3.Not(lt(best, xs.arr[j]))))
    return best


def _keyed_min(it, en, key, which):
    """min(enumerate(xs), key=f): the first pair (i, xs[i]) whose key is minimal (Python keeps the first minimum)."""
    run = it.run
    if not it.truth(en.n >= 1):
        raise PyRaise(it.make_exc('ValueError', ['%s() arg is an empty sequence' % which]))
    w = run.fresh(which + '_at', z3.IntSort())
    run.assume(z3.And(w >= 0, w < en.n))
    J = run.fresh('kj', z3.IntSort())
    it.pure += 1
    try:
        kJ = it.call(key, [en.get(J)], {})
    finally:
        it.pure -= 1
    kJ = E.to_z3(kJ)
    at = lambda j: z3.substitute(kJ, (J, j))
    lt = (lambda a, b: E.zbool(M.num_lt(it, a, b)))
    if which == 'min':
        NP.fact(run, NP.QA(en.n, lambda j: z3.Not(lt(at(j), at(w)))))
        NP.fact(run, NP.QA(w, lambda j: lt(at(w), at(j))))
    else:
        NP.fact(run, NP.QA(en.n, lambda j: z3.Not(lt(at(w), at(j)))))
        NP.fact(run, NP.QA(w, lambda j: lt(at(j), at(w))))
    return en.get(w)


def _wrap_extreme(which):
    prev = M.BUILTINS[which].fn

    def fn(it, args, kw):
        if len(args) == 1 and isinstance(args[0], SymList) and M.try_iterate(it, args[0]) is None:
            v = args[0]
            key = kw.get('key')
            if isinstance(v, NP.EnumList):
                if key is None:
                    raise Unsupported('%s(enumerate(...)) without a key' % which)
                return _keyed_min(it, v, key, which)
            if key is not None:
                raise Unsupported('%s(array-list, key=...)' % which)
            return _symlist_extreme(it, v, which)
        return prev(it, args, kw)
    return fn


M.BUILTINS['min'] = Builtin('min', _wrap_extreme('min'))
M.BUILTINS['max'] = Builtin('max', _wrap_extreme('max'))


# ---- [f(x) for x in xs] without a filter over an array-list / symbolic range: a definitional map
class ObjList(NP.EnumList):
    """list of python-side objects computed from a symbolic index: get(i) instantiates the template at i."""


def subst_value(v, J, i, memo=None):
    if z3.is_expr(v):
        return z3.substitute(v, (J, i))
    if isinstance(v, E.Obj):
        o = E.Obj(v.cls, {k: subst_value(x, J, i) for k, x in v.attrs.items()})
        o.__class__ = v.__class__
        return o
    if isinstance(v, tuple):
        return tuple(subst_value(x, J, i) for x in v)
    if isinstance(v, list):
        return [subst_value(x, J, i) for x in v]
    return v


_prev_comprehension = M.comprehension


def _comprehension(it, fr, e, kind):
    gens = e.generators
    if kind == 'list' and len(gens) == 1 and not gens[0].ifs:
        first = it.eval(fr, gens[0].iter)
        src = None
        if isinstance(first, M.SymRange) and M.try_iterate(it, first) is None and NP.conc(first.step) == 1:
            lo, hi = NP.zi(first.lo), NP.zi(first.hi)
            src = (z3.simplify(z3.If(hi > lo, hi - lo, z3.IntVal(0))), lambda j: lo + j)
        elif isinstance(first, NDArray) and first.rank == 1 and NP.conc(first.shape[0]) is None:
            snapa = first.copy()
            src = (NP.zi(first.shape[0]), lambda j: snapa.at(j))
        elif isinstance(first, SymList) and M.try_iterate(it, first) is None and not it.run.bounded:
            snap = M.snapshot(first) if not isinstance(first, NP.EnumList) else first
            src = (first.n, lambda j: snap.get(j))
        if src is not None:
            n, at = src
            J = it.run.fresh('cj', z3.IntSort())
            fr2 = E.Frame(fr.mod, {}, parent=fr)
            it.pure += 1
            try:
                it.assign(fr2, gens[0].target, at(J))
                v = it.eval(fr2, e.elt)
            finally:
                it.pure -= 1
            if isinstance(v, E.Obj):
                r = ObjList(n, lambda i: subst_value(v, J, i))
                r.template, r.J = v, J
                return r
            t = E.to_z3(v) if not isinstance(v, float) else xl(v)
            elem = {z3.IntSort(): 'int', z3.BoolSort(): 'bool', Str: 'str', xreal.XReal: 'float', pm.PyObj: 'pyobj'}.get(t.sort())
            if elem is None:
                raise Unsupported('comprehension element sort %s' % t.sort())
            j = z3.Int('j!mp%d' % next(_uid))
            r = SymList(n, z3.Lambda([j], z3.substitute(t, (J, j))), elem)
            r.map_of = first
            return r
        # the source was evaluated once already: evaluate the rest on a frame where it is bound to a temporary
        return _comprehension_with_source(it, fr, e, kind, first)
    return _prev_comprehension(it, fr, e, kind)


def _comprehension_with_source(it, fr, e, kind, first):
    tmp = '__src%d' % next(_uid)
    fr2 = E.Frame(fr.mod, {tmp: first}, parent=fr)
    g0 = e.generators[0]
    g = ast.comprehension(target=g0.target, iter=ast.Name(id=tmp, ctx=ast.Load()), ifs=g0.ifs, is_async=0)
    e2 = ast.ListComp(elt=e.elt, generators=[g] + list(e.generators[1:]))
    ast.copy_location(e2, e)
    ast.fix_missing_locations(e2)
    return _prev_comprehension(it, fr2, e2, kind)


M.comprehension = _comprehension


# ------------------------------------------------------------------------------------------ object.__setattr__ (frozen attrs classes)
def _object_setattr(it, args, kw):
    o, name, v = args
    if not isinstance(o, E.Obj) or not isinstance(name, str):
        raise Unsupported('object.__setattr__ on %r' % (o,))
    o.attrs[name] = v
    return None


_prev_value_getattr2 = M.value_getattr


def _value_getattr2(it, v, a):
    if isinstance(v, E.BuiltinClass) and v.name == 'object' and a == '__setattr__':
        return Builtin('object.__setattr__', _object_setattr)
    return _prev_value_getattr2(it, v, a)


M.value_getattr = _value_getattr2


# ------------------------------------------------------------------------------------------ numpy.random generators (assumed contracts)
RNG_ASSUMPTIONS = [
    'rng.uniform(low, high) returns a finite float u with low <= u <= high (finite low <= high)',
    'rng.choice(xs) returns an element of the non-empty sequence xs',
    'rng.binomial(1, p) returns 0 or 1',
]


class Rng:
    """an opaque numpy random generator / RandomState: only the range contracts of its methods are known."""

    def __repr__(self):
        return '<rng>'


def _rng_uniform(it, args, kw):
    lo = kw.get('low', args[0] if args else 0.0)
    hi = kw.get('high', args[1] if len(args) > 1 else 1.0)
    if kw.get('size') is not None or len(args) > 2:
        raise Unsupported('rng.uniform with a size')
    run = it.run
    lo, hi = xl(lo), xl(hi)
    u = run.fresh('uniform', xreal.XReal)
    # contract precondition: finite, ordered bounds (numpy raises OverflowError / returns values outside otherwise)
    ok = z3.And(xreal.is_fin(lo), xreal.is_fin(hi), xreal.r(lo) <= xreal.r(hi))
    run.assume(z3.Implies(ok, z3.And(xreal.is_fin(u), xreal.r(lo) <= xreal.r(u), xreal.r(u) <= xreal.r(hi))))
    run.__dict__.setdefault('rng_draws', []).append(('uniform', lo, hi, u, ok))
    return u


def _rng_choice(it, args, kw):
    xs = args[0]
    run = it.run
    if len(args) > 1 or kw:
        raise Unsupported('rng.choice with size / p / replace')
    if isinstance(xs, SymList) and M.try_iterate(it, xs) is None:
        if not it.truth(xs.n >= 1):
            raise PyRaise(it.make_exc('ValueError', ['a cannot be empty']))
        i = run.fresh('choice', z3.IntSort())
        run.assume(z3.And(i >= 0, i < xs.n))
        run.__dict__.setdefault('rng_draws', []).append(('choice', xs, i))
        return xs.get(i)
    items = M.iterate(it, xs)
    if not items:
        raise PyRaise(it.make_exc('ValueError', ['a cannot be empty']))
    i = run.fresh('choice', z3.IntSort())
    run.assume(z3.And(i >= 0, i < len(items)))
    for k, x in enumerate(items[:-1]):
        if it.truth(i == k):
            return x
    return items[-1]


def _rng_binomial(it, args, kw):
    b = it.run.fresh('binomial', z3.IntSort())
    it.run.assume(z3.Or(b == 0, b == 1))
    return b


_RNG_METHODS = {'uniform': _rng_uniform, 'choice': _rng_choice, 'binomial': _rng_binomial}


def _rng_getattr(it, v, a):
    if isinstance(v, Rng):
        if a in _RNG_METHODS:
            return Builtin('rng.' + a, _RNG_METHODS[a])
        raise Unsupported('rng.%s has no assumed contract' % a)
    return M.MISSING


NP._chain('value_getattr_hook', _rng_getattr)


# ------------------------------------------------------------------------------------------ the membership oracle (from the property)
def value_of(v):
    """the raw Python value carried by a ParameterValue instance / a raw value."""
    if isinstance(v, E.Obj) and 'value' in v.attrs and E.class_name(v.cls) == 'ParameterValue':
        return v.attrs['value']
    return v


def is_number(v):
    return isinstance(v, (bool, int, float)) or (z3.is_expr(v) and v.sort() in (z3.BoolSort(), z3.IntSort(), xreal.XReal))


def real_of(v):
    """(is a finite real number, its value) of a Python number."""
    if isinstance(v, bool) or (z3.is_expr(v) and v.sort() == z3.BoolSort()):
        return z3.BoolVal(True), z3.If(E.zbool(v), z3.RealVal(1), z3.RealVal(0))
    if isinstance(v, int):
        return z3.BoolVal(True), z3.RealVal(v)
    if z3.is_expr(v) and v.sort() == z3.IntSort():
        return z3.BoolVal(True), z3.ToReal(v)
    x = xl(v)
    return xreal.is_fin(x), xreal.r(x)


def member(dom, v):
    """C03/C15 oracle: `v` (a raw Python value) lies inside the domain `dom` of its parameter -- within bounds for DOUBLE and
    INTEGER, integral for INTEGER, a member of the feasible set for DISCRETE and CATEGORICAL.  Same reading as the oracle
    of the C16 check (ParameterConfig.contains is proved equivalent to it there: C16.contains.iff)."""
    v = value_of(v)
    if isinstance(v, (E.Obj, list, tuple, dict)) or v is None:
        return z3.BoolVal(False)
    if dom.ptype in ('DOUBLE', 'INTEGER', 'DISCRETE'):
        if not is_number(v):
            return z3.BoolVal(False)
        fin, r = real_of(v)
        if dom.ptype == 'DOUBLE':
            return z3.And(fin, xreal.r(dom.lo) <= r, r <= xreal.r(dom.hi))
        if dom.ptype == 'INTEGER':
            return z3.And(fin, z3.IsInt(r), z3.ToReal(dom.lo) <= r, r <= z3.ToReal(dom.hi))
        j = z3.Int('j!mem%d' % next(_uid))
        return z3.And(fin, z3.Exists([j], z3.And(j >= 0, j < dom.fv.n, dom.fv.arr[j] == xreal.fin(r))))
    if dom.ptype == 'CATEGORICAL':
        if isinstance(v, str) or (z3.is_expr(v) and v.sort() == Str):
            j = z3.Int('j!mem%d' % next(_uid))
            return z3.Exists([j], z3.And(j >= 0, j < dom.fv.n, dom.fv.arr[j] == E.to_z3(v)))
        return z3.BoolVal(False)
    raise KeyError(dom.ptype)


def member_at(dom, v, w):
    """member() with an explicit witness index w for the feasible-set types (proof hint `obtain j`)."""
    v = value_of(v)
    if dom.ptype == 'DISCRETE' and is_number(v):
        fin, r = real_of(v)
        return z3.And(fin, w >= 0, w < dom.fv.n, dom.fv.arr[w] == xreal.fin(r))
    if dom.ptype == 'CATEGORICAL' and (isinstance(v, str) or (z3.is_expr(v) and v.sort() == Str)):
        return z3.And(w >= 0, w < dom.fv.n, dom.fv.arr[w] == E.to_z3(v))
    return member(dom, v)


# ------------------------------------------------------------------------------------------ ndarray indexing extras
def _nd_subscript(it, base, idx):
    if not isinstance(base, NDArray):
        return M.MISSING
    # a[rows] with an integer index array: gather of rows (numpy raises IndexError for an index outside [-n, n))
    if isinstance(idx, NDArray) and idx.dtype == 'int' and idx.rank == 1 and base.rank == 2 and idx.perm is None:
        n, d = base.shape
        m = idx.shape[0]
        ok = NP.QA(m, lambda i: z3.And(idx.at(i) >= -NP.zi(n), idx.at(i) < NP.zi(n)))
        okb = NP.scalar_bool(it, ok)
        if not it.truth(okb):
            raise PyRaise(it.make_exc('IndexError', ['index out of bounds']))
        if E._has_quantifier(ok):
            it.run.axiom(ok)
        f, g = base.fn, idx.fn
        nn = NP.zi(n)
        return NDArray((m, d), base.dtype, lambda i, k: f(z3.If(g(i) < 0, g(i) + nn, g(i)), k))
    # a[:, None] / a[:, np.newaxis] on a vector
    if isinstance(idx, tuple) and len(idx) == 2 and isinstance(idx[0], slice) and idx[0] == slice(None, None, None) and idx[1] is None \
            and base.rank == 1:
        f = base.fn
        return NDArray((base.shape[0], 1), base.dtype, lambda i, k: f(i))
    return M.MISSING


NP._chain('subscript_hook', _nd_subscript)


# ------------------------------------------------------------------------------------------ `x in array-list` without quantifiers in the path condition
_prev_contains = M.contains


def _range_pos(lst, x):
    """(is a member, position) of a number x in list(range(lo, hi)) -- plain arithmetic"""
    lo, hi = lst.range_of
    if isinstance(x, bool) or (z3.is_expr(x) and x.sort() == z3.BoolSort()):
        x = NP.zi(x)
    if isinstance(x, int) or (z3.is_expr(x) and x.sort() == z3.IntSort()):
        xi = NP.zi(x)
        return z3.And(lo <= xi, xi < hi), xi - lo
    if _is_floaty(x):
        xx = xl(x)
        xi = z3.ToInt(xreal.r(xx))
        return z3.And(xreal.is_fin(xx), z3.IsInt(xreal.r(xx)), lo <= xi, xi < hi), xi - lo
    return z3.BoolVal(False), z3.IntVal(0)


def _in_range(it, rg, x):
    """x in range(a, b[, s]) with symbolic ends: a <= x < b and (x - a) % s == 0 for an int x (mirrored for s < 0); an integral float equal
    to a member is a member, a non-integral float / NaN / inf is not; other types are not"""
    a, b = NP.zi(rg.lo), NP.zi(rg.hi)
    st = NP.conc(rg.step)
    if st is None:
        raise Unsupported('x in range(a, b, s) with a symbolic step')
    if st == 0:
        raise PyRaise(it.make_exc('ValueError', ['range() arg 3 must not be zero']))
    if isinstance(x, bool) or (z3.is_expr(x) and x.sort() == z3.BoolSort()):
        x = NP.zi(x)

    def mem(xi):
        if st > 0:
            return z3.And(a <= xi, xi < b, (xi - a) % st == 0) if st != 1 else z3.And(a <= xi, xi < b)
        return z3.And(b < xi, xi <= a, (a - xi) % (-st) == 0) if st != -1 else z3.And(b < xi, xi <= a)
    if isinstance(x, int) or (z3.is_expr(x) and x.sort() == z3.IntSort()):
        return mem(NP.zi(x))
    if _is_floaty(x):
        xx = xl(x)
        return z3.And(xreal.is_fin(xx), z3.IsInt(xreal.r(xx)), mem(z3.ToInt(xreal.r(xx))))
    return False


def _contains(it, container, x):
    if isinstance(container, M.SymRange) and M.try_iterate(it, container) is None:
        return _in_range(it, container, x)
    if isinstance(container, SymList) and not isinstance(container, NP.EnumList) and M.try_iterate(it, container) is None:
        if getattr(container, 'range_of', None) is not None:
            return _range_pos(container, x)[0]
        if not it.pure:
            run = it.run
            xt = xl(x) if _is_floaty(x) else E.to_z3(x)
            if xt.sort() != container.elem_sort():
                if container.elem_sort() == xreal.XReal and xt.sort() in (z3.IntSort(), z3.BoolSort()):
                    xt = xl(xt)
                else:
                    return False
            b = run.fresh('isin', z3.BoolSort())
            w = run.fresh('isin_at', z3.IntSort())
            run.assume(z3.Implies(b, z3.And(w >= 0, w < container.n, elem_eq(container.arr[w], xt))))
            j = z3.Int('j!in%d' % next(_uid))
            run.axiom(z3.ForAll([j], z3.Implies(z3.And(j >= 0, j < container.n, elem_eq(container.arr[j], xt)), b)))
            return b
    return _prev_contains(it, container, x)


M.contains = _contains

_symlist_index_general = symlist_index


def symlist_index(it, lst, x):        # noqa: F811  (range lists: arithmetic instead of a search)
    if getattr(lst, 'range_of', None) is not None:
        mem, pos = _range_pos(lst, x)
        if it.truth(mem):
            return pos
        raise PyRaise(it.make_exc('ValueError', ['x not in list']))
    return _symlist_index_general(it, lst, x)


# ------------------------------------------------------------------------------------------ math.floor / math.ceil, np.linspace (floats)
def _math_floor(it, args, kw):
    v = args[0]
    if not z3.is_expr(v):
        import math
        return math.floor(v)
    if v.sort() == z3.IntSort():
        return v
    x = xl(v)
    if it.truth(xreal.is_nan(x)):
        raise PyRaise(it.make_exc('ValueError', ['cannot convert float NaN to integer']))
    if it.truth(z3.Not(xreal.is_fin(x))):
        raise PyRaise(it.make_exc('OverflowError', ['cannot convert float infinity to integer']))
    return z3.ToInt(xreal.r(x))          # z3 ToInt is the floor


EXTERNAL['math.floor'] = Builtin('math.floor', _math_floor)

_prev_linspace = EXTERNAL['numpy.linspace'].fn
LINSPACE_ASSUMPTION = 'np.linspace(a, b, num) returns num finite values inside [a, b] (a <= b finite), the first equal to a, the last (num >= 2) equal to b'


def _np_linspace(it, args, kw):
    """np.linspace with float ends / a symbolic number of samples: an array of `num` values inside [start, stop] with exact
    ends (assumed contract).  Integer grids with a concrete number of samples stay with the np_model version (astype(int))."""
    start, stop = args[0], args[1]
    num = kw.get('num', args[2] if len(args) > 2 else 50)
    if not (_is_floaty(start) or _is_floaty(stop)) and NP.conc(num) is not None:
        return _prev_linspace(it, args, kw)
    run = it.run
    if not it.truth(NP.zi(num) >= 0):
        raise PyRaise(it.make_exc('ValueError', ['Number of samples must be non-negative']))
    run.assumed.add(LINSPACE_ASSUMPTION)
    f = NP.fresh_fn(run, 'linspace', 1, xreal.XReal)
    a, b = xl(start), xl(stop)
    ok = z3.And(xreal.is_fin(a), xreal.is_fin(b), xreal.r(a) <= xreal.r(b))
    n = NP.zi(num)
    j = z3.Int('q!%d' % next(_uid))
    inside = z3.And(xreal.is_fin(f(j)), xreal.r(a) <= xreal.r(f(j)), xreal.r(f(j)) <= xreal.r(b))
    run.axiom(z3.ForAll([j], z3.Implies(z3.And(ok, j >= 0, j < n), inside), patterns=[f(j)]))
    run.assume(z3.Implies(z3.And(ok, n >= 1), f(z3.IntVal(0)) == a))
    run.assume(z3.Implies(z3.And(ok, n >= 2), f(n - 1) == b))
    return NDArray((NP.norm(num),), 'float', lambda i: f(i))


for _pkg in ('numpy', 'jax.numpy'):
    EXTERNAL[_pkg + '.linspace'] = Builtin('np.linspace', _np_linspace)


# ---- array-valued draws of a RandomState (RandomDesigner.suggest)
def _size_shape(it, size):
    xs = M.try_iterate(it, size) if not (isinstance(size, int) or z3.is_expr(size)) else [size]
    if xs is None or len(xs) not in (1, 2):
        raise Unsupported('rng draw with size %r' % (size,))
    return tuple(xs)


def _rng_random_integers(it, args, kw):
    """RandomState.random_integers(low, high, size): integers in the CLOSED interval [low, high] (numpy documentation)"""
    lo, hi = args[0], args[1] if len(args) > 1 else kw.get('high')
    size = kw.get('size', args[2] if len(args) > 2 else None)
    if size is None:
        raise Unsupported('scalar random_integers')
    run = it.run
    shape = _size_shape(it, size)
    f = NP.fresh_fn(run, 'randint', len(shape), z3.IntSort())
    lo_, hi_ = NP.zi(lo), NP.zi(hi)
    idx = [z3.Int('q!%d' % next(_uid)) for _ in shape]
    rng_ok = z3.And(*[z3.And(i >= 0, i < NP.zi(s)) for i, s in zip(idx, shape)])
    run.axiom(z3.ForAll(idx, z3.Implies(z3.And(rng_ok, lo_ <= hi_), z3.And(lo_ <= f(*idx), f(*idx) <= hi_)), patterns=[f(*idx)]))
    run.__dict__.setdefault('rng_draws', []).append(('random_integers', lo_, hi_, shape))
    return NDArray(shape, 'int', lambda *i: f(*i))


def _rng_random(it, args, kw):
    """RandomState.random(size): floats in [0, 1)"""
    size = kw.get('size', args[0] if args else None)
    run = it.run
    if size is None:
        u = run.fresh('random', xreal.XReal)
        run.assume(z3.And(xreal.is_fin(u), xreal.r(u) >= 0, xreal.r(u) < 1))
        return u
    shape = _size_shape(it, size)
    f = NP.fresh_fn(run, 'random', len(shape), xreal.XReal)
    idx = [z3.Int('q!%d' % next(_uid)) for _ in shape]
    run.axiom(z3.ForAll(idx, z3.And(xreal.is_fin(f(*idx)), xreal.r(f(*idx)) >= 0, xreal.r(f(*idx)) < 1), patterns=[f(*idx)]))
    run.__dict__.setdefault('rng_draws', []).append(('random', shape))
    return NDArray(shape, 'float', lambda *i: f(*i))


_RNG_METHODS['random_integers'] = _rng_random_integers
_RNG_METHODS['random'] = _rng_random
_RNG_METHODS['random_sample'] = _rng_random
RNG_ASSUMPTIONS += ['RandomState.random_integers(low, high, size) returns integers in the closed interval [low, high]',
                    'RandomState.random(size) returns floats in [0, 1)']


# ------------------------------------------------------------------------------------------ libm transcendentals: monotone, nothing else
# exp / log / log1p / expm1 are uninterpreted functions on the reals constrained ONLY by what libm guarantees up to rounding and what
# a proof may honestly use: they are (strictly) increasing, exp > 0, log(1) = 0, exp(0) = 1.  There is NO inverse axiom: exp(log(x)) == x is
# false in floating point (exp(log(10.0)) == 10.000000000000002), so a value computed through a transcendental round trip is provably inside
# bounds only if it passes through a clip / min / max against those bounds afterwards.  Monotonicity is instantiated pairwise over the ground
# applications of each function on the path (complete for a monotone function symbol; keeps every query quantifier-free).
TRANS_ASSUMPTION = ('math/numpy exp, log, log1p, expm1 are uninterpreted strictly increasing functions (exp > 0, log 1 = 0, exp 0 = 1); '
                    'no exact-inverse law is assumed (exp(log x) == x is false in floating point); overflow to inf is not modelled')
log1p_f = z3.Function('log1p', z3.RealSort(), z3.RealSort())
expm1_f = z3.Function('expm1', z3.RealSort(), z3.RealSort())
_TRANS = {'log': ln, 'exp': exp, 'log1p': log1p_f, 'expm1': expm1_f}


def trans_apply(run, name, t):
    """f(t) for a ground real term t, with the pairwise monotonicity facts against the earlier applications of f on this path"""
    f = _TRANS[name]
    t = z3.simplify(t)
    r = f(t)
    log = run.__dict__.setdefault('trans_apps', {})
    apps = log.setdefault(name, [])
    for s in apps:
        if s.eq(t):
            return r
    for s in apps:
        run.assume(z3.And(z3.Implies(s < t, f(s) < r), z3.Implies(t < s, r < f(s))))
    apps.append(t)
    if name == 'exp':
        run.assume(z3.And(r > 0, z3.Implies(t == 0, r == 1), z3.Implies(t > 0, r > 1), z3.Implies(t < 0, r < 1)))
    elif name == 'log':
        run.assume(z3.And(z3.Implies(t == 1, r == 0), z3.Implies(t > 1, r > 0), z3.Implies(z3.And(t > 0, t < 1), r < 0)))
    elif name == 'expm1':
        run.assume(z3.And(r > -1, z3.Implies(t == 0, r == 0), z3.Implies(t > 0, r > 0), z3.Implies(t < 0, r < 0)))
    elif name == 'log1p':
        run.assume(z3.And(z3.Implies(t == 0, r == 0), z3.Implies(t > 0, r > 0), z3.Implies(z3.And(t > -1, t < 0), r < 0)))
    run.assumed.add(TRANS_ASSUMPTION)
    return r


def _py_transcendental(name, domain_lo=None):
    """math.<name>(x): Python semantics (ValueError outside the domain, NaN propagates)"""
    def fn(it, args, kw):
        v = args[0]
        if len(args) > 1:
            raise Unsupported('math.%s with a base' % name)
        if not z3.is_expr(v):
            import math
            try:
                return getattr(math, name)(v)
            except (ValueError, OverflowError) as e:
                raise PyRaise(it.make_exc(type(e).__name__, [str(e)]))
        x = xl(v)
        if it.truth(xreal.is_nan(x)):
            return xreal.nan
        if it.truth(z3.Not(xreal.is_fin(x))):
            raise Unsupported('math.%s of an infinite argument' % name)
        if domain_lo is not None and it.truth(xreal.r(x) <= domain_lo):
            raise PyRaise(it.make_exc('ValueError', ['math domain error']))
        return xreal.fin(trans_apply(it.run, name, xreal.r(x)))
    return fn


EXTERNAL['math.log'] = Builtin('math.log', _py_transcendental('log', 0))
EXTERNAL['math.exp'] = Builtin('math.exp', _py_transcendental('exp'))
EXTERNAL['math.log1p'] = Builtin('math.log1p', _py_transcendental('log1p', -1))
EXTERNAL['math.expm1'] = Builtin('math.expm1', _py_transcendental('expm1'))


def _np_transcendental(name, domain_lo=None):
    """np.<name>: numpy semantics (-inf / nan outside the domain, no exception); the np.log domain obligation is kept"""
    def fn(it, args, kw):
        def one(it_, x):
            x = xl(x)
            if domain_lo is None:
                app = trans_apply(it_.run, name, xreal.r(x)) if _ground(x) else _TRANS[name](xreal.r(x))
                return z3.If(xreal.is_fin(x), xreal.fin(app), z3.If(xreal.is_ninf(x), xreal.fin(z3.RealVal(0 if name == 'exp' else -1)), x))
            pos = z3.And(xreal.is_fin(x), xreal.r(x) > domain_lo)
            if name == 'log' and LOG_OBLIGATION[0] is not None:
                it_.run.oblige(LOG_OBLIGATION[0], pos, 'np.log')
            app = trans_apply(it_.run, name, xreal.r(x)) if _ground(x) else _TRANS[name](xreal.r(x))
            edge = z3.And(xreal.is_fin(x), xreal.r(x) == domain_lo)
            return z3.If(pos, xreal.fin(app), z3.If(edge, xreal.ninf, z3.If(xreal.is_pinf(x), xreal.pinf, xreal.nan)))
        return _map(one, 'float')(it, [args[0]], {})
    return fn


def _ground(t):
    """no bound / comprehension variable inside (facts about it may be asserted on the path)"""
    seen, todo = set(), [t]
    while todo:
        x = todo.pop()
        if x.get_id() in seen:
            continue
        seen.add(x.get_id())
        if z3.is_var(x):
            return False
        if z3.is_const(x) and x.decl().kind() == z3.Z3_OP_UNINTERPRETED and ('!' in x.decl().name() and x.decl().name().split('!')[0] in ('q', 'cj', 'kj', 'j', 'i')):
            return False
        todo.extend(x.children())
    return True


for _pkg in ('numpy', 'jax.numpy'):
    EXTERNAL[_pkg + '.log'] = Builtin('np.log', _np_transcendental('log', 0))
    EXTERNAL[_pkg + '.exp'] = Builtin('np.exp', _np_transcendental('exp'))
    EXTERNAL[_pkg + '.log1p'] = Builtin('np.log1p', _np_transcendental('log1p', -1))
    EXTERNAL[_pkg + '.expm1'] = Builtin('np.expm1', _np_transcendental('expm1'))


# ------------------------------------------------------------------------------------------ np.isclose / np.allclose (exact over the reals)
def xisclose(a, b, rtol, atol, equal_nan=False):
    """numpy: |a - b| <= atol + rtol * |b| for finite operands; equal infinities are close; NaN is close to nothing"""
    a, b = xl(a), xl(b)
    ra, rb = xreal.r(a), xreal.r(b)
    ab = lambda t: z3.If(t >= 0, t, -t)
    fin = z3.And(xreal.is_fin(a), xreal.is_fin(b))
    close = ab(ra - rb) <= atol + rtol * ab(rb)
    inf_eq = z3.And(z3.Not(xreal.is_fin(a)), z3.Not(xreal.is_nan(a)), a == b)
    r = z3.Or(z3.And(fin, close), inf_eq)
    if equal_nan:
        r = z3.Or(r, z3.And(xreal.is_nan(a), xreal.is_nan(b)))
    return r


def _tol(v, default):
    if v is None:
        return z3.RealVal(default)
    if isinstance(v, (int, float)):
        return xreal.r(xreal.lit(v))
    return xreal.r(xl(v))


def _np_isclose(it, args, kw):
    a, b = args[0], args[1]
    rtol = _tol(kw.get('rtol', args[2] if len(args) > 2 else None), '1/100000')
    atol = _tol(kw.get('atol', args[3] if len(args) > 3 else None), '1/100000000')
    en = bool(kw.get('equal_nan', False))
    arrs = [v for v in (a, b) if isinstance(v, NDArray)]
    if not arrs:
        if not z3.is_expr(a) and not z3.is_expr(b):
            import math
            fa, fb = float(a), float(b)
            if math.isnan(fa) or math.isnan(fb):
                return en and math.isnan(fa) and math.isnan(fb)
            if math.isinf(fa) or math.isinf(fb):
                return fa == fb
            return abs(fa - fb) <= 1e-8 + 1e-5 * abs(fb) if (len(args) <= 2 and 'rtol' not in kw and 'atol' not in kw) else z3.simplify(xisclose(a, b, rtol, atol, en))
        return xisclose(a, b, rtol, atol, en)
    at = lambda v, i: v.at(*i) if isinstance(v, NDArray) else v
    return NDArray(arrs[0].shape, 'bool', lambda *i: xisclose(at(a, i), at(b, i), rtol, atol, en))


def _np_allclose(it, args, kw):
    r = _np_isclose(it, args, kw)
    if isinstance(r, NDArray):
        return NP.reduce_bool(it, r, None, 'all')
    return r


for _pkg in ('numpy', 'jax.numpy'):
    EXTERNAL[_pkg + '.isclose'] = Builtin('np.isclose', _np_isclose)
    EXTERNAL[_pkg + '.allclose'] = Builtin('np.allclose', _np_allclose)


# ------------------------------------------------------------------------------------------ dtype casts: float32 is a rounding function, not the identity
# A Python float / np.float64 *is* the real it denotes (XReal), so a cast to float64 is the identity on floats and exact on the ints of the
# model (|i| <= 2^53).  A cast to float32 (np.asarray(..., dtype=np.float32), .astype(np.float32), np.float32(x)) is the uninterpreted
# rounding function r32: monotone, idempotent (structurally: a value that already is an r32 application is not cast again), exact on integers of magnitude <= 2^24, sign preserving,
# and NOT the identity.  (Overflow of a finite double to float32 inf is not modelled.)
R32_ASSUMPTION = ('a cast to float32 is an uninterpreted rounding function r32 (monotone, idempotent, exact on integers |i| <= 2^24, sign preserving; not '
                  'the identity; overflow to inf not modelled); a cast to float64 is the identity on floats and exact on ints |i| <= 2^53')
r32 = z3.Function('r32', z3.RealSort(), z3.RealSort())
is32 = z3.Function('is_float32', z3.RealSort(), z3.BoolSort())
TWO24 = 2 ** 24


def r32_axioms(run):
    if getattr(run, '_r32_axioms', False):
        return
    run._r32_axioms = True
    run.assumed.add(R32_ASSUMPTION)
    a, b = z3.Reals('a!r32 b!r32')
    # (idempotence is structural -- cast32 of a term that already is an r32 application returns it -- so that no quantified axiom creates
    # new r32 terms: no matching loops)
    # (exactness is stated for syntactically integer arguments ToReal(k) only: IsInt over real variables inside quantifiers sends the
    # arithmetic solver into non-terminating case splits)
    k = z3.Int('k!r32')
    run.axiom(z3.ForAll([k], z3.Implies(z3.And(k <= TWO24, k >= -TWO24), r32(z3.ToReal(k)) == z3.ToReal(k)), patterns=[r32(z3.ToReal(k))]))
    run.axiom(z3.ForAll([a], z3.And(z3.Implies(a >= 0, r32(a) >= 0), z3.Implies(a <= 0, r32(a) <= 0)), patterns=[r32(a)]))
    # (monotonicity is instantiated pairwise on the ground applications only; as a quantified multi-pattern axiom it is quadratic in the
    # array terms and no obligation needs it under a bound variable)


r32i = z3.Function('r32_of_int', z3.IntSort(), z3.RealSort())       # float32(i) of an integer i (kept on the Int term: E-matching friendly)


def r32i_axioms(run):
    if getattr(run, '_r32i_axioms', False):
        return
    run._r32i_axioms = True
    k = z3.Int('k!r32')
    run.axiom(z3.ForAll([k], z3.And(z3.Implies(z3.And(k <= TWO24, k >= -TWO24), r32i(k) == z3.ToReal(k)),
                                    z3.Implies(k >= 0, r32i(k) >= 0), z3.Implies(k <= 0, r32i(k) <= 0)), patterns=[r32i(k)]))


def cast32_int(it, i):
    """float32(i) of an integer term"""
    run = it.run
    run.assumed.add(R32_ASSUMPTION)
    i = z3.simplify(NP.zi(i))
    out = xreal.fin(r32i(i))
    if not _ground(i) or it.pure:
        r32i_axioms(run)
    else:
        apps = run.__dict__.setdefault('r32i_apps', [])
        if not any(s.eq(i) for s in apps):
            ri = r32i(i)
            run.assume(z3.And(z3.Implies(z3.And(i <= TWO24, i >= -TWO24), ri == z3.ToReal(i)), z3.Implies(i >= 0, ri >= 0), z3.Implies(i <= 0, ri <= 0)))
            for s in apps:
                run.assume(z3.And(z3.Implies(s <= i, r32i(s) <= ri), z3.Implies(i <= s, ri <= r32i(s))))
            apps.append(i)
    return out


def cast32(it, x):
    """float32(x) of a scalar (XReal / int / bool term or python number)"""
    run = it.run
    run.assumed.add(R32_ASSUMPTION)
    if (isinstance(x, int) and not isinstance(x, bool) and abs(x) > TWO24) or (z3.is_expr(x) and x.sort() == z3.IntSort()):
        return cast32_int(it, x)
    x = xl(x)
    t = z3.simplify(xreal.r(x))
    if z3.is_app(t) and t.decl().eq(r32):
        return x if not z3.is_app(x) or x.decl().name() != 'fin' else x        # already a float32 value: the cast is idempotent
    out = z3.If(xreal.is_fin(x), xreal.fin(r32(t)), x)
    if not _ground(t) or it.pure:
        r32_axioms(run)       # an application under a bound variable (array over a symbolic index): the quantified contract is needed
    if _ground(t) and not it.pure:
        t = z3.simplify(t)
        apps = run.__dict__.setdefault('r32_apps', [])
        if not any(s.eq(t) for s in apps):
            rt = r32(t)
            exact = z3.Implies(z3.And(t <= TWO24, t >= -TWO24), rt == t) if (z3.is_to_real(t) or z3.is_int_value(t) or
                                                                             (z3.is_rational_value(t) and t.denominator_as_long() == 1)) else z3.BoolVal(True)
            run.assume(z3.And(exact, z3.Implies(t >= 0, rt >= 0), z3.Implies(t <= 0, rt <= 0)))
            for s in apps:
                run.assume(z3.And(z3.Implies(s <= t, r32(s) <= rt), z3.Implies(t <= s, rt <= r32(s))))
            apps.append(t)
    return out


def is_f32(d):
    """does the dtype argument name float32?"""
    if d is None:
        return False
    name = d.name if isinstance(d, (Builtin, E.BuiltinClass)) else d.dotted.split('.')[-1] if isinstance(d, E.ExtRef) else str(d)
    return 'float32' in name or name in ('single', 'f4')


def cast_array32(it, a):
    f = a.fn
    r = NDArray(a.shape, 'float', lambda *i: cast32(it, f(*i)))
    return r


def _wrap_np_array(prev):
    def fn(it, args, kw):
        d = kw.get('dtype', args[1] if len(args) > 1 else None)
        r = prev(it, args, kw)
        if is_f32(d):
            if isinstance(r, NDArray):
                return cast_array32(it, r)
            if _is_num(r):
                return cast32(it, r)
        return r
    return fn


def _np_float32(it, args, kw):
    v = args[0]
    if isinstance(v, NDArray):
        return cast_array32(it, v)
    if _is_num(v):
        return cast32(it, v)
    raise Unsupported('np.float32(%r)' % (v,))


for _pkg in ('numpy', 'jax.numpy'):
    for _n in ('array', 'asarray'):
        EXTERNAL[_pkg + '.' + _n] = Builtin('np.' + _n, _wrap_np_array(EXTERNAL[_pkg + '.' + _n].fn))
    EXTERNAL[_pkg + '.float32'] = Builtin('float32', _np_float32)


def _cast_getattr(it, v, a):
    # scalar.item() / scalar.astype(dtype) on a numpy scalar (a z3 term here): the Python value / the cast value
    if z3.is_expr(v) and v.sort() in (xreal.XReal, z3.IntSort(), z3.BoolSort()):
        if a == 'item':
            return Builtin('item', lambda it_, args, kw: v)
        if a == 'astype':
            return Builtin('astype', lambda it_, args, kw: cast32(it_, v) if is_f32(args[0] if args else kw.get('dtype')) else v)
    if isinstance(v, NDArray) and a == 'astype':
        def astype_(it_, args, kw):
            d = args[0] if args else kw.get('dtype')
            r = NP.astype(v, NP.dtype_arg(d))
            return cast_array32(it_, r) if is_f32(d) else r
        return Builtin('astype', astype_)
    if isinstance(v, NDArray) and a == 'item' and all(NP.conc(s) == 1 for s in v.shape):
        return Builtin('item', lambda it_, args, kw: v.at(*[0] * v.rank))
    return M.MISSING


NP._chain('value_getattr_hook', _cast_getattr)


# ------------------------------------------------------------------------------------------ deterministic budgets, retried before reported
# engine.discharge budgets a query by z3's deterministic `rlimit` (wall clock is only a safety net).  An `unknown` whose reason is a budget
# ("canceled", "timeout", "max. resource limit exceeded", "push canceled") is retried here with a fresh solver and a 2x / 4x larger rlimit
# before it is reported, so that a verdict never depends on how busy the machine is.
_orig_discharge = E.discharge
BUDGET_WORDS = ('cancel', 'timeout', 'resource', 'interrupted')
_RETRY_EXHAUSTED = [0]
_UNKNOWN_SECONDS = [0.0]
UNKNOWN_BUDGET_S = 90.0       # per process: once this much time went into queries that stayed open, the remaining open queries fail fast


def _discharge_once(run, formula, npc, nax, rlimit, wall_ms, extra):
    """same query as engine.discharge (pc[:npc] & axioms[:nax] & extra |= formula), explicit deterministic budget + wall-clock safety net"""
    import time as _t
    t0 = _t.time()
    sv = z3.Solver()
    sv.set('rlimit', int(rlimit))
    sv.set('timeout', int(wall_ms))
    for c in (run.pc if npc is None else run.pc[:npc]):
        sv.add(c)
    for c in (run.axioms if nax is None else run.axioms[:nax]):
        sv.add(c)
    for c in extra:
        sv.add(c)
    lits = pm.all_str_lits()
    if len(lits) > 1:
        sv.add(z3.Distinct(*lits))
    sv.add(z3.Not(formula) if not isinstance(formula, bool) else z3.BoolVal(not formula))
    r = sv.check()
    dt = _t.time() - t0
    if r == z3.unsat:
        if getattr(E, 'SECOND_SOLVER', False):
            E._second_opinion(sv)
        return 'unsat', None, dt
    if r == z3.sat:
        return 'sat', sv.model(), dt
    return 'unknown', sv.reason_unknown(), dt


def discharge_retry(run, formula, npc=None, nax=None, timeout_ms=10000, extra=(), rlimit=None):
    """engine.discharge with: z3 `rlimit` as the budget (timeout_ms * 2500, deterministic); a wall-clock safety net of max(30 s, 5 x timeout_ms)
    (>= 20x the typical 0.05 s of an obligation of these checks); a budget-caused `unknown` retried twice with a fresh solver and 2x / 4x the
    rlimit before it is reported; and a per-process cap on the time spent on queries that stay open (a tree on which obligations genuinely
    fail): past it the remaining open queries get a 20x smaller rlimit and no retries -- they come out `unknown` = undecided (or are decided
    by the bounded native search), never as a verdict.  Queries that are `unsat` quickly (every query on a tree where the property holds)
    are not affected by any of the wall-clock figures."""
    base = rlimit if rlimit is not None else int(timeout_ms) * 2500
    wall = max(30000, int(timeout_ms) * 5)
    spent = _UNKNOWN_SECONDS[0] > UNKNOWN_BUDGET_S
    v, m, dt = _discharge_once(run, formula, npc, nax, base // 20 if spent else base, wall, extra)
    k = 0
    while v == 'unknown' and not spent and k < 2 and _RETRY_EXHAUSTED[0] < 2 and any(w in str(m).lower() for w in BUDGET_WORDS):
        k += 1
        v, m, dt2 = _discharge_once(run, formula, npc, nax, base * 2 ** k, wall, extra)
        dt += dt2
        if k == 2 and v == 'unknown':
            _RETRY_EXHAUSTED[0] += 1
    if v == 'unknown':
        _UNKNOWN_SECONDS[0] += dt
    return v, m, dt


E.discharge = discharge_retry


# ------------------------------------------------------------------------------------------ np.geomspace
GEOMSPACE_ASSUMPTION = ('np.geomspace(a, b, num) (a, b > 0) returns num finite values between min(a, b) and max(a, b), the first equal to a, the last '
                        '(num >= 2) equal to b (numpy sets the end points exactly)')


def _np_geomspace(it, args, kw):
    start, stop = args[0], args[1]
    num = kw.get('num', args[2] if len(args) > 2 else 50)
    run = it.run
    if not it.truth(NP.zi(num) >= 0):
        raise PyRaise(it.make_exc('ValueError', ['Number of samples must be non-negative']))
    a, b = xl(start), xl(stop)
    if it.truth(z3.Or(xreal.is_zero(a), xreal.is_zero(b))):
        raise PyRaise(it.make_exc('ValueError', ['Geometric sequence cannot include zero']))
    run.assumed.add(GEOMSPACE_ASSUMPTION)
    f = NP.fresh_fn(run, 'geomspace', 1, xreal.XReal)
    ok = z3.And(xreal.is_fin(a), xreal.is_fin(b), xreal.r(a) > 0, xreal.r(b) > 0)
    lo = z3.If(xreal.r(a) <= xreal.r(b), xreal.r(a), xreal.r(b))
    hi = z3.If(xreal.r(a) <= xreal.r(b), xreal.r(b), xreal.r(a))
    n = NP.zi(num)
    j = z3.Int('q!%d' % next(_uid))
    run.axiom(z3.ForAll([j], z3.Implies(z3.And(ok, j >= 0, j < n), z3.And(xreal.is_fin(f(j)), lo <= xreal.r(f(j)), xreal.r(f(j)) <= hi)), patterns=[f(j)]))
    run.assume(z3.Implies(z3.And(ok, n >= 1), f(z3.IntVal(0)) == a))
    run.assume(z3.Implies(z3.And(ok, n >= 2), f(n - 1) == b))
    return NDArray((NP.norm(num),), 'float', lambda i: f(i))


for _pkg in ('numpy', 'jax.numpy'):
    EXTERNAL[_pkg + '.geomspace'] = Builtin('np.geomspace', _np_geomspace)
