"""pyvc.jx_model -- rank-N jax.numpy / numpy / jax.lax / jax.random / tfp `Categorical` model for the pyvc engine (C19).

An array is a *total function* from integer index tuples to scalars together with a (possibly symbolic) shape:

    JArr(shape, dtype, fn)     shape: tuple of python ints | z3 Int terms (any rank, rank 0 = a plain scalar term)
                               dtype: 'float' (xreal.XReal: fin(Real) | +inf | -inf | nan) | 'int' | 'bool'
                               fn:    python closure (z3 Int, ...) -> z3 term; nothing is materialised

Element-wise operations, broadcasting, slices, gathers, `where`, `concatenate`, `reshape`, `dynamic_slice`, `.at[].set/add`
compose closures (exact semantics, IEEE specials included; + - * / on finite values are mathematical).  Library functions
whose *value* is irrelevant to the properties proved with this model (matmul, sum of floats, exp, log, max ...) are
uninterpreted: a fresh function of the right shape (any value, NaN included), i.e. a sound over-approximation.

Assumed contracts (every one is exercised natively by replay/c19_conformance.py; the text is recorded in `TRUST`):
  * `jnp.argpartition(x, kth)` (rank 1): a permutation `p` of [0, n) with inverse `q`; if no element of x is NaN:
    x[p[a]] <= x[p[kth]] <= x[p[b]] for a <= kth <= b.  (With NaNs present jax gives no usable order: a negated NaN is
    placed FIRST.)  kth outside [-n, n) raises.
  * `jnp.argsort(x)` (rank 1): a permutation of [0, n) putting x in ascending order, NaNs (of either sign) last.
  * `jnp.argmin/argmax(x, axis)`: an index in [0, extent) of that axis.
  * `jnp.clip(x, lo, hi)`: NaN stays NaN, otherwise min(max(x, lo), hi).
  * indexing with a traced integer / integer array: negative indices wrap once, then the index is clamped into the axis.
  * `x.at[i].set(v)` / `.add(v)`: functional update at the wrapped index, dropped when out of bounds.
  * `jax.lax.dynamic_slice_in_dim(x, start, size)`: start wrapped, then clamped into [0, n - size];
    `dynamic_update_slice_in_dim(x, u, start, axis)` likewise.
  * `jax.lax.cond(c, t, f, *ops)`: `t(*ops)` if c else `f(*ops)`, leaf-wise (both branches are evaluated symbolically).
  * `jax.lax.fori_loop(lo, hi, body, init)`: the loop `for i in range(lo, hi): val = body(i, val)` -- handled with the
    invariant rule (`FORI` registry: init / preserve obligations on the REAL body function, havoc + invariant afterwards).
  * `jax.vmap(f, in_axes, out_axes)`: the point-wise map over the mapped axis.
  * `jax.random.split(key, num)`: `num` keys, a function of `key`; `jax.random.uniform(key, shape)` in [0, 1) (minval/maxval
    scaled), `jax.random.laplace(key, shape)` finite -- all functions of the key (no other source of randomness).
  * `tfd.Categorical(logits=L).sample(sample_shape, seed)`: int array of shape sample_shape + L.shape[:-1] with values k in
    [0, K), K = L.shape[-1]; if some logit of the row is NaN: k is the first NaN position; else if some logit is > -inf:
    L[row, k] > -inf; else k = 0.
  * `jax.tree_util.tree_map / tree_leaves` over flax `struct.dataclass` / `eqx.Module` records (fields marked
    `pytree_node=False` / `static=True` are not leaves), tuples, lists and None.

Value classes: every numeric array additionally carries (lazily) an over-approximation of the classes
neg | zero | pos | +inf | -inf | nan its elements can take; the abstract transformer of an element-wise operation is derived
from its concrete scalar semantics by z3, see "value classes" below.  Used for NaN-freedom obligations.

Concrete shapes: when every extent is a python int all library facts are expanded (quantifier-free), `jx_unroll_fori` unrolls
`fori_loop`; contracts use this as the model-query twin of a symbolic proof attempt.

Everything registers itself through `engine.EXTERNAL` and the hooks of `pyvc.models` (previous hooks are chained); functions
of `pyvc.models` without a hook are wrapped (not edited): `compare`, `unary`, the builtins `int` / `range`.
"""
import ast
import itertools
import math

import z3

from . import engine as E
from . import models as M
from . import protomodel as pm
from . import xreal
from . import attrs_model as AM
from .engine import Unsupported, PyRaise, PathEnd, Builtin, EXTERNAL, Obj, ExtRef, FuncVal, Bound
from .protomodel import SymList
from .source import ClassInfo

X = xreal
_uid = itertools.count()
SORTS = {'float': X.XReal, 'int': z3.IntSort(), 'bool': z3.BoolSort()}

TRUST = [
    'jax.numpy / numpy array semantics as modelled in pyvc/jx_model.py (arrays as total functions; broadcasting, slicing, '
    'gather with wrap-then-clamp of traced indices, where/concatenate/reshape/flip/squeeze/expand_dims, .at[].set/.add); '
    'every listed contract is run against the real library by replay/c19_conformance.py',
    'jnp.argpartition: permutation; partition property only when no element is NaN',
    'jnp.argsort: permutation; jnp.argmin/argmax: index within the axis; jnp.clip keeps NaN',
    'jax.lax.cond / fori_loop / dynamic_slice_in_dim / dynamic_update_slice_in_dim, jax.vmap, jax.tree_util.tree_map',
    'jax.random.split/uniform/laplace are functions of the key; uniform in [minval, maxval); laplace finite',
    'tfd.Categorical(logits).sample: index in [0, K); first NaN logit if any, else a position whose logit is > -inf if any, else 0',
    'float arithmetic on finite values is mathematical (no rounding, no overflow); matmul / float sums / exp / log / max are uninterpreted',
]


# ------------------------------------------------------------------------------------------ small helpers
def conc(n):
    if isinstance(n, bool):
        return int(n)
    if isinstance(n, int):
        return n
    if not z3.is_expr(n):
        return None
    s = z3.simplify(n)
    return s.as_long() if z3.is_int_value(s) else None


def zi(i):
    if isinstance(i, bool):
        return z3.IntVal(int(i))
    if isinstance(i, int):
        return z3.IntVal(i)
    if z3.is_expr(i) and i.sort() == z3.BoolSort():
        return z3.If(i, z3.IntVal(1), z3.IntVal(0))
    return i


def norm(n):
    c = conc(n)
    return c if c is not None else z3.simplify(n)


def zb(c):
    return z3.BoolVal(c) if isinstance(c, bool) else c


def is_scalar(v):
    return isinstance(v, (bool, int, float)) or (z3.is_expr(v) and v.sort() in (X.XReal, z3.IntSort(), z3.BoolSort(), z3.RealSort()))


def QA(n, body, lo=0):
    """forall lo <= j < n. body(j); expanded when the range is concrete."""
    c, l = conc(n), conc(lo)
    if c is not None and l is not None:
        cs = [zb(body(z3.IntVal(j))) for j in range(l, c)]
        return z3.And(*cs) if cs else z3.BoolVal(True)
    j = z3.Int('q!%d' % next(_uid))
    return z3.ForAll([j], z3.Implies(z3.And(j >= lo, j < n), zb(body(j))))


def QE(n, body, lo=0):
    c, l = conc(n), conc(lo)
    if c is not None and l is not None:
        cs = [zb(body(z3.IntVal(j))) for j in range(l, c)]
        return z3.Or(*cs) if cs else z3.BoolVal(False)
    j = z3.Int('q!%d' % next(_uid))
    return z3.Exists([j], z3.And(j >= lo, j < n, zb(body(j))))


def QAN(shape, body):
    """forall index tuples within `shape`. body(*idx); concrete axes are expanded, symbolic ones quantified."""
    shape = tuple(shape)
    if not shape:
        return zb(body())
    return QA(shape[0], lambda j: QAN(shape[1:], lambda *rest: body(j, *rest)))


def ALL(k, body, pats=None, shape=None):
    """forall over k integer variables.  With a fully concrete `shape` the fact is expanded over the index tuples of that
    shape (quantifier-free); otherwise it is stated unguarded (facts about total functions: values outside the shape are
    never read by the code, and every fact stated this way is about fresh symbols and satisfiable at every index)."""
    if k == 0:
        return zb(body())
    if shape is not None and len(shape) == k and all(conc(d) is not None for d in shape):
        cs = [zb(body(*[z3.IntVal(i) for i in idx])) for idx in itertools.product(*[range(conc(d)) for d in shape])]
        return z3.And(*cs) if cs else z3.BoolVal(True)
    vs = [z3.Int('u!%d' % next(_uid)) for _ in range(k)]
    b = zb(body(*vs))
    if pats is not None:
        ps = pats(*vs)
        return z3.ForAll(vs, b, patterns=ps if isinstance(ps, list) else [ps])
    return z3.ForAll(vs, b)


# ---- vmap lifting context: fresh symbols created while a mapped function is evaluated at the symbolic index J depend on J
LIFT = []        # stack of (J, extent)


def fresh_fn(it, name, arity, sort):
    run = it.run
    run.fresh_n += 1
    js = [J for J, _ in LIFT]
    F = z3.Function('%s!%d' % (name, run.fresh_n), *([z3.IntSort()] * (len(js) + arity) + [sort]))
    return lambda *idx: F(*(js + [zi(i) for i in idx]))


def fresh_const(it, name, sort):
    if not LIFT:
        return it.run.fresh(name, sort)
    return fresh_fn(it, name, 0, sort)()


def fact(it, f):
    """library / language fact.  Quantified -> Run.axiom (never seen by the path solver), else Run.assume."""
    if isinstance(f, bool):
        if not f:
            raise PathEnd()
        return
    if LIFT and all(conc(n) is not None for _, n in LIFT):
        # concrete mapped extents: expanded over the mapped indices (quantifier-free)
        js = [J for J, _ in LIFT]
        cs = [z3.substitute(f, *[(J, z3.IntVal(v)) for J, v in zip(js, vals)]) for vals in itertools.product(*[range(conc(n)) for _, n in LIFT])]
        f = z3.And(*cs) if cs else z3.BoolVal(True)
    elif LIFT:
        js = [J for J, _ in LIFT]
        # unguarded in the mapped indices: the fresh symbols of the mapped evaluation are total functions of J, and every
        # library fact stated here is satisfiable for any J (conservative extension), cf. the module docstring
        f = z3.ForAll(js, f)
    if E._has_quantifier(f):
        it.run.axiom(f)
        return
    f = z3.simplify(f)
    if z3.is_true(f):
        return
    it.run.assume(f)


def implied(it, cond):
    if isinstance(cond, bool):
        return cond
    c = z3.simplify(cond)
    if z3.is_true(c):
        return True
    if z3.is_false(c):
        return False
    if it.pure:
        return False
    return not it.run.feasible(z3.Not(c))


def same_dim(it, x, y):
    if isinstance(x, int) and isinstance(y, int):
        return x == y
    if z3.is_expr(x) and z3.is_expr(y) and x.eq(y):
        return True
    return implied(it, zi(x) == zi(y))


# ------------------------------------------------------------------------------------------ dtypes
class DType:
    def __init__(self, kind, name=None):
        self.kind, self.name = kind, name or kind

    def __repr__(self):
        return '<dtype %s>' % self.name


def dtype_arg(d, default=None):
    if d is None:
        return default
    if isinstance(d, DType):
        return d.kind
    if isinstance(d, str):
        name = d
    elif isinstance(d, Builtin):
        name = d.name
    elif isinstance(d, ExtRef):
        name = d.dotted.split('.')[-1]
    elif isinstance(d, E.BuiltinClass):
        name = d.name
    else:
        raise Unsupported('dtype %r' % (d,))
    if 'bool' in name:
        return 'bool'
    if 'int' in name:
        return 'int'
    if 'float' in name or 'double' in name:
        return 'float'
    raise Unsupported('dtype %r' % (d,))


def dtype_of(v):
    if isinstance(v, JArr):
        return v.dtype
    if isinstance(v, bool):
        return 'bool'
    if isinstance(v, int):
        return 'int'
    if isinstance(v, float):
        return 'float'
    if z3.is_expr(v):
        s = v.sort()
        if s == z3.BoolSort():
            return 'bool'
        if s == z3.IntSort():
            return 'int'
        if s in (X.XReal, z3.RealSort()):
            return 'float'
    raise Unsupported('array element %r' % (v,))


def promote(*dts):
    return 'float' if 'float' in dts else 'int' if 'int' in dts else 'bool'


def elem_of(v, dtype):
    """python scalar / z3 term -> z3 term of the element sort of `dtype`."""
    s = SORTS[dtype]
    if z3.is_expr(v):
        if v.sort() == s:
            return v
        if dtype == 'float':
            return X.lift(v) if v.sort() != z3.RealSort() else X.fin(v)
        if dtype == 'int' and v.sort() == z3.BoolSort():
            return zi(v)
        if dtype == 'bool' and v.sort() == z3.IntSort():
            return v != 0
        if dtype == 'bool' and v.sort() == X.XReal:
            return X.truth(v)
        if dtype == 'int' and v.sort() == X.XReal:
            return z3.ToInt(X.r(v))        # truncation of finite values is not modelled beyond floor
        raise Unsupported('array element of sort %s stored into a %s array' % (v.sort(), dtype))
    if dtype == 'float':
        return X.lit(v)
    if dtype == 'int':
        return z3.IntVal(int(v))
    return z3.BoolVal(bool(v))


# ------------------------------------------------------------------------------------------ the array value
class JArr:
    def __init__(self, shape, dtype, fn, is_np=False, src=None, kfn=None):
        self.shape = tuple(norm(zi(s)) if not isinstance(s, int) else s for s in shape)
        self.dtype, self.fn, self.is_np = dtype, fn, is_np
        self.ghost = {}
        # value classes (see "value classes" below): src = arrays / scalars whose classes are united, kfn = thunk -> classes
        self._src, self._kfn, self._kinds = src, kfn, None

    @property
    def rank(self):
        return len(self.shape)

    def at(self, *idx):
        return self.fn(*[zi(i) for i in idx])

    def copy(self):
        r = JArr(self.shape, self.dtype, self.fn, self.is_np, src=[self])
        r.ghost = dict(self.ghost)
        return r

    def __repr__(self):
        return '<jarr %s %s>' % (self.dtype, 'x'.join(str(s) for s in self.shape) or 'scalar')


# ------------------------------------------------------------------------------------------ value classes (abstract interpretation)
# Every numeric array carries an over-approximation of the CLASSES its elements can belong to:
#     neg | zero | pos (finite)  |  pinf | ninf | nan
# computed lazily.  For element-wise operations the abstract transformer is DERIVED from the concrete scalar semantics by
# z3 (one tiny quantifier-free query per class: "can f(x1..xn) be of class k when xi ranges over the classes of operand i,
# under the path condition?"; `unknown` counts as possible), so there is no hand-written transfer table to get wrong.
# Structural operations (slices, gathers, where-merges, concatenations ...) unite the classes of their sources; reductions
# have explicit rules (a sum of finite values is finite -- "machine arithmetic treated as mathematical").
KCLS = ('neg', 'zero', 'pos', 'pinf', 'ninf', 'nan')
TOP = frozenset(KCLS)
FINITE = frozenset(('neg', 'zero', 'pos'))
NONNEG = frozenset(('zero', 'pos'))
A_LAPLACE = ('jax.random.laplace never returns exactly 0 nor +-inf (measured natively: 0 zeros in 1e8 draws; used only by the '
             'NaN-freedom analysis of the Eagle mutation noise, where the noise is divided by its own maximum magnitude)')


def top_of(dtype):
    return TOP if dtype == 'float' else FINITE if dtype == 'int' else NONNEG


def kpred(k, t):
    if X.is_x(t):
        if k == 'neg':
            return z3.And(X.is_fin(t), X.r(t) < 0)
        if k == 'zero':
            return z3.And(X.is_fin(t), X.r(t) == 0)
        if k == 'pos':
            return z3.And(X.is_fin(t), X.r(t) > 0)
        return {'pinf': X.is_pinf, 'ninf': X.is_ninf, 'nan': X.is_nan}[k](t)
    if t.sort() == z3.BoolSort():
        return t if k == 'pos' else z3.Not(t) if k == 'zero' else z3.BoolVal(False)
    if k == 'neg':
        return t < 0
    if k == 'zero':
        return t == 0
    if k == 'pos':
        return t > 0
    return z3.BoolVal(False)


def _uf_lemmas(t):
    """instances of the sign / class facts of the uninterpreted scalar functions occurring in t."""
    out, seen, todo = [BIG > 0], set(), [t]
    while todo:
        x = todo.pop()
        if not z3.is_expr(x) or x.get_id() in seen:
            continue
        seen.add(x.get_id())
        todo.extend(x.children())
        if not z3.is_app(x):
            continue
        nm = x.decl().name()
        if nm == 'jx_exp':
            a = x.arg(0)
            out.append(z3.If(X.is_nan(a), X.is_nan(x), z3.If(X.is_pinf(a), X.is_pinf(x), z3.If(X.is_ninf(a), X.is_zero(x), z3.And(X.is_fin(x), X.r(x) > 0)))))
        elif nm == 'jx_log':
            a = x.arg(0)
            out.append(z3.If(X.is_nan(a), X.is_nan(x), z3.If(X.is_pinf(a), X.is_pinf(x), z3.If(X.is_ninf(a), X.is_nan(x),
                       z3.If(X.r(a) > 0, X.is_fin(x), z3.If(X.r(a) == 0, X.is_ninf(x), X.is_nan(x)))))))
        elif nm == 'jx_rmul':
            a, b = x.arg(0), x.arg(1)
            out.append(z3.And(z3.Implies(z3.Or(a == 0, b == 0), x == 0), z3.Implies(z3.Or(z3.And(a > 0, b > 0), z3.And(a < 0, b < 0)), x > 0),
                              z3.Implies(z3.Or(z3.And(a > 0, b < 0), z3.And(a < 0, b > 0)), x < 0)))
        elif nm == 'jx_rdiv':
            a, b = x.arg(0), x.arg(1)
            out.append(z3.Implies(b != 0, z3.And(z3.Implies(a == 0, x == 0), z3.Implies(z3.Or(z3.And(a > 0, b > 0), z3.And(a < 0, b < 0)), x > 0),
                                                 z3.Implies(z3.Or(z3.And(a > 0, b < 0), z3.And(a < 0, b > 0)), x < 0))))
    return out


def scalar_kinds(v, it=None):
    if isinstance(v, bool):
        return frozenset(('pos',)) if v else frozenset(('zero',))
    if isinstance(v, (int, float)):
        if isinstance(v, float) and math.isnan(v):
            return frozenset(('nan',))
        if isinstance(v, float) and math.isinf(v):
            return frozenset(('pinf',)) if v > 0 else frozenset(('ninf',))
        return frozenset(('pos',)) if v > 0 else frozenset(('neg',)) if v < 0 else frozenset(('zero',))
    return derive_kinds(it, lambda x: x, [v], dtype_of(v))


def kinds(v, it=None):
    if isinstance(v, JArr):
        if v._kinds is None:
            if v._kfn is not None:
                v._kinds = frozenset(v._kfn())
            elif v._src is not None:
                ks = frozenset()
                for x in v._src:
                    ks = ks | (kinds(x, it) if (isinstance(x, JArr) or is_scalar(x)) else top_of(v.dtype))
                v._kinds = ks & top_of(v.dtype) if v.dtype != 'float' else ks
            else:
                v._kinds = top_of(v.dtype)
        return v._kinds
    if is_scalar(v):
        return scalar_kinds(v, it)
    return TOP


KSTATS = {'queries': 0, 'time': 0.0}
RESIDUAL_SELFNORM = [False]      # residual mode of the self-normalisation finding: x / jnp.sum(x, ...) never divides by zero


class KOverride:
    def __init__(self, arr, kinds_):
        self.arr, self.kinds = arr, frozenset(kinds_)



def derive_kinds(it, f, args, out_dtype):
    """classes of f(args) element-wise, derived from the scalar semantics by z3 (over-approximation)."""
    import time as _time
    if out_dtype == 'bool':
        return NONNEG
    t0 = _time.time()
    s = z3.Solver()
    s.set('rlimit', 3000 * 2500)          # deterministic budget; the wall clock is a safety net only
    s.set('timeout', 120000)
    vals = []
    for a in args:
        override = None
        if isinstance(a, KOverride):
            a, override = a.arr, a.kinds
        if isinstance(a, JArr):
            if a.dtype == 'bool':
                vals.append(z3.Bool('kb!%d' % next(_uid)))
                continue
            ks = kinds(a, it) if override is None else override
            if not ks:
                return frozenset()
            v = z3.Const('kv!%d' % next(_uid), SORTS[a.dtype])
            s.add(z3.Or(*[kpred(k, v) for k in ks]))
            vals.append(v)
        else:
            vals.append(a)
    DERIVING[0] = True
    try:
        t = f(*vals)
        t = elem_of(t, out_dtype)
    except Unsupported:
        return top_of(out_dtype)
    finally:
        DERIVING[0] = False
    if it is not None:
        for c in it.run.pc:
            s.add(c)
    for l in _uf_lemmas(t):
        s.add(l)
    out = set()
    for k in top_of(out_dtype):
        s.push()
        s.add(kpred(k, t))
        KSTATS['queries'] += 1
        if s.check() != z3.unsat:
            out.add(k)
        s.pop()
    KSTATS['time'] += _time.time() - t0
    return frozenset(out)


def sum_kinds(ks, count_nonneg=False):
    """classes of a sum over an axis of elements of classes ks (finite sums of finite values are finite)."""
    if not ks:
        return frozenset(('zero',))
    out = set()
    fin = ks & FINITE
    if fin:
        if fin <= NONNEG:
            out |= NONNEG if 'pos' in fin else {'zero'}
        elif fin <= frozenset(('neg', 'zero')):
            out |= {'neg', 'zero'} if 'neg' in fin else {'zero'}
        else:
            out |= FINITE
        out.add('zero')          # the empty sum
    if 'pinf' in ks:
        out.add('pinf')
    if 'ninf' in ks:
        out.add('ninf')
    if 'nan' in ks or ('pinf' in ks and 'ninf' in ks):
        out.add('nan')
    return frozenset(out)


def const_array(shape, dtype, v):
    t = elem_of(v, dtype)
    return JArr(shape, dtype, lambda *idx: t, src=[t])


def fresh_array(it, name, shape, dtype, kinds_=None, kfn=None):
    f = fresh_fn(it, name, len(tuple(shape)), SORTS[dtype])
    r = JArr(shape, dtype, lambda *idx: f(*idx), kfn=kfn)
    if kinds_ is not None:
        r._kinds = frozenset(kinds_)
    return r


def as_arr(it, v, dtype=None):
    """JArr / scalar / nested python sequence -> JArr (rank 0 for scalars)."""
    if isinstance(v, JArr):
        return astype(v, dtype) if dtype is not None and dtype != v.dtype else v
    if is_scalar(v):
        dt = dtype or dtype_of(v)
        t = elem_of(v, dt)
        return JArr((), dt, lambda: t, src=[t])
    if isinstance(v, SymList) and v.elem in ('float', 'bool', 'int'):
        arr = v.arr
        r = JArr((v.n,), v.elem, lambda j: z3.Select(arr, j))
        return astype(r, dtype) if dtype is not None and dtype != r.dtype else r
    xs = M.try_iterate(it, v)
    if xs is None:
        raise Unsupported('array from %r' % (v,))
    if not xs:
        dt = dtype or 'float'
        return JArr((0,), dt, lambda j: elem_of(0, dt), src=[])
    rows = [as_arr(it, x, dtype) for x in xs]
    dt = dtype or promote(*[r.dtype for r in rows])
    rows = [astype(r, dt) for r in rows]
    sh = rows[0].shape
    for r in rows[1:]:
        if r.rank != len(sh) or not all(same_dim(it, a, b) for a, b in zip(sh, r.shape)):
            raise Unsupported('ragged nested sequence as an array')

    def fn(i, *rest):
        out = rows[-1].fn(*rest)
        for a in range(len(rows) - 2, -1, -1):
            out = z3.If(i == a, rows[a].fn(*rest), out)
        return out
    return JArr((len(rows),) + tuple(sh), dt, fn, src=rows)


def unwrap0(a):
    """rank-0 JArr -> its scalar term."""
    if isinstance(a, JArr) and a.rank == 0:
        return a.fn()
    return a


def astype(a, dt):
    if a.dtype == dt:
        return a
    f = a.fn
    r = JArr(a.shape, dt, lambda *idx: elem_of(f(*idx), dt), a.is_np, kfn=lambda: derive_kinds(None, lambda x: elem_of(x, dt), [a], dt))
    if dt == 'int':
        r.ghost = dict(a.ghost)
    return r


def size_of(it, a):
    cs = [conc(s) for s in a.shape]
    if all(c is not None for c in cs):
        return int(math.prod(cs))
    if any(c == 0 for c in cs):
        return 0
    s = fresh_const(it, 'size', z3.IntSort())
    fact(it, z3.And(s >= 0, (s > 0) == z3.And(*[zi(d) > 0 for d in a.shape])))
    return s


# ------------------------------------------------------------------------------------------ scalar operations
RMUL = z3.Function('jx_rmul', z3.RealSort(), z3.RealSort(), z3.RealSort())
RDIV = z3.Function('jx_rdiv', z3.RealSort(), z3.RealSort(), z3.RealSort())
F_EXP = z3.Function('jx_exp', X.XReal, X.XReal)
F_LOG = z3.Function('jx_log', X.XReal, X.XReal)
F_POW = z3.Function('jx_pow', X.XReal, X.XReal, X.XReal)
BIG = z3.Const('jx_float_max', z3.RealSort())


def _is_num(t):
    t = z3.simplify(t)
    return z3.is_rational_value(t) or z3.is_int_value(t)


def rmul(a, b):
    if _is_num(a) or _is_num(b):
        return a * b
    return RMUL(a, b)


def rdiv(a, b):
    if _is_num(b):
        return a / b
    return RDIV(a, b)


DERIVING = [False]       # inside derive_kinds (abstract operands): library facts about throw-away operands are not recorded


def xmul(a, b):
    return z3.If(z3.Or(X.is_nan(a), X.is_nan(b)), X.nan,
                 z3.If(z3.And(X.is_fin(a), X.is_fin(b)), X.fin(rmul(X.r(a), X.r(b))),
                       z3.If(z3.Or(X.is_zero(a), X.is_zero(b)), X.nan,
                             z3.If(X.sign_pos(a) == X.sign_pos(b), X.pinf, X.ninf))))


def xdiv(a, b):
    fin_case = z3.If(X.r(b) != 0, X.fin(rdiv(X.r(a), X.r(b))),
                     z3.If(X.r(a) > 0, X.pinf, z3.If(X.r(a) < 0, X.ninf, X.nan)))
    a_inf = z3.Or(X.is_pinf(a), X.is_ninf(a))
    b_inf = z3.Or(X.is_pinf(b), X.is_ninf(b))
    return z3.If(z3.Or(X.is_nan(a), X.is_nan(b)), X.nan,
                 z3.If(z3.And(X.is_fin(a), X.is_fin(b)), fin_case,
                       z3.If(z3.And(a_inf, b_inf), X.nan,
                             z3.If(b_inf, X.fin(z3.RealVal(0)),
                                   z3.If(z3.And(X.is_fin(b), X.r(b) < 0), X.neg(a), a)))))


def xmax(a, b):
    return z3.If(z3.Or(X.is_nan(a), X.is_nan(b)), X.nan, z3.If(X.lt(a, b), b, a))


def xmin(a, b):
    return z3.If(z3.Or(X.is_nan(a), X.is_nan(b)), X.nan, z3.If(X.lt(b, a), b, a))


def xabs(a):
    return z3.If(X.is_fin(a), X.fin(z3.If(X.r(a) < 0, -X.r(a), X.r(a))), z3.If(X.is_nan(a), X.nan, X.pinf))


def xclip(x, lo, hi):
    """jnp.clip: NaN stays NaN; otherwise minimum(maximum(x, lo), hi)."""
    return xmin(xmax(x, lo), hi)


def int_floordiv(a, b):
    a, b = zi(a), zi(b)
    return z3.If(b > 0, a / b, z3.If(a % b == 0, a / b, a / b - 1))


def _fl(v):
    return v if X.is_x(v) else X.lift(v)


_CMP = (ast.Lt, ast.LtE, ast.Gt, ast.GtE, ast.Eq, ast.NotEq)


def sop(it, op, x, y):
    """one scalar binary operation with numpy semantics (no forking)."""
    px, py = not z3.is_expr(x), not z3.is_expr(y)
    dx, dy = dtype_of(x), dtype_of(y)
    if isinstance(op, _CMP):
        if px and py:
            return {ast.Lt: x < y, ast.LtE: x <= y, ast.Gt: x > y, ast.GtE: x >= y, ast.Eq: x == y, ast.NotEq: x != y}[type(op)]
        if 'float' in (dx, dy):
            a, b = _fl(x), _fl(y)
            return {ast.Lt: X.lt, ast.LtE: X.le, ast.Gt: X.gt, ast.GtE: X.ge, ast.Eq: X.eq, ast.NotEq: X.ne}[type(op)](a, b)
        if dx == dy == 'bool' and isinstance(op, (ast.Eq, ast.NotEq)):
            return zb(x) == zb(y) if isinstance(op, ast.Eq) else zb(x) != zb(y)
        a, b = zi(x), zi(y)
        return {ast.Lt: a < b, ast.LtE: a <= b, ast.Gt: a > b, ast.GtE: a >= b, ast.Eq: a == b, ast.NotEq: a != b}[type(op)]
    if isinstance(op, (ast.BitAnd, ast.BitOr, ast.BitXor)):
        if dx == dy == 'bool':
            if isinstance(op, ast.BitAnd):
                return E.zand(x, y)
            if isinstance(op, ast.BitOr):
                return E.zor(x, y)
            return z3.Xor(zb(x), zb(y))
        raise Unsupported('bitwise operator on non-boolean elements')
    if px and py:
        try:
            if isinstance(op, ast.Add):
                return x + y
            if isinstance(op, ast.Sub):
                return x - y
            if isinstance(op, ast.Mult):
                return x * y
            if isinstance(op, ast.Div):
                return x / y
            if isinstance(op, ast.FloorDiv):
                return x // y
            if isinstance(op, ast.Mod):
                return x % y
            if isinstance(op, ast.Pow):
                return x ** y
        except ZeroDivisionError:
            pass
        except OverflowError:
            pass
    if isinstance(op, ast.Div) and dx == 'int' and dy == 'int':
        # python int / int: the exact rational (z3 real division); int / 0 is not modelled (ZeroDivisionError in python)
        return X.fin(z3.ToReal(zi(x)) / z3.ToReal(zi(y)))
    if isinstance(op, ast.Div) or 'float' in (dx, dy):
        a, b = _fl(x), _fl(y)
        if isinstance(op, ast.Add):
            return X.add(a, b)
        if isinstance(op, ast.Sub):
            return X.sub(a, b)
        if isinstance(op, ast.Mult):
            return xmul(a, b)
        if isinstance(op, ast.Div):
            return xdiv(a, b)
        if isinstance(op, ast.Pow):
            if py and isinstance(y, int) and not isinstance(y, bool) and 0 < y <= 4:
                out = a
                for _ in range(y - 1):
                    out = xmul(out, a)
                return out
            res = F_POW(a, b)
            if not DERIVING[0] and it is not None and hasattr(it, 'run'):
                # the only fact about the uninterpreted power: a positive finite base to a finite exponent is finite and non-negative
                fact(it, z3.Implies(z3.And(X.is_fin(a), X.r(a) > 0, X.is_fin(b)), z3.And(X.is_fin(res), X.r(res) >= 0)))
            return res
        raise Unsupported('float operator %s' % type(op).__name__)
    a, b = zi(x), zi(y)
    if isinstance(op, ast.Add):
        return a + b
    if isinstance(op, ast.Sub):
        return a - b
    if isinstance(op, ast.Mult):
        return a * b
    if isinstance(op, ast.FloorDiv):
        return int_floordiv(a, b)
    if isinstance(op, ast.Mod):
        return a - b * int_floordiv(a, b)
    if isinstance(op, ast.Pow) and py and isinstance(y, int) and 0 < y <= 4:
        out = a
        for _ in range(y - 1):
            out = out * a
        return out
    raise Unsupported('int operator %s' % type(op).__name__)


def result_dtype(op, da, db):
    if isinstance(op, _CMP):
        return 'bool'
    if isinstance(op, (ast.BitAnd, ast.BitOr, ast.BitXor)):
        return 'bool'
    if isinstance(op, ast.Div):
        return 'float'
    p = promote(da, db)
    return 'int' if p == 'bool' else p


# ------------------------------------------------------------------------------------------ broadcasting
def bshape(it, shapes):
    """numpy broadcast of shapes whose extents are python ints or z3 terms (decided syntactically / by the path condition)."""
    rank = max(len(s) for s in shapes)
    out = []
    for k in range(1, rank + 1):
        d = None
        for s in shapes:
            if len(s) < k:
                continue
            e = s[-k]
            if isinstance(e, int) and e == 1:
                if d is None:
                    d = 1
                continue
            if d is None or (isinstance(d, int) and d == 1):
                d = e
                continue
            if not same_dim(it, d, e):
                if isinstance(d, int) and isinstance(e, int):
                    raise PyRaise(it.make_exc('ValueError', ['Incompatible shapes for broadcasting: %s' % (shapes,)]))
                raise Unsupported('cannot decide the broadcast of extents %s and %s' % (d, e))
        out.append(d)
    return tuple(reversed(out))


def bidx(shape, idx):
    """index tuple of a broadcast result -> index tuple into an operand of shape `shape`."""
    k = len(shape)
    sub = idx[len(idx) - k:] if k else ()
    return tuple(z3.IntVal(0) if (isinstance(s, int) and s == 1) else i for s, i in zip(shape, sub))


def emap(it, f, args, dtype):
    """element-wise map with broadcasting.  f(*scalars) -> scalar term / python value."""
    arrs = [a for a in args if isinstance(a, JArr)]
    if not arrs:
        return f(*args)
    sh = bshape(it, [a.shape for a in arrs])
    if not sh:
        return elem_of(f(*[unwrap0(a) for a in args]), dtype)

    def fn(*idx):
        vals = [(a.fn(*bidx(a.shape, idx)) if isinstance(a, JArr) else a) for a in args]
        return elem_of(f(*vals), dtype)
    return JArr(sh, dtype, fn, is_np=all(a.is_np for a in arrs), kfn=lambda: derive_kinds(it, f, args, dtype))


def elementwise(it, op, a, b):
    dt = result_dtype(op, dtype_of(a), dtype_of(b))
    f = lambda x, y: sop(it, op, x, y)
    res = emap(it, f, [a, b], dt)
    if isinstance(op, ast.Div) and isinstance(b, JArr) and isinstance(res, JArr) and b.ghost.get('sum_of') is a:
        # self-normalisation x / sum(x): recorded; in residual mode of the recorded finding the divisor is taken non-zero
        it.run.__dict__.setdefault('jx_selfnorm', []).append((a, b))
        res._kfn = lambda: derive_kinds(it, f, [a, KOverride(b, kinds(b, it) - {'zero'}) if RESIDUAL_SELFNORM[0] else b], dt)
    return res


_orig_compare = M.compare
_orig_unary = M.unary


def _compare(it, op, l, r):
    if isinstance(l, JArr) or isinstance(r, JArr):
        if isinstance(op, _CMP):
            if (isinstance(l, JArr) or is_scalar(l)) and (isinstance(r, JArr) or is_scalar(r)):
                return elementwise(it, op, l, r)
            if isinstance(op, ast.Eq):
                return False
            if isinstance(op, ast.NotEq):
                return True
        if isinstance(op, (ast.Is, ast.IsNot)):
            return (l is r) == isinstance(op, ast.Is)
        raise Unsupported('comparison %s on arrays' % type(op).__name__)
    if isinstance(op, _CMP) and (X.is_x(l) or X.is_x(r)) and is_scalar(l) and is_scalar(r):
        return sop(it, op, l, r)
    return _orig_compare(it, op, l, r)


def _unary(it, op, v):
    if isinstance(v, JArr):
        f = v.fn
        if isinstance(op, ast.Invert) and v.dtype == 'bool':
            return JArr(v.shape, 'bool', lambda *i: z3.Not(f(*i)), v.is_np)
        if isinstance(op, ast.USub) and v.dtype in ('float', 'int'):
            if v.dtype == 'float':
                return JArr(v.shape, 'float', lambda *i: X.neg(f(*i)), v.is_np, kfn=lambda: derive_kinds(it, X.neg, [v], 'float'))
            return JArr(v.shape, 'int', lambda *i: -f(*i), v.is_np, kfn=lambda: derive_kinds(it, lambda x: -x, [v], 'int'))
        if isinstance(op, ast.UAdd):
            return v
        raise Unsupported('unary %s on a %s array' % (type(op).__name__, v.dtype))
    if isinstance(op, ast.Invert) and z3.is_expr(v) and v.sort() == z3.BoolSort():
        return z3.Not(v)
    return _orig_unary(it, op, v)


M.compare = _compare
M.unary = _unary

_prev_binop = M.binop_hook
_ARITH = (ast.Add, ast.Sub, ast.Mult, ast.Div, ast.FloorDiv, ast.Mod, ast.Pow, ast.BitAnd, ast.BitOr, ast.BitXor)


def _binop(it, op, l, r, inplace):
    if isinstance(l, JArr) or isinstance(r, JArr):
        if isinstance(op, ast.MatMult):
            return matmul(it, l, r)
        if not ((isinstance(l, JArr) or is_scalar(l)) and (isinstance(r, JArr) or is_scalar(r))):
            raise Unsupported('operator %s on %r and %r' % (type(op).__name__, l, r))
        res = elementwise(it, op, l, r)
        if inplace and isinstance(l, JArr) and l.is_np and isinstance(res, JArr) and len(res.shape) == l.rank:
            l.fn, l.dtype = res.fn, res.dtype
            l.ghost = {}
            return M.INPLACE_DONE
        return res
    if isinstance(l, OpaqueVal) or isinstance(r, OpaqueVal):
        return OpaqueVal('binop')
    if isinstance(op, _ARITH) and is_scalar(l) and is_scalar(r) and (z3.is_expr(l) or z3.is_expr(r)):
        fl = 'float' in (dtype_of(l), dtype_of(r))
        if fl or isinstance(op, (ast.Div, ast.Pow)) or it.pure or LIFT:
            if not (isinstance(op, (ast.BitAnd, ast.BitOr, ast.BitXor)) and not (dtype_of(l) == dtype_of(r) == 'bool')):
                return sop(it, op, l, r)
    return _prev_binop(it, op, l, r, inplace)


M.binop_hook = _binop


class OpaqueVal:
    """a value the properties never look at (wall-clock time, logging payloads)."""

    def __init__(self, what):
        self.what = what

    def __repr__(self):
        return '<opaque %s>' % self.what


# ------------------------------------------------------------------------------------------ indexing
def wrap_clamp(it, i, n, clamp=True):
    """traced index -> position: negative indices wrap once, then the position is clamped into [0, n-1]."""
    iz, nz = zi(i), zi(n)
    if isinstance(i, int) and not isinstance(i, bool):
        cn = conc(n)
        if cn is not None:
            if not -cn <= i < cn:
                raise PyRaise(it.make_exc('IndexError', ['index %d is out of bounds for axis with size %d' % (i, cn)]))
            return z3.IntVal(i % cn)
        return z3.IntVal(i) if i >= 0 else z3.simplify(nz + i)
    if implied(it, z3.And(iz >= 0, iz < nz)):
        return z3.simplify(iz)
    pos = z3.If(iz < 0, iz + nz, iz)
    if clamp:
        pos = z3.If(pos < 0, 0, z3.If(pos > nz - 1, nz - 1, pos))
    return pos


def _clip_bound(it, x, n, default):
    if x is None:
        return default
    x = unwrap0(x)
    if isinstance(x, int) and isinstance(n, int):
        if x < 0:
            x += n
        return min(max(x, 0), n)
    xz, nz = zi(x), zi(n)
    if isinstance(x, int) and x == 0:
        return 0
    if implied(it, z3.And(xz >= 0, xz <= nz)):
        return norm(xz)
    return norm(z3.If(xz < 0, z3.If(xz + nz < 0, 0, xz + nz), z3.If(xz > nz, nz, xz)))


def _slice(it, s, n):
    """(start, length) of a unit-step slice of an axis of extent n."""
    if unwrap0(s.step) not in (None, 1):
        raise Unsupported('slice with a step')
    lo = _clip_bound(it, s.start, n, 0)
    hi = _clip_bound(it, s.stop, n, n)
    if isinstance(lo, int) and isinstance(hi, int):
        return lo, max(hi - lo, 0)
    if isinstance(lo, int) and lo == 0:
        return 0, hi
    ln = zi(hi) - zi(lo)
    if not implied(it, ln >= 0):
        ln = z3.If(ln < 0, 0, ln)
    return lo, norm(z3.simplify(ln))


def _expand_index(a, idx):
    if not isinstance(idx, tuple):
        idx = (idx,)
    idx = tuple(idx)
    n_real = len([x for x in idx if x is not None and x is not Ellipsis])
    if n_real > a.rank:
        return None
    if any(x is Ellipsis for x in idx):
        k = [i for i, x in enumerate(idx) if x is Ellipsis]
        if len(k) > 1:
            return None
        fill = (slice(None, None, None),) * (a.rank - n_real)
        idx = idx[:k[0]] + fill + idx[k[0] + 1:]
    else:
        idx = idx + (slice(None, None, None),) * (a.rank - n_real)
    return idx


def getitem(it, a, idx):
    idx = _expand_index(a, idx)
    if idx is None:
        raise PyRaise(it.make_exc('IndexError', ['too many indices for array']))
    f = a.fn
    plan, out_shape = [], []       # plan: per input axis: ('fix', pos) | ('map', out_axis_slots, fn(out idx tuple)->pos)
    ax = 0
    adv = [x for x in idx if isinstance(x, JArr) and x.rank >= 1]
    if len(adv) > 1:
        raise Unsupported('more than one index array in a subscript')
    for x in idx:
        if x is None:
            out_shape.append(1)
            continue
        n = a.shape[ax]
        x = unwrap0(x)
        if isinstance(x, slice):
            lo, ln = _slice(it, x, n)
            k = len(out_shape)
            out_shape.append(ln)
            if isinstance(lo, int) and lo == 0:
                plan.append(lambda o, k=k: o[k])
            else:
                plan.append(lambda o, k=k, lz=zi(lo): o[k] + lz)
        elif isinstance(x, JArr):
            if x.dtype == 'bool':
                raise Unsupported('boolean-mask indexing')
            if x.dtype != 'int':
                raise PyRaise(it.make_exc('TypeError', ['arrays used as indices must be of integer type']))
            k0 = len(out_shape)
            out_shape.extend(x.shape)
            g, r = x.fn, x.rank
            if 'inrange' in x.ghost and same_dim(it, x.ghost['inrange'], n):
                # every in-range element of the index array is a valid position of this axis (argsort / argpartition)
                plan.append(lambda o, k0=k0, r=r, g=g: g(*o[k0:k0 + r]))
            else:
                plan.append(lambda o, k0=k0, r=r, g=g, n=n: wrap_clamp(it, g(*o[k0:k0 + r]), n))
        elif is_scalar(x):
            pos = wrap_clamp(it, x, n)
            plan.append(lambda o, pos=pos: pos)
        else:
            raise Unsupported('array index %r' % (x,))
        ax += 1
    if not out_shape:
        return f(*[p(()) for p in plan])
    res = JArr(out_shape, a.dtype, lambda *o: f(*[p(o) for p in plan]), a.is_np, src=[a])
    if 'inrange' in a.ghost and all(isinstance(x, slice) for x in idx):
        res.ghost['inrange'] = a.ghost['inrange']
    return res


def _region(it, a, idx):
    """(condition(index tuple) that the element is addressed, relative index tuple into the value) for a basic index."""
    idx = _expand_index(a, idx)
    if idx is None or any(x is None for x in idx):
        raise Unsupported('item assignment with this index')
    conds, rel = [], []
    for ax, x in enumerate(idx):
        n = a.shape[ax]
        x = unwrap0(x)
        if isinstance(x, slice):
            lo, ln = _slice(it, x, n)
            lz, lnz = zi(lo), zi(ln)
            conds.append(lambda i, ax=ax, lz=lz, lnz=lnz: z3.And(i[ax] >= lz, i[ax] < lz + lnz))
            rel.append((ax, lz))
        elif is_scalar(x):
            nz, xz = zi(n), zi(x)
            pos = xz if (isinstance(x, int) and x >= 0) else z3.If(xz < 0, xz + nz, xz)
            conds.append(lambda i, ax=ax, pos=pos, nz=nz: z3.And(i[ax] == pos, pos >= 0, pos < nz))
        else:
            raise Unsupported('item assignment through %r' % (x,))
    return (lambda i: z3.And(*[c(i) for c in conds])), rel


def updated(it, a, idx, v, mode):
    """functional update a.at[idx].set(v) / .add(v) (also numpy in-place assignment): returns the new closure."""
    cond, rel = _region(it, a, idx)
    old, dt = a.fn, a.dtype
    if isinstance(v, JArr) and v.rank > 0:
        if v.rank > len(rel):
            raise Unsupported('assignment of a rank-%d value into a rank-%d region' % (v.rank, len(rel)))
        rel_v = rel[len(rel) - v.rank:]
        vf, vshape = v.fn, v.shape

        def val(i):
            return vf(*bidx(vshape, tuple(i[ax] - lz for ax, lz in rel_v)))
    else:
        if not (isinstance(v, JArr) or is_scalar(v)):
            v = as_arr(it, v)
            return updated(it, a, idx, v, mode)
        sv = unwrap0(v)

        def val(i):
            return sv
    if mode == 'set':
        return lambda *i: z3.If(cond(i), elem_of(val(i), dt), old(*i))
    if mode == 'add':
        return lambda *i: z3.If(cond(i), elem_of(sop(it, ast.Add(), old(*i), val(i)), dt), old(*i))
    raise Unsupported('.at[].%s' % mode)


class AtProxy:
    def __init__(self, arr, idx=None):
        self.arr, self.idx = arr, idx


# ------------------------------------------------------------------------------------------ shape manipulation
def _shape_arg(it, s):
    s = unwrap0(s)
    if isinstance(s, JArr):
        raise Unsupported('array used as a shape')
    if isinstance(s, (list, tuple)):
        return tuple(norm(zi(unwrap0(x))) for x in s)
    return (norm(zi(s)),)


def prod_dims(ds):
    c, sym = 1, []
    for d in ds:
        k = conc(d)
        if k is not None:
            c *= k
        else:
            sym.append(zi(d))
    if c == 0 or not sym:
        return c
    out = sym[0]
    for s in sym[1:]:
        out = out * s
    return norm(out * c) if c != 1 else norm(out)


def _ravel(idx, shape):
    flat = None
    for k, i in enumerate(idx):
        stride = prod_dims(shape[k + 1:])
        term = zi(i) if (isinstance(stride, int) and stride == 1) else zi(i) * zi(stride)
        flat = term if flat is None else flat + term
    return flat if flat is not None else z3.IntVal(0)


def _unravel(flat, shape):
    out = []
    for k, d in enumerate(shape):
        stride = prod_dims(shape[k + 1:])
        q = flat if (isinstance(stride, int) and stride == 1) else flat / zi(stride)
        out.append(q if k == 0 else q % zi(d))
    return out


def reshape(it, a, new):
    new = list(new)
    src = list(a.shape)
    unknown = [k for k, d in enumerate(new) if isinstance(d, int) and d == -1]
    if len(unknown) > 1:
        raise PyRaise(it.make_exc('ValueError', ['can only specify one unknown dimension']))
    lo = 0
    while lo < len(src) and lo < len(new) and lo not in unknown and same_dim(it, src[lo], new[lo]):
        lo += 1
    hi = 0
    while hi < len(src) - lo and hi < len(new) - lo and (len(new) - 1 - hi) not in unknown and same_dim(it, src[-1 - hi], new[-1 - hi]):
        hi += 1
    in_mid, out_mid = src[lo:len(src) - hi], new[lo:len(new) - hi]
    if unknown:
        k = unknown[0] - lo
        others = [d for j, d in enumerate(out_mid) if j != k]
        if not others:
            out_mid[k] = prod_dims(in_mid)
        elif len(in_mid) == 1:
            o = prod_dims(others)
            out_mid[k] = norm(int_floordiv(in_mid[0], o)) if conc(o) is None or conc(in_mid[0]) is None else conc(in_mid[0]) // max(conc(o), 1)
        else:
            e = fresh_const(it, 'dim', z3.IntSort())
            fact(it, e >= 0)
            out_mid[k] = e
    out_shape = tuple(new[:lo]) + tuple(out_mid) + tuple(new[len(new) - hi:] if hi else ())
    f, nl, no, ni = a.fn, lo, len(out_mid), len(in_mid)
    if not in_mid and not out_mid:
        return JArr(out_shape, a.dtype, f, a.is_np, src=[a])

    def fn(*o):
        mid = o[nl:nl + no]
        flat = _ravel(mid, out_mid)
        return f(*(tuple(o[:nl]) + tuple(_unravel(flat, in_mid) if ni != 1 else [flat]) + tuple(o[nl + no:])))
    return JArr(out_shape, a.dtype, fn, a.is_np, src=[a])


def squeeze(it, a, axis):
    axes = [axis] if not isinstance(axis, (tuple, list)) else list(axis)
    if axis is None:
        axes = [k for k, d in enumerate(a.shape) if isinstance(d, int) and d == 1]
    axes = sorted(ax + a.rank if ax < 0 else ax for ax in axes)
    for ax in axes:
        if not same_dim(it, a.shape[ax], 1):
            raise PyRaise(it.make_exc('ValueError', ['cannot select an axis to squeeze out which has size not equal to one']))
    f, r = a.fn, a.rank
    keep = [k for k in range(r) if k not in axes]

    def fn(*o):
        full = [z3.IntVal(0)] * r
        for k, i in zip(keep, o):
            full[k] = i
        return f(*full)
    sh = tuple(a.shape[k] for k in keep)
    if not sh:
        return f(*[z3.IntVal(0)] * r)
    return JArr(sh, a.dtype, fn, a.is_np, src=[a])


def expand_dims(it, a, axis):
    if not isinstance(a, JArr):
        a = as_arr(it, a)
    ax = axis + a.rank + 1 if axis < 0 else axis
    f = a.fn
    sh = a.shape[:ax] + (1,) + a.shape[ax:]
    return JArr(sh, a.dtype, lambda *o: f(*(o[:ax] + o[ax + 1:])), a.is_np, src=[a])


def concatenate(it, arrs, axis=0):
    arrs = [as_arr(it, x) for x in arrs]
    if not arrs:
        raise PyRaise(it.make_exc('ValueError', ['need at least one array to concatenate']))
    r = arrs[0].rank
    if r == 0:
        raise PyRaise(it.make_exc('ValueError', ['zero-dimensional arrays cannot be concatenated']))
    ax = axis + r if axis < 0 else axis
    for b in arrs[1:]:
        if b.rank != r:
            raise PyRaise(it.make_exc('ValueError', ['all the input array dimensions must match']))
        for k in range(r):
            if k != ax and not same_dim(it, arrs[0].shape[k], b.shape[k]):
                if conc(arrs[0].shape[k]) is not None and conc(b.shape[k]) is not None:
                    raise PyRaise(it.make_exc('ValueError', ['concatenate: mismatching extents on axis %d' % k]))
                raise Unsupported('cannot decide the extents of concatenate operands (%s vs %s)' % (arrs[0].shape[k], b.shape[k]))
    dt = promote(*[b.dtype for b in arrs])
    arrs = [astype(b, dt) for b in arrs]
    offs, total = [], 0
    for b in arrs:
        offs.append(total)
        total = norm(zi(total) + zi(b.shape[ax]))
    fs = [b.fn for b in arrs]

    def fn(*o):
        i = o[ax]
        out = fs[-1](*(o[:ax] + (i - zi(offs[-1]),) + o[ax + 1:])) if not (isinstance(offs[-1], int) and offs[-1] == 0) else fs[-1](*o)
        for k in range(len(fs) - 2, -1, -1):
            sub = i if (isinstance(offs[k], int) and offs[k] == 0) else i - zi(offs[k])
            out = z3.If(i < zi(offs[k + 1]), fs[k](*(o[:ax] + (sub,) + o[ax + 1:])), out)
        return out
    sh = arrs[0].shape[:ax] + (total,) + arrs[0].shape[ax + 1:]
    return JArr(sh, dt, fn, all(b.is_np for b in arrs), src=arrs)


def flip(it, a, axis=None):
    if axis is None:
        if a.rank != 1:
            raise Unsupported('flip of a rank-%d array without an axis' % a.rank)
        axis = 0
    ax = axis + a.rank if axis < 0 else axis
    f, n = a.fn, zi(a.shape[ax])
    r = JArr(a.shape, a.dtype, lambda *o: f(*(o[:ax] + (n - 1 - o[ax],) + o[ax + 1:])), a.is_np, src=[a])
    if 'inrange' in a.ghost:
        r.ghost['inrange'] = a.ghost['inrange']
    return r


def transpose(it, a):
    f, r = a.fn, a.rank
    return JArr(tuple(reversed(a.shape)), a.dtype, lambda *o: f(*reversed(o)), a.is_np, src=[a])


def matmul(it, a, b):
    a, b = as_arr(it, a), as_arr(it, b)
    if a.rank == 2 and b.rank == 2:
        sh = (a.shape[0], b.shape[1])
    elif a.rank == 1 and b.rank == 2:
        sh = (b.shape[1],)
    elif a.rank == 2 and b.rank == 1:
        sh = (a.shape[0],)
    elif a.rank == 1 and b.rank == 1:
        return fresh_const(it, 'dot', SORTS[promote(a.dtype, b.dtype, 'int')])
    else:
        raise Unsupported('matmul of ranks %d and %d' % (a.rank, b.rank))
    dt = 'float' if 'float' in (a.dtype, b.dtype) else 'int'
    return fresh_array(it, 'matmul', sh, dt, kfn=lambda: sum_kinds(derive_kinds(it, lambda x, y: sop(it, ast.Mult(), x, y), [a, b], dt)))


# ------------------------------------------------------------------------------------------ reductions (uninterpreted values)
def _axes(a, axis):
    if axis is None:
        return list(range(a.rank))
    axes = list(axis) if isinstance(axis, (tuple, list)) else [axis]
    out = []
    for ax in axes:
        ax = conc(unwrap0(ax))
        if ax is None:
            raise Unsupported('symbolic axis')
        out.append(ax + a.rank if ax < 0 else ax)
    return sorted(out)


def reduce_opaque(it, a, axis, keepdims, name, dtype, range_fact=None, kfn=None):
    a = as_arr(it, a)
    axes = _axes(a, axis)
    sh = tuple((1 if k in axes else d) for k, d in enumerate(a.shape)) if keepdims else tuple(d for k, d in enumerate(a.shape) if k not in axes)
    if not sh:
        r = fresh_const(it, name, SORTS[dtype])
        if range_fact is not None:
            fact(it, range_fact(r))
        return r
    res = fresh_array(it, name, sh, dtype, kfn=kfn)
    if range_fact is not None:
        fact(it, ALL(len(sh), lambda *o: range_fact(res.fn(*o)), shape=sh))
    return res


def arg_reduce(it, a, axis, name):
    a = as_arr(it, a)
    if axis is None:
        n = prod_dims(a.shape)
        axis_list = None
    else:
        axis_list = _axes(a, axis)
        n = a.shape[axis_list[0]]
    nz = zi(n)
    return reduce_opaque(it, a, axis, False, name, 'int', lambda r: z3.And(r >= 0, z3.Or(r < nz, nz <= 0)), kfn=lambda: NONNEG)


# ------------------------------------------------------------------------------------------ sorting
def permutation(it, n, tag):
    """fresh permutation p of [0, n) with inverse q (facts with single-term patterns)."""
    p, q = fresh_fn(it, tag, 1, z3.IntSort()), fresh_fn(it, tag + '_inv', 1, z3.IntSort())
    nz = zi(n)
    c = conc(n)
    if c is not None:
        for t in range(c):
            fact(it, z3.And(p(t) >= 0, p(t) < nz, q(p(t)) == t, q(t) >= 0, q(t) < nz, p(q(t)) == t))
    else:
        t = z3.Int('t!%d' % next(_uid))
        fact(it, z3.ForAll([t], z3.Implies(z3.And(t >= 0, t < nz), z3.And(p(t) >= 0, p(t) < nz, q(p(t)) == t)), patterns=[p(t)]))
        j = z3.Int('j!%d' % next(_uid))
        fact(it, z3.ForAll([j], z3.Implies(z3.And(j >= 0, j < nz), z3.And(q(j) >= 0, q(j) < nz, p(q(j)) == j)), patterns=[q(j)]))
    return p, q


def _le_el(dt, x, y):
    return X.le(x, y) if dt == 'float' else zi(x) <= zi(y)


def _nan_el(dt, x):
    return X.is_nan(x) if dt == 'float' else z3.BoolVal(False)


def argsort(it, x):
    x = as_arr(it, x)
    if x.rank != 1:
        raise Unsupported('argsort of a rank-%d array' % x.rank)
    n = x.shape[0]
    if it.pure:
        raise Unsupported('argsort inside a mapped function')
    p, q = permutation(it, n, 'argsort')
    f, dt, nz = x.fn, x.dtype, zi(n)
    # ascending, NaNs (of either sign) last
    body = lambda a, b: z3.Implies(z3.And(a >= 0, a < b, b < nz),
                                   z3.Or(_nan_el(dt, f(p(b))), z3.And(z3.Not(_nan_el(dt, f(p(a)))), _le_el(dt, f(p(a)), f(p(b))))))
    c = conc(n)
    if c is not None:
        for a in range(c):
            for b in range(a + 1, c):
                fact(it, body(z3.IntVal(a), z3.IntVal(b)))
    else:
        a, b = z3.Int('a!%d' % next(_uid)), z3.Int('b!%d' % next(_uid))
        fact(it, z3.ForAll([a, b], body(a, b), patterns=[z3.MultiPattern(p(a), p(b))]))
    r = JArr((n,), 'int', lambda t: p(t), kfn=lambda: NONNEG)
    r.ghost['perm'] = (p, q, n)
    r.ghost['inrange'] = n
    it.run.__dict__.setdefault('jx_argsorts', []).append((x, p, q, n))
    it.run.__dict__.setdefault('jx_perms', []).append({'x': x, 'p': p, 'q': q, 'n': n, 'by': 'argsort'})
    return r


def argpartition(it, x, kth):
    x = as_arr(it, x)
    if x.rank != 1:
        raise Unsupported('argpartition of a rank-%d array' % x.rank)
    kth = unwrap0(kth)
    n, f, dt = x.shape[0], x.fn, x.dtype
    nz, kz = zi(n), zi(kth)
    ok = z3.And(kz >= -nz, kz < nz)
    if it.pure:
        raise Unsupported('argpartition inside a mapped function')
    if not it.truth(ok):
        raise PyRaise(it.make_exc('ValueError', ['kth out of bounds']))
    k = kz if implied(it, kz >= 0) else z3.If(kz < 0, kz + nz, kz)
    p, q = permutation(it, n, 'argpart')
    c = conc(n)
    body = lambda a, b: z3.Implies(z3.And(a >= 0, a <= k, k <= b, b < nz, a != b),
                                   z3.Or(_nan_el(dt, f(p(a))), _nan_el(dt, f(p(b))), _le_el(dt, f(p(a)), f(p(b)))))
    if c is not None:
        for a in range(c):
            for b in range(c):
                if a != b:
                    fact(it, body(z3.IntVal(a), z3.IntVal(b)))
    else:
        a, b = z3.Int('a!%d' % next(_uid)), z3.Int('b!%d' % next(_uid))
        fact(it, z3.ForAll([a, b], body(a, b), patterns=[z3.MultiPattern(p(a), p(b))]))
    r = JArr((n,), 'int', lambda t: p(t), kfn=lambda: NONNEG)
    r.ghost['perm'] = (p, q, n)
    r.ghost['inrange'] = n
    it.run.__dict__.setdefault('jx_argpartitions', []).append({'x': x, 'p': p, 'q': q, 'n': n, 'kth': k})
    it.run.__dict__.setdefault('jx_perms', []).append({'x': x, 'p': p, 'q': q, 'n': n, 'by': 'argpartition'})
    return r


# ------------------------------------------------------------------------------------------ numpy / jax.numpy functions
def _arg(args, kw, pos, name, default=None):
    if len(args) > pos:
        return args[pos]
    return kw.get(name, default)


def _full(value, np_):
    def fn(it, args, kw):
        shape = _shape_arg(it, _arg(args, kw, 0, 'shape'))
        dt = dtype_arg(_arg(args, kw, 1, 'dtype'), 'float')
        if not shape:
            return elem_of(value, dt)
        r = const_array(shape, dt, value)
        r.is_np = np_
        return r
    return fn


def _full_like(value, np_):
    def fn(it, args, kw):
        x = as_arr(it, args[0])
        dt = dtype_arg(_arg(args, kw, 1, 'dtype'), x.dtype)
        if x.rank == 0:
            return elem_of(value, dt)
        r = const_array(x.shape, dt, value)
        r.is_np = np_
        return r
    return fn


def _np_full(np_):
    def fn(it, args, kw):
        shape = _shape_arg(it, _arg(args, kw, 0, 'shape'))
        v = unwrap0(_arg(args, kw, 1, 'fill_value'))
        dt = dtype_arg(_arg(args, kw, 2, 'dtype'), dtype_of(v))
        r = const_array(shape, dt, v)
        r.is_np = np_
        return r
    return fn


def _array(np_):
    def fn(it, args, kw):
        dt = dtype_arg(_arg(args, kw, 1, 'dtype'))
        r = as_arr(it, args[0], dt)
        if r.rank == 0:
            return r.fn()
        if np_ and not r.is_np:
            r = r.copy()
            r.is_np = True
        return r
    return fn


def _arange(it, args, kw):
    args = [unwrap0(a) for a in args]
    if len(args) == 1:
        lo, hi = 0, args[0]
    elif len(args) == 2:
        lo, hi = args
    else:
        raise Unsupported('arange with a step')
    if isinstance(lo, int) and lo == 0:
        n = hi
        if not isinstance(n, int) and not implied(it, zi(n) >= 0):
            n = z3.If(zi(n) < 0, 0, zi(n))
        return JArr((n,), 'int', lambda i: i, kfn=lambda: NONNEG)
    ln = zi(hi) - zi(lo)
    lz = zi(lo)
    return JArr((norm(z3.If(ln < 0, 0, ln)),), 'int', lambda i: i + lz)


def zite(c, x, y):
    if isinstance(c, bool):
        return x if c else y
    c = z3.simplify(c)
    if z3.is_true(c):
        return x
    if z3.is_false(c):
        return y
    return z3.If(c, x, y)


def _where(it, args, kw):
    if len(args) != 3:
        raise Unsupported('where with one argument')
    c, a, b = args
    dt = promote(dtype_of(a), dtype_of(b))
    return emap(it, lambda cc, x, y: zite(elem_of(cc, 'bool'), elem_of(x, dt), elem_of(y, dt)), [c, a, b], dt)


def _map1(fn_scalar, out_dtype, in_dtype=None):
    def fn(it, args, kw):
        x = args[0]
        if in_dtype is not None and isinstance(x, JArr):
            x = astype(x, in_dtype)
        dt = out_dtype or dtype_of(x)
        return emap(it, (lambda v: fn_scalar(elem_of(v, in_dtype) if in_dtype else v)), [x], dt)
    return fn


def _map2(fn_scalar, out_dtype=None, in_dtype=None):
    def fn(it, args, kw):
        a, b = args[0], args[1]
        dt_in = in_dtype or promote(dtype_of(a), dtype_of(b))
        dt = out_dtype or dt_in
        return emap(it, lambda x, y: fn_scalar(elem_of(x, dt_in), elem_of(y, dt_in)), [a, b], dt)
    return fn


def _max2(x, y):
    return xmax(x, y) if X.is_x(x) else z3.If(zi(x) >= zi(y), zi(x), zi(y))


def _min2(x, y):
    return xmin(x, y) if X.is_x(x) else z3.If(zi(x) <= zi(y), zi(x), zi(y))


def _abs1(x):
    if X.is_x(x):
        return xabs(x)
    return z3.If(zi(x) < 0, -zi(x), zi(x))


def _clip(it, args, kw):
    x = args[0]
    lo = _arg(args, kw, 1, 'min', kw.get('a_min'))
    hi = _arg(args, kw, 2, 'max', kw.get('a_max'))
    dt = promote(dtype_of(x), dtype_of(lo) if lo is not None else 'bool', dtype_of(hi) if hi is not None else 'bool')
    if dt == 'bool':
        dt = 'int'

    def f(v, l, h):
        v = elem_of(v, dt)
        if l is not None:
            v = _max2(v, elem_of(l, dt))
        if h is not None:
            v = _min2(v, elem_of(h, dt))
        return v
    if lo is None and hi is None:
        return x
    if lo is None:
        return emap(it, lambda v, h: f(v, None, h), [x, hi], dt)
    if hi is None:
        return emap(it, lambda v, l: f(v, l, None), [x, lo], dt)
    return emap(it, f, [x, lo, hi], dt)


def _nan_to_num(it, args, kw):
    x = args[0]
    nanv = unwrap0(kw.get('nan', args[2] if len(args) > 2 else 0.0))
    pinf = unwrap0(kw.get('posinf', args[3] if len(args) > 3 else None))
    ninf = unwrap0(kw.get('neginf', args[4] if len(args) > 4 else None))
    big = X.fin(BIG)
    pv = elem_of(pinf, 'float') if pinf is not None else big
    nv = elem_of(ninf, 'float') if ninf is not None else X.neg(big)
    nn = elem_of(nanv, 'float')
    if dtype_of(x) != 'float':
        return x
    return emap(it, lambda v: z3.If(X.is_nan(v), nn, z3.If(X.is_pinf(v), pv, z3.If(X.is_ninf(v), nv, v))), [x], 'float')


def _reduce(name, dtype_fn, range_fact=None):
    def fn(it, args, kw):
        a = as_arr(it, args[0])
        axis = _arg(args, kw, 1, 'axis')
        keep = bool(kw.get('keepdims', False))
        if a.rank == 0:
            return a.fn()
        kf = (lambda: kinds(a, it)) if name in ('max', 'min') else (lambda: sum_kinds(kinds(a, it))) if name in ('sum', 'mean') else None
        return reduce_opaque(it, a, axis, keep, name, dtype_fn(a.dtype), range_fact, kfn=kf)
    return fn


def _argred(name):
    def fn(it, args, kw):
        return arg_reduce(it, args[0], _arg(args, kw, 1, 'axis'), name)
    return fn


def _concatenate(it, args, kw):
    xs = M.try_iterate(it, args[0])
    if xs is None:
        raise Unsupported('concatenate of %r' % (args[0],))
    ax = conc(unwrap0(_arg(args, kw, 1, 'axis', 0)))
    return concatenate(it, xs, ax)


def _reshape(it, args, kw):
    a = as_arr(it, args[0])
    shp = _arg(args, kw, 1, 'shape', kw.get('newshape'))
    if len(args) > 2:
        shp = tuple(args[1:])
    return reshape(it, a, _shape_arg(it, shp))


def _squeeze(it, args, kw):
    return squeeze(it, as_arr(it, args[0]), _arg(args, kw, 1, 'axis'))


def _expand_dims(it, args, kw):
    return expand_dims(it, args[0], conc(unwrap0(_arg(args, kw, 1, 'axis'))))


def _flip(it, args, kw):
    return flip(it, as_arr(it, args[0]), _arg(args, kw, 1, 'axis'))


def _argsort(it, args, kw):
    return argsort(it, args[0])


def _argpartition(it, args, kw):
    return argpartition(it, args[0], _arg(args, kw, 1, 'kth'))


def _matmul(it, args, kw):
    return matmul(it, args[0], args[1])


def _logical_not(it, args, kw):
    return emap(it, lambda v: z3.Not(elem_of(v, 'bool')) if z3.is_expr(elem_of(v, 'bool')) else (not v), [args[0]], 'bool')


def _float_pred(pred):
    def fn(it, args, kw):
        x = args[0]
        if dtype_of(x) != 'float':
            x = as_arr(it, x, 'float') if isinstance(x, JArr) else elem_of(x, 'float')
        return emap(it, lambda v: pred(elem_of(v, 'float')), [x], 'bool')
    return fn


_keep = lambda d: d
_num = lambda d: 'int' if d == 'bool' else d

for _pkg, _np in (('numpy', True), ('jax.numpy', False)):
    _R = {
        'array': _array(_np), 'asarray': _array(_np),
        'zeros': _full(0, _np), 'ones': _full(1, _np), 'empty': _full(0, _np), 'full': _np_full(_np),
        'zeros_like': _full_like(0, _np), 'ones_like': _full_like(1, _np),
        'arange': _arange, 'where': _where,
        'logical_and': _map2(lambda x, y: E.zand(x, y), 'bool', 'bool'), 'logical_or': _map2(lambda x, y: E.zor(x, y), 'bool', 'bool'),
        'logical_not': _logical_not, 'invert': _logical_not,
        'isnan': _float_pred(X.is_nan), 'isfinite': _float_pred(X.is_fin), 'isneginf': _float_pred(X.is_ninf),
        'isposinf': _float_pred(X.is_pinf), 'isinf': _float_pred(lambda v: z3.Or(X.is_pinf(v), X.is_ninf(v))),
        'maximum': _map2(_max2), 'minimum': _map2(_min2), 'abs': _map1(_abs1, None), 'absolute': _map1(_abs1, None),
        'exp': _map1(lambda v: F_EXP(v), 'float', 'float'), 'log': _map1(lambda v: F_LOG(v), 'float', 'float'),
        'clip': _clip, 'nan_to_num': _nan_to_num,
        'concatenate': _concatenate, 'reshape': _reshape, 'squeeze': _squeeze, 'expand_dims': _expand_dims, 'flip': _flip,
        'matmul': _matmul, 'dot': _matmul,
        'sum': _reduce('sum', _num, None), 'max': _reduce('max', _keep), 'min': _reduce('min', _keep), 'mean': _reduce('mean', lambda d: 'float'),
        'prod': _reduce('prod', _num), 'any': _reduce('any', lambda d: 'bool'), 'all': _reduce('all', lambda d: 'bool'),
        'argmin': _argred('argmin'), 'argmax': _argred('argmax'), 'argsort': _argsort, 'argpartition': _argpartition,
    }
    for _k, _f in _R.items():
        EXTERNAL[_pkg + '.' + _k] = Builtin(_pkg + '.' + _k, _f)
    EXTERNAL[_pkg + '.inf'] = float('inf')
    EXTERNAL[_pkg + '.nan'] = float('nan')
    EXTERNAL[_pkg + '.pi'] = math.pi
    EXTERNAL[_pkg + '.newaxis'] = None
    for _t, _kd in (('bool_', 'bool'), ('float32', 'float'), ('float64', 'float'), ('int32', 'int'), ('int64', 'int'), ('float16', 'float')):
        EXTERNAL[_pkg + '.' + _t] = DType(_kd, _t)
    EXTERNAL[_pkg + '.ndarray'] = E.BuiltinClass('ndarray')
    EXTERNAL[_pkg + '.dtype'] = E.BuiltinClass('dtype')
EXTERNAL['jax.Array'] = E.BuiltinClass('jax.Array')


def _sum_nonneg(it, args, kw):
    """sum: of booleans / ints it is a count (>= 0 for booleans); of floats it is uninterpreted."""
    a = as_arr(it, args[0])
    if a.rank == 0:
        return a.fn()
    axis = _arg(args, kw, 1, 'axis')
    keep = bool(kw.get('keepdims', False))
    if a.dtype == 'bool':
        return reduce_opaque(it, a, axis, keep, 'count', 'int', lambda r: r >= 0, kfn=lambda: NONNEG)
    res = reduce_opaque(it, a, axis, keep, 'sum', a.dtype, kfn=lambda: sum_kinds(kinds(a, it)))
    if isinstance(res, JArr):
        res.ghost['sum_of'] = a
    return res


for _pkg in ('numpy', 'jax.numpy'):
    EXTERNAL[_pkg + '.sum'] = Builtin(_pkg + '.sum', _sum_nonneg)


def _py_log(it, args, kw):
    v = unwrap0(args[0])
    if isinstance(v, (int, float)) and not isinstance(v, bool):
        return math.log(v) if v > 0 else (float('-inf') if v == 0 else float('nan'))
    return emap(it, lambda x: F_LOG(elem_of(x, 'float')), [args[0]], 'float')


for _pkg in ('numpy', 'jax.numpy'):
    EXTERNAL[_pkg + '.log'] = Builtin(_pkg + '.log', _py_log)


# ------------------------------------------------------------------------------------------ jax.random
Key = z3.DeclareSort('PRNGKey')
K_OF = z3.Function('jx_prngkey', z3.IntSort(), Key)
K_SPLIT = z3.Function('jx_split', Key, z3.IntSort(), Key)
K_FOLD = z3.Function('jx_fold_in', Key, z3.IntSort(), Key)
_RANK = 5
R_UNIFORM = z3.Function('jx_uniform', Key, *([z3.IntSort()] * _RANK + [z3.RealSort()]))
R_LAPLACE = z3.Function('jx_laplace', Key, *([z3.IntSort()] * _RANK + [z3.RealSort()]))


def is_key(v):
    return z3.is_expr(v) and v.sort() == Key


def _pad(idx):
    idx = list(idx)
    if len(idx) > _RANK:
        raise Unsupported('random array of rank > %d' % _RANK)
    return idx + [z3.IntVal(0)] * (_RANK - len(idx))


def _prngkey(it, args, kw):
    s = unwrap0(args[0])
    return K_OF(zi(s))


def _split(it, args, kw):
    key = args[0]
    num = conc(unwrap0(_arg(args, kw, 1, 'num', 2)))
    if not is_key(key):
        raise Unsupported('jax.random.split of %r' % (key,))
    if num is None:
        raise Unsupported('jax.random.split with a symbolic number of keys')
    it.run.__dict__.setdefault('jx_key_uses', []).append(('split', key))
    return tuple(K_SPLIT(key, z3.IntVal(i)) for i in range(num))


def _fold_in(it, args, kw):
    return K_FOLD(args[0], zi(unwrap0(args[1])))


def _uniform(it, args, kw):
    key = args[0]
    if not is_key(key):
        raise Unsupported('jax.random.uniform key %r' % (key,))
    shape = _shape_arg(it, _arg(args, kw, 1, 'shape', ()))
    lo = unwrap0(kw.get('minval', args[3] if len(args) > 3 else 0.0))
    hi = unwrap0(kw.get('maxval', args[4] if len(args) > 4 else 1.0))
    it.run.__dict__.setdefault('jx_key_uses', []).append(('uniform', key))
    u = lambda *i: R_UNIFORM(key, *_pad(i))
    fact(it, ALL(len(shape), lambda *i: z3.And(u(*i) >= 0, u(*i) < 1), pats=(lambda *i: u(*i)) if shape else None, shape=shape))
    std = isinstance(lo, (int, float)) and isinstance(hi, (int, float)) and lo == 0 and hi == 1
    if std:
        val = lambda *i: X.fin(u(*i))
    else:
        lz, hz = elem_of(lo, 'float'), elem_of(hi, 'float')
        val = lambda *i: X.add(lz, xmul(X.fin(u(*i)), X.sub(hz, lz)))
    if not shape:
        return val()
    return JArr(shape, 'float', val, kfn=(lambda: NONNEG) if std else None)


def _laplace(it, args, kw):
    key = args[0]
    if not is_key(key):
        raise Unsupported('jax.random.laplace key %r' % (key,))
    shape = _shape_arg(it, _arg(args, kw, 1, 'shape', ()))
    it.run.__dict__.setdefault('jx_key_uses', []).append(('laplace', key))
    if not shape:
        return X.fin(R_LAPLACE(key, *_pad(())))
    it.run.assumed.add(A_LAPLACE)
    return JArr(shape, 'float', lambda *i: X.fin(R_LAPLACE(key, *_pad(i))), kfn=lambda: frozenset(('neg', 'pos')))


EXTERNAL['jax.random.PRNGKey'] = Builtin('jax.random.PRNGKey', _prngkey)
EXTERNAL['jax.random.key'] = Builtin('jax.random.key', _prngkey)
EXTERNAL['jax.random.split'] = Builtin('jax.random.split', _split)
EXTERNAL['jax.random.fold_in'] = Builtin('jax.random.fold_in', _fold_in)
EXTERNAL['jax.random.uniform'] = Builtin('jax.random.uniform', _uniform)
EXTERNAL['jax.random.laplace'] = Builtin('jax.random.laplace', _laplace)


# ------------------------------------------------------------------------------------------ tfd.Categorical
class CatDist:
    def __init__(self, logits):
        self.logits = logits


def _categorical(it, args, kw):
    lg = kw.get('logits', args[0] if args else None)
    if lg is None:
        raise Unsupported('tfd.Categorical without logits')
    lg = as_arr(it, lg, 'float')
    if lg.rank == 0:
        raise Unsupported('tfd.Categorical with scalar logits')
    return CatDist(lg)


def cat_sample(it, dist, args, kw):
    ss = _arg(args, kw, 0, 'sample_shape', ())
    seed = kw.get('seed', args[1] if len(args) > 1 else None)
    if not is_key(seed):
        raise Unsupported('tfd.Categorical.sample without a PRNG key (seed=%r)' % (seed,))
    ss = _shape_arg(it, ss) if not (isinstance(ss, (tuple, list)) and len(ss) == 0) else ()
    L = dist.logits
    bs, K = L.shape[:-1], L.shape[-1]
    sh = tuple(ss) + tuple(bs)
    ns, Kz = len(ss), zi(K)
    it.run.__dict__.setdefault('jx_key_uses', []).append(('categorical', seed))
    res = fresh_fn(it, 'catsample', len(sh), z3.IntSort())
    Lf = L.fn

    def body(*i):
        k = res(*i)
        row = Lf(*(tuple(i[ns:]) + (k,)))
        return z3.And(k >= 0, z3.Or(k < Kz, Kz <= 0), z3.Or(X.is_nan(row), z3.Not(X.is_ninf(row)), k == 0))
    fact(it, ALL(len(sh), body, pats=(lambda *i: res(*i)) if sh else None, shape=sh))
    it.run.__dict__.setdefault('jx_cat_samples', []).append({'logits': L, 'res': res, 'shape': sh, 'ns': ns})
    if not sh:
        return res()
    return JArr(sh, 'int', lambda *i: res(*i), kfn=lambda: NONNEG)


EXTERNAL['tensorflow_probability.substrates.jax.distributions.Categorical'] = Builtin('tfd.Categorical', _categorical)


# ------------------------------------------------------------------------------------------ pytrees and records
_RECORD_DECOS = ('struct.dataclass', 'flax.struct.dataclass')
_RECORD_BASES = ('eqx.Module', 'equinox.Module')
_FIELD_FUNCS = ('struct.field', 'flax.struct.field', 'eqx.field', 'equinox.field', 'dataclasses.field')


def is_record_class(cls):
    if not isinstance(cls, ClassInfo):
        return False
    for c in E.mro(cls):
        if isinstance(c, ClassInfo):
            if any(d.split('(')[0] in _RECORD_DECOS for d in c.decorators):
                return True
            if any(b in _RECORD_BASES for b in c.bases):
                return True
        elif isinstance(c, str) and c in _RECORD_BASES:
            return True
    return False


def record_fields(cls):
    """[(name, owner ClassInfo, default node | None, static?, converter node | None)] in dataclass order."""
    out, seen = [], {}
    for c in reversed(E.mro(cls)):
        if not isinstance(c, ClassInfo):
            continue
        for name in c.field_order:
            if name not in c.annotations:
                continue
            if 'ClassVar' in ast.unparse(c.annotations[name]):
                continue
            node = c.assigns.get(name)
            static, conv, has_default, dnode, factory = False, None, node is not None, node, None
            if isinstance(node, ast.Call) and ast.unparse(node.func) in _FIELD_FUNCS:
                has_default, dnode = False, None
                for k in node.keywords:
                    if k.arg == 'default':
                        has_default, dnode = True, k.value
                    elif k.arg == 'default_factory':
                        has_default, factory = True, k.value
                    elif k.arg == 'pytree_node' and isinstance(k.value, ast.Constant) and k.value.value is False:
                        static = True
                    elif k.arg == 'static' and isinstance(k.value, ast.Constant) and k.value.value is True:
                        static = True
                    elif k.arg == 'converter':
                        conv = k.value
            rec = (name, c, has_default, dnode, factory, static, conv)
            if name in seen:
                out[seen[name]] = rec
            else:
                seen[name] = len(out)
                out.append(rec)
    return out


def construct_record(it, cls, args, kw):
    fields = record_fields(cls)
    o = Obj(cls)
    args, kw = list(args), dict(kw)
    if len(args) > len(fields):
        raise PyRaise(it.make_exc('TypeError', ['%s() takes %d positional arguments' % (cls.name, len(fields))]))
    for k, (name, owner, has_default, dnode, factory, static, conv) in enumerate(fields):
        if k < len(args):
            if name in kw:
                raise PyRaise(it.make_exc('TypeError', ['%s() got multiple values for argument %s' % (cls.name, name)]))
            v = args[k]
        elif name in kw:
            v = kw.pop(name)
        elif factory is not None:
            v = it.call(it.eval(E.Frame(owner.mod, {}), factory), [], {})
        elif has_default:
            v = it.eval(E.Frame(owner.mod, {}), dnode)
        else:
            raise PyRaise(it.make_exc('TypeError', ['%s() missing required argument %s' % (cls.name, name)]))
        if conv is not None:
            v = it.call(it.eval(E.Frame(owner.mod, {}), conv), [v], {})
        o.attrs[name] = v
    if kw:
        raise PyRaise(it.make_exc('TypeError', ['%s() got an unexpected keyword argument %s' % (cls.name, sorted(kw)[0])]))
    return o


def make_record(cls, **attrs):
    """build a record instance without running the generated __init__ (contract inputs)."""
    return Obj(cls, attrs)


def _construct_hook(it, cls, args, kw, _prev=M.construct_hook):
    if is_record_class(cls) and E.find_method(cls, '__init__')[1] is None:
        return construct_record(it, cls, args, kw)
    return _prev(it, cls, args, kw)


M.construct_hook = _construct_hook


def is_leaf(v):
    return isinstance(v, (JArr, OpaqueVal, CatDist)) or is_scalar(v) or is_key(v) or isinstance(v, (str, DType)) \
        or (isinstance(v, Obj) and not (isinstance(v.cls, ClassInfo) and is_record_class(v.cls)))


def tree_children(v):
    """None for a leaf, else (rebuild, [children])."""
    if v is None:
        return (lambda cs: None), []
    if isinstance(v, tuple):
        return (lambda cs: tuple(cs)), list(v)
    if isinstance(v, list):
        return (lambda cs: list(cs)), list(v)
    if isinstance(v, M.PyDict):
        ks = v.keys()

        def rb(cs):
            d = M.PyDict()
            for k, c in zip(ks, cs):
                d.set(None, k, c)
            return d
        return rb, [v.get(None, k) for k in ks]
    if isinstance(v, Obj) and isinstance(v.cls, ClassInfo) and is_record_class(v.cls):
        fs = [f for f in record_fields(v.cls) if not f[5] and f[0] in v.attrs]
        names = [f[0] for f in fs]

        def rb(cs, v=v, names=names):
            o = Obj(v.cls, dict(v.attrs))
            for n, c in zip(names, cs):
                o.attrs[n] = c
            return o
        return rb, [v.attrs[n] for n in names]
    return None


def tree_map_py(f, tree, *rest):
    ch = tree_children(tree)
    if ch is None:
        return f(tree, *rest)
    rb, cs = ch
    others = []
    for r in rest:
        rc = tree_children(r)
        if rc is None or len(rc[1]) != len(cs):
            raise Unsupported('tree_map over trees of different structure (%r vs %r)' % (tree, r))
        others.append(rc[1])
    return rb([tree_map_py(f, c, *[o[k] for o in others]) for k, c in enumerate(cs)])


def tree_leaves_py(tree):
    ch = tree_children(tree)
    if ch is None:
        return [tree]
    out = []
    for c in ch[1]:
        out.extend(tree_leaves_py(c))
    return out


def _tree_map(it, args, kw):
    f = args[0]
    return tree_map_py(lambda *xs: it.call(f, list(xs), {}), args[1], *args[2:])


def _tree_leaves(it, args, kw):
    return tree_leaves_py(args[0])


for _k in ('jax.tree_util.tree_map', 'jax.tree.map', 'jax.tree_map'):
    EXTERNAL[_k] = Builtin(_k, _tree_map)
for _k in ('jax.tree_util.tree_leaves', 'jax.tree.leaves', 'jax.tree_leaves'):
    EXTERNAL[_k] = Builtin(_k, _tree_leaves)


# ------------------------------------------------------------------------------------------ jax.lax
def merge(it, c, a, b):
    """leaf-wise `a if c else b` of two pytrees of the same structure."""
    if a is None and b is None:
        return None
    ca, cb = tree_children(a), tree_children(b)
    if (ca is None) != (cb is None):
        raise Unsupported('lax.cond branches return different structures (%r vs %r)' % (a, b))
    if ca is not None:
        if len(ca[1]) != len(cb[1]):
            raise Unsupported('lax.cond branches return different structures')
        return ca[0]([merge(it, c, x, y) for x, y in zip(ca[1], cb[1])])
    if a is b:
        return a
    if isinstance(a, JArr) or isinstance(b, JArr):
        if not (isinstance(a, JArr) and isinstance(b, JArr) and a.rank == b.rank and all(same_dim(it, x, y) for x, y in zip(a.shape, b.shape))):
            if not (isinstance(a, JArr) and isinstance(b, JArr)):
                raise Unsupported('lax.cond branches: array vs %r' % (b if isinstance(a, JArr) else a,))
            raise PyRaise(it.make_exc('TypeError', ['true_fun and false_fun output must have identical types (shapes %s vs %s)' % (a.shape, b.shape)]))
        dt = promote(a.dtype, b.dtype)
        fa, fb = astype(a, dt).fn, astype(b, dt).fn
        return JArr(a.shape, dt, lambda *i: zite(c, fa(*i), fb(*i)), src=[a, b])
    if is_scalar(a) and is_scalar(b):
        dt = promote(dtype_of(a), dtype_of(b))
        return zite(c, elem_of(a, dt), elem_of(b, dt))
    if is_key(a) and is_key(b):
        return zite(c, a, b)
    raise Unsupported('lax.cond merge of %r and %r' % (a, b))


def _cond(it, args, kw):
    pred, tf, ff = unwrap0(args[0]), args[1], args[2]
    ops = list(args[3:])
    if isinstance(pred, bool) or isinstance(pred, int):
        return it.call(tf if pred else ff, ops, {})
    c = elem_of(pred, 'bool')
    rt = it.call(tf, ops, {})
    rf = it.call(ff, ops, {})
    return merge(it, c, rt, rf)


def _dyn_start(it, start, n, size):
    s, nz, m = zi(unwrap0(start)), zi(n), zi(size)
    if implied(it, z3.And(s >= 0, s + m <= nz)):
        return z3.simplify(s)
    s = z3.If(s < 0, s + nz, s)
    return z3.If(s < 0, 0, z3.If(s > nz - m, z3.If(nz - m < 0, 0, nz - m), s))


def _dynamic_slice_in_dim(it, args, kw):
    x = as_arr(it, args[0])
    start, size = _arg(args, kw, 1, 'start_index'), unwrap0(_arg(args, kw, 2, 'slice_size'))
    ax = conc(unwrap0(_arg(args, kw, 3, 'axis', 0)))
    ax = ax + x.rank if ax < 0 else ax
    s = _dyn_start(it, start, x.shape[ax], size)
    f = x.fn
    sh = x.shape[:ax] + (norm(zi(size)),) + x.shape[ax + 1:]
    return JArr(sh, x.dtype, lambda *o: f(*(o[:ax] + (o[ax] + s,) + o[ax + 1:])), src=[x])


def _dynamic_update_slice_in_dim(it, args, kw):
    x, u = as_arr(it, args[0]), as_arr(it, args[1])
    start = _arg(args, kw, 2, 'start_index')
    ax = conc(unwrap0(_arg(args, kw, 3, 'axis', 0)))
    ax = ax + x.rank if ax < 0 else ax
    if u.rank != x.rank:
        raise PyRaise(it.make_exc('TypeError', ['dynamic_update_slice update must have the rank of the operand']))
    m = u.shape[ax]
    s = _dyn_start(it, start, x.shape[ax], m)
    f, g, dt = x.fn, astype(u, x.dtype).fn, x.dtype
    return JArr(x.shape, dt, lambda *o: z3.If(z3.And(o[ax] >= s, o[ax] < s + zi(m)), g(*(o[:ax] + (o[ax] - s,) + o[ax + 1:])), f(*o)), src=[x, u])


EXTERNAL['jax.lax.cond'] = Builtin('jax.lax.cond', _cond)
EXTERNAL['jax.lax.dynamic_slice_in_dim'] = Builtin('jax.lax.dynamic_slice_in_dim', _dynamic_slice_in_dim)
EXTERNAL['jax.lax.dynamic_update_slice_in_dim'] = Builtin('jax.lax.dynamic_update_slice_in_dim', _dynamic_update_slice_in_dim)
EXTERNAL['jax.monitoring.record_event'] = Builtin('jax.monitoring.record_event', lambda it, a, k: None)
EXTERNAL['datetime.datetime.now'] = Builtin('datetime.datetime.now', lambda it, a, k: OpaqueVal('now'))


# ---- fori_loop: invariant rule over the REAL body function
class Clause:
    """forall index tuples v within `extents`. body(*v).  Assumed (on fresh / havoced values) as an unguarded or expanded
    fact; proved for fresh Skolem constants under the range guard."""

    def __init__(self, name, extents, body, pats=None):
        self.name, self.extents, self.body, self.pats = name, tuple(extents), body, pats

    def formula(self):
        return ALL(len(self.extents), self.body, self.pats, shape=self.extents)

    def assume(self, it):
        fact(it, self.formula())

    def goal(self, it):
        run = getattr(it, 'run', it)          # an Interp or a Run
        sk = [run.fresh('sk_' + self.name.replace('.', '_'), z3.IntSort()) for _ in self.extents]
        guard = [z3.And(v >= 0, v < zi(n)) for v, n in zip(sk, self.extents)]
        b = zb(self.body(*sk))
        return z3.Implies(z3.And(*guard), b) if guard else b


class ForiSpec:
    """invariant(it, carry, i, ctx) -> [Clause]; ctx: dict(phase='init'|'head'|'preserve'|'exit', lower, upper, init, ...)"""

    def __init__(self, invariant, name=None):
        self.invariant, self.name = invariant, name


FORI = {}        # (module dotted, body function name) -> ForiSpec


def havoc(it, v, name='carry'):
    """fresh value of the same structure / shapes / dtypes."""
    ch = tree_children(v)
    if ch is not None:
        return ch[0]([havoc(it, c, '%s_%d' % (name, k)) for k, c in enumerate(ch[1])])
    if isinstance(v, JArr):
        return fresh_array(it, name, v.shape, v.dtype)
    if is_scalar(v):
        return fresh_const(it, name, SORTS[dtype_of(v)])
    if is_key(v):
        k = fresh_const(it, name, Key)
        it.run.__dict__.setdefault('jx_carried_keys', []).append(k)      # a loop-carried PRNG key
        return k
    if isinstance(v, Obj) and not isinstance(v.cls, ClassInfo):
        o = Obj(v.cls, dict(v.attrs))
        o.attrs['_version'] = fresh_const(it, name + '_version', z3.IntSort())
        return o
    if isinstance(v, OpaqueVal):
        return v
    raise Unsupported('havoc of loop-carried value %r' % (v,))


def carry_mismatch(it, a, b):
    """a description of a definite difference in pytree structure / shape / dtype between two loop carries, or None."""
    ca, cb = tree_children(a), tree_children(b)
    if (ca is None) != (cb is None):
        return 'structure %r vs %r' % (a, b)
    if ca is not None:
        if len(ca[1]) != len(cb[1]):
            return 'structure %r vs %r' % (a, b)
        for x, y in zip(ca[1], cb[1]):
            m = carry_mismatch(it, x, y)
            if m:
                return m
        return None
    if isinstance(a, JArr) != isinstance(b, JArr):
        if isinstance(a, JArr) and a.rank == 0 or isinstance(b, JArr) and b.rank == 0:
            return None
        return 'array vs %r' % (b if isinstance(a, JArr) else a,)
    if isinstance(a, JArr):
        if a.rank != b.rank:
            return 'rank %d vs %d' % (a.rank, b.rank)
        for x, y in zip(a.shape, b.shape):
            d = z3.simplify(zi(x) == zi(y))
            if z3.is_false(d):
                return 'shape %s vs %s' % (a.shape, b.shape)
        if a.dtype != b.dtype and 'bool' in (a.dtype, b.dtype):
            return 'dtype %s vs %s' % (a.dtype, b.dtype)
    return None


def _fori_loop(it, args, kw):
    lower = unwrap0(_arg(args, kw, 0, 'lower'))
    upper = unwrap0(_arg(args, kw, 1, 'upper'))
    body = _arg(args, kw, 2, 'body_fun')
    init = _arg(args, kw, 3, 'init_val')
    fv = body.func if isinstance(body, Bound) else body
    if not isinstance(fv, FuncVal):
        raise Unsupported('fori_loop body %r' % (body,))
    lo_c, up_c = conc(lower), conc(upper)
    if lo_c is not None and up_c is not None and up_c - lo_c <= 3 and getattr(it.run, 'jx_unroll_fori', False):
        val = init
        for i in range(lo_c, up_c):
            val = it.call(body, [i, val], {})
            mm = carry_mismatch(it, init, val)
            if mm:
                raise PyRaise(it.make_exc('TypeError', ['scanned function carry input and carry output must have the same type structure: ' + mm]))
        return val
    key = (fv.mod.dotted, getattr(fv.node, 'name', '<lambda>'))
    spec = FORI.get(key)
    if spec is None:
        raise Unsupported('jax.lax.fori_loop needs a loop contract: %s %s' % key)
    if it.pure:
        raise Unsupported('fori_loop inside a mapped function')
    run = it.run
    lname = (spec.name or key[1]) + '.fori'
    ctx = {'lower': lower, 'upper': upper, 'init': init, 'phase': 'init', 'key': key}
    for cl in spec.invariant(it, init, lower, ctx):
        run.oblige('%s.%s.init' % (lname, cl.name), cl.goal(it), info={'fori': key})
    b = z3.Bool('fori_iter!%s!%d' % (key[1], run.cursor))
    if run.choose(b):
        i = run.fresh('fori_i', z3.IntSort())
        run.assume(z3.And(zi(lower) <= i, i < zi(upper)))
        carry = havoc(it, init)
        ctx['phase'] = 'head'
        for cl in spec.invariant(it, carry, i, ctx):
            cl.assume(it)
        out = it.call(body, [i, carry], {})
        mm = carry_mismatch(it, init, out)
        if mm:
            raise PyRaise(it.make_exc('TypeError', ['scanned function carry input and carry output must have the same type structure: ' + mm]))
        ctx['phase'] = 'preserve'
        ctx['head_carry'] = carry
        for cl in spec.invariant(it, out, i + 1, ctx):
            run.oblige('%s.%s.preserve' % (lname, cl.name), cl.goal(it), info={'fori': key})
        raise PathEnd()
    carry = havoc(it, init)
    ctx['phase'] = 'exit'
    n_end = z3.If(zi(upper) > zi(lower), zi(upper), zi(lower))
    for cl in spec.invariant(it, carry, n_end, ctx):
        cl.assume(it)
    run.__dict__.setdefault('jx_fori_exits', []).append({'key': key, 'carry': carry, 'ctx': ctx})
    return carry


EXTERNAL['jax.lax.fori_loop'] = Builtin('jax.lax.fori_loop', _fori_loop)


# ------------------------------------------------------------------------------------------ jax.vmap / jit / partial
class Partial:
    def __init__(self, f, args, kw):
        self.f, self.args, self.kw = f, list(args), dict(kw)


class VMapped:
    def __init__(self, f, in_axes, out_axes):
        self.f, self.in_axes, self.out_axes = f, in_axes, out_axes


def _partial(it, args, kw):
    return Partial(args[0], args[1:], kw)


def _vmap(it, args, kw):
    return VMapped(args[0], kw.get('in_axes', args[1] if len(args) > 1 else 0), kw.get('out_axes', args[2] if len(args) > 2 else 0))


def _jit(it, args, kw):
    if not args:
        return Builtin('jax.jit(...)', lambda it_, a, k: a[0])
    return args[0]


def _slice_axis(a, ax, J):
    f = a.fn
    ax = ax + a.rank if ax < 0 else ax
    sh = a.shape[:ax] + a.shape[ax + 1:]
    if not sh:
        return f(J)
    return JArr(sh, a.dtype, lambda *o: f(*(o[:ax] + (J,) + o[ax:])), src=[a])


def _lift_axis(J, n, v, out_ax):
    if v is None:
        return None
    ch = tree_children(v)
    if ch is not None:
        return ch[0]([_lift_axis(J, n, c, out_ax) for c in ch[1]])
    if isinstance(v, JArr):
        g, r = v.fn, v.rank
        ax = out_ax + r + 1 if out_ax < 0 else out_ax
        sh = v.shape[:ax] + (n,) + v.shape[ax:]
        return JArr(sh, v.dtype, lambda *o: z3.substitute(g(*(o[:ax] + o[ax + 1:])), (J, zi(o[ax]))), src=[v])
    if is_scalar(v):
        t = elem_of(v, dtype_of(v))
        return JArr((n,), dtype_of(v), lambda j: z3.substitute(t, (J, zi(j))), src=[t])
    raise Unsupported('value %r returned through jax.vmap' % (v,))


def call_vmapped(it, vm, args, kw):
    if kw:
        raise Unsupported('keyword arguments through jax.vmap')
    axes = vm.in_axes if isinstance(vm.in_axes, (tuple, list)) else (vm.in_axes,) * len(args)
    if len(axes) != len(args):
        raise PyRaise(it.make_exc('ValueError', ['vmap in_axes does not match the arguments']))
    J = z3.Int('vj!%d' % next(_uid))
    n, inner = None, []
    for a, ax in zip(args, axes):
        if ax is None:
            inner.append(a)
            continue
        a = as_arr(it, a)
        ax = conc(ax)
        if a.rank == 0:
            raise PyRaise(it.make_exc('ValueError', ['vmap was requested to map its argument along axis %d, which implies that its rank should be at least 1' % ax]))
        d = a.shape[ax + a.rank if ax < 0 else ax]
        if n is None:
            n = d
        elif not same_dim(it, n, d):
            raise Unsupported('vmap over arguments whose mapped extents are not provably equal (%s vs %s)' % (n, d))
        inner.append(_slice_axis(a, ax, J))
    if n is None:
        raise PyRaise(it.make_exc('ValueError', ['vmap must have at least one non-None value in in_axes']))
    LIFT.append((J, n))
    it.pure += 1
    try:
        v = it.call(vm.f, inner, {})
    finally:
        it.pure -= 1
        LIFT.pop()
    oa = vm.out_axes
    if isinstance(oa, (tuple, list)):
        raise Unsupported('vmap with a tuple of out_axes')
    return _lift_axis(J, n, v, conc(oa))


EXTERNAL['functools.partial'] = Builtin('functools.partial', _partial)
EXTERNAL['jax.vmap'] = Builtin('jax.vmap', _vmap)
EXTERNAL['jax.jit'] = Builtin('jax.jit', _jit)


# ------------------------------------------------------------------------------------------ engine hooks
def _method(name, fn):
    return Builtin(name, fn)


def _getattr(it, v, a, _prev=M.value_getattr_hook):
    if isinstance(v, JArr):
        if a == 'shape':
            return tuple(v.shape)
        if a == 'dtype':
            return DType(v.dtype)
        if a == 'ndim':
            return v.rank
        if a == 'size':
            return size_of(it, v)
        if a == 'T':
            return transpose(it, v)
        if a == 'at':
            return AtProxy(v)
        if a == 'astype':
            return _method('astype', lambda it_, args, kw: astype(v, dtype_arg(_arg(args, kw, 0, 'dtype'))))
        if a == 'reshape':
            return _method('reshape', lambda it_, args, kw: reshape(it_, v, _shape_arg(it_, args[0] if len(args) == 1 else tuple(args))))
        if a == 'copy':
            return _method('copy', lambda it_, args, kw: v.copy())
        if a == 'squeeze':
            return _method('squeeze', lambda it_, args, kw: squeeze(it_, v, _arg(args, kw, 0, 'axis')))
        if a == 'flatten' or a == 'ravel':
            return _method(a, lambda it_, args, kw: reshape(it_, v, (-1,)))
        if a in ('sum', 'max', 'min', 'mean', 'any', 'all', 'argmin', 'argmax', 'argsort'):
            f = EXTERNAL['jax.numpy.' + a]
            return _method(a, lambda it_, args, kw: f.fn(it_, [v] + list(args), kw))
        if a == 'tolist':
            return _method('tolist', lambda it_, args, kw: M.iterate(it_, v))
        raise Unsupported('array attribute %s' % a)
    if isinstance(v, AtProxy):
        if v.idx is None:
            raise Unsupported('.at without an index')
        arr, idx = v.arr, v.idx
        if a in ('set', 'add'):
            return _method('at.' + a, lambda it_, args, kw: JArr(arr.shape, arr.dtype, updated(it_, arr, idx, args[0], a),
                                                                 src=[arr, args[0]] if a == 'set' else None,
                                                                 kfn=None if a == 'set' else (lambda: kinds(arr) | derive_kinds(it_, lambda x, y: sop(it_, ast.Add(), x, y), [arr, args[0]], arr.dtype))))
        if a == 'get':
            return _method('at.get', lambda it_, args, kw: getitem(it_, arr, idx))
        raise Unsupported('.at[].%s' % a)
    if isinstance(v, CatDist):
        if a == 'sample':
            return _method('Categorical.sample', lambda it_, args, kw: cat_sample(it_, v, args, kw))
        if a == 'logits':
            return v.logits
        raise Unsupported('Categorical.%s' % a)
    if isinstance(v, DType):
        if a == 'name':
            return v.name
        if a == 'kind':
            return {'float': 'f', 'int': 'i', 'bool': 'b'}[v.kind]
    if is_scalar(v) and z3.is_expr(v):
        if a == 'astype':
            return _method('astype', lambda it_, args, kw: elem_of(v, dtype_arg(_arg(args, kw, 0, 'dtype'))))
        if a == 'shape':
            return ()
        if a == 'dtype':
            return DType(dtype_of(v))
        if a == 'ndim':
            return 0
    return _prev(it, v, a)


M.value_getattr_hook = _getattr


def _subscript(it, base, idx, _prev=M.subscript_hook):
    if isinstance(base, JArr):
        return getitem(it, base, idx)
    if isinstance(base, AtProxy):
        return AtProxy(base.arr, idx)
    if isinstance(base, (tuple, list)) and isinstance(idx, JArr) and idx.rank == 0:
        return M.subscript(it, base, idx.fn())
    return _prev(it, base, idx)


M.subscript_hook = _subscript


def _setitem(it, base, idx, v, _prev=M.setitem_hook):
    if isinstance(base, JArr):
        if not base.is_np:
            raise PyRaise(it.make_exc('TypeError', ['JAX arrays are immutable']))
        base.fn = updated(it, base, idx, v, 'set')
        base.ghost = {}
        return True
    return _prev(it, base, idx, v)


M.setitem_hook = _setitem


def _len(it, v, _prev=M.len_hook):
    if isinstance(v, JArr):
        if v.rank == 0:
            raise PyRaise(it.make_exc('TypeError', ['len() of unsized object']))
        return v.shape[0]
    return _prev(it, v)


M.len_hook = _len


def _iterate(it, v, _prev=M.iterate_hook):
    if isinstance(v, JArr):
        n = conc(v.shape[0]) if v.rank else None
        if n is None:
            return None
        return [getitem(it, v, k) for k in range(n)]
    if isinstance(v, M.SymRange):
        lo, hi, st = conc(v.lo), conc(v.hi), conc(v.step)
        if lo is not None and hi is not None and st is not None:
            return list(range(lo, hi, st))
    return _prev(it, v)


M.iterate_hook = _iterate


def _call(it, f, args, kw, _prev=M.call_hook):
    if isinstance(f, VMapped):
        return call_vmapped(it, f, args, kw)
    if isinstance(f, Partial):
        k2 = dict(f.kw)
        k2.update(kw)
        return it.call(f.f, f.args + list(args), k2)
    if isinstance(f, DType):
        return emap(it, lambda x: elem_of(x, f.kind), [args[0]], f.kind)
    return _prev(it, f, args, kw)


M.call_hook = _call

_prev_truth = M.truth_hook


def _truth(it, v):
    if isinstance(v, JArr):
        if v.rank == 0:
            return it.truth_term(v.fn())
        raise PyRaise(it.make_exc('ValueError', ['The truth value of an array with more than one element is ambiguous']))
    if isinstance(v, (OpaqueVal, CatDist, VMapped, Partial, DType, AtProxy)):
        return True
    return _prev_truth(it, v)


M.truth_hook = _truth


def _fresh_like(it, v, name, _prev=M.fresh_like_hook):
    if isinstance(v, (JArr, tuple, OpaqueVal)) or is_key(v) or (isinstance(v, Obj) and (not isinstance(v.cls, ClassInfo) or is_record_class(v.cls))):
        return havoc(it, v, name)
    return _prev(it, v, name)


M.fresh_like_hook = _fresh_like


def _isinstance(it, o, c, _prev=M.isinstance_hook):
    if isinstance(o, JArr):
        name = c.name if isinstance(c, (E.BuiltinClass, Builtin)) else c.dotted if isinstance(c, ExtRef) else str(c)
        return name.split('.')[-1] in ('ndarray', 'Array', 'jax.Array')
    return _prev(it, o, c)


M.isinstance_hook = _isinstance


# ---- python builtins on symbolic scalars that the engine forks on: int(), float(), math.ceil
_orig_int = M.BUILTINS['int'].fn


def _b_int(it, args, kw):
    if len(args) == 1:
        v = unwrap0(args[0])
        if X.is_x(v):
            # int(float): truncation towards zero of a finite value
            r = X.r(v)
            return z3.If(r >= 0, z3.ToInt(r), -z3.ToInt(-r))
        if isinstance(v, JArr):
            raise Unsupported('int() of an array')
        args = [v]
    return _orig_int(it, args, kw)


M.BUILTINS['int'] = Builtin('int', _b_int)


def _math_ceil(it, args, kw):
    v = unwrap0(args[0])
    if isinstance(v, (int, float)):
        return math.ceil(v)
    if X.is_x(v):
        r = X.r(v)
        c = -z3.ToInt(-r)
        it.run.__dict__.setdefault('jx_ceils', []).append(c)        # ghost: lets a contract name the rounded value
        return c
    if z3.is_expr(v) and v.sort() == z3.IntSort():
        return v
    raise Unsupported('math.ceil of %r' % (v,))


EXTERNAL['math.ceil'] = Builtin('math.ceil', _math_ceil)
EXTERNAL['math.log'] = Builtin('math.log', _py_log)


# ---- range(symbolic n) as an array-list, so that `for i in range(n)` can carry a loop contract (engine.LOOPS)
_orig_range = M.BUILTINS['range'].fn


def _b_range(it, args, kw):
    args = [unwrap0(a) for a in args]
    if len(args) == 1 and z3.is_expr(args[0]) and conc(args[0]) is None:
        n = args[0]
        j = z3.Int('j!range')
        lst = SymList(z3.If(n < 0, 0, n), z3.Lambda([j], j), 'int')
        return lst
    args = [conc(a) if conc(a) is not None else a for a in args]
    return _orig_range(it, args, kw)


M.BUILTINS['range'] = Builtin('range', _b_range)
