"""C14 restore path: a serializable designer that owns a random generator must make that generator a function of the
restored state when `load(metadata)` runs.

The service rebuilds the policy on every request (`designer_factory(problem)` *without* a seed, then `load`), so an
RNG attribute that `load` leaves as the constructor built it is seeded from the wall clock even though the study's
seed is stored in its metadata.  Obligation, decided on the real AST for all inputs:

    for every attribute X of the class that __init__ (or a helper it calls) binds to a random-generator object,
    `load` (or a helper it calls) re-binds X -- or restores its state through a setter -- with a value that is
    data-dependent on the `metadata` parameter.

Precision first: an RNG attribute is recognised only by a constructor call from the table below; everything else is
not an alarm.
"""
import ast

from . import source

RNG_CTOR_SUFFIXES = ('qmc.Halton', 'RandomState', 'default_rng', 'random.Random', 'PRNGKey', 'restore_rng', 'random.Generator',
                     'random.key', 'Sobol')
RESTORING_CALLS = ('load_state', 'set_state', 'setstate', '__setstate__')


def _dotted(e):
    parts = []
    while isinstance(e, ast.Attribute):
        parts.append(e.attr)
        e = e.value
    if isinstance(e, ast.Name):
        parts.append(e.id)
        return '.'.join(reversed(parts))
    return None


def _self_attr(t):
    """'X' for self.X ; 'X.y' for self.X.y ; None otherwise."""
    d = _dotted(t)
    if d and d.startswith('self.'):
        return d[5:]
    return None


def _methods_reached(cls, start):
    seen, todo = [], [start]
    while todo:
        m = todo.pop()
        if m in seen or m not in cls.methods:
            continue
        seen.append(m)
        for n in ast.walk(cls.methods[m]):
            if isinstance(n, ast.Call) and isinstance(n.func, ast.Attribute) and isinstance(n.func.value, ast.Name) \
                    and n.func.value.id == 'self' and n.func.attr in cls.methods:
                todo.append(n.func.attr)
    return seen


def _is_rng_ctor(call):
    d = _dotted(call.func)
    return bool(d) and any(d == s or d.endswith('.' + s) or d.endswith(s) for s in RNG_CTOR_SUFFIXES)


def rng_attributes(cls):
    """{attr: (method, lineno)} bound to an RNG construction during __init__ (incl. helpers)."""
    out = {}
    for m in _methods_reached(cls, '__init__') + _methods_reached(cls, '__attrs_post_init__'):
        for n in ast.walk(cls.methods[m]):
            if isinstance(n, (ast.Assign, ast.AnnAssign)):
                targets = n.targets if isinstance(n, ast.Assign) else [n.target]
                val = n.value
                if val is None:
                    continue
                if any(isinstance(c, ast.Call) and _is_rng_ctor(c) for c in ast.walk(val)):
                    for t in targets:
                        a = _self_attr(t)
                        if a and '.' not in a:
                            out[a] = (m, n.lineno)
    return out


def load_restores(cls, attr, param='metadata'):
    """(restored?, how) for attribute `attr` in load() and the helpers it calls."""
    hows = []
    for m in _methods_reached(cls, 'load'):
        fn = cls.methods[m]
        params = [a.arg for a in fn.args.args[1:]]
        tainted = set(params) if m != 'load' else {param if param in params else (params[0] if params else param)}
        tainted_attrs = set()

        def is_tainted(e):
            for n in ast.walk(e):
                if isinstance(n, ast.Name) and n.id in tainted:
                    return True
                a = _self_attr(n) if isinstance(n, ast.Attribute) else None
                if a and a in tainted_attrs:
                    return True
            return False

        changed = True
        rounds = 0
        while changed and rounds < 10:
            changed = False
            rounds += 1
            for n in ast.walk(fn):
                if isinstance(n, (ast.Assign, ast.AnnAssign, ast.AugAssign)):
                    targets = n.targets if isinstance(n, ast.Assign) else [n.target]
                    if n.value is None or not is_tainted(n.value):
                        continue
                    for t in targets:
                        for x in ([t] if not isinstance(t, (ast.Tuple, ast.List)) else t.elts):
                            if isinstance(x, ast.Name) and x.id not in tainted:
                                tainted.add(x.id)
                                changed = True
                            a = _self_attr(x)
                            if a and a not in tainted_attrs:
                                tainted_attrs.add(a)
                                changed = True
                elif isinstance(n, (ast.For, ast.comprehension)):
                    it = n.iter
                    tgt = n.target
                    if is_tainted(it):
                        for x in ast.walk(tgt):
                            if isinstance(x, ast.Name) and x.id not in tainted:
                                tainted.add(x.id)
                                changed = True
                elif isinstance(n, ast.With):
                    for i in n.items:
                        if i.optional_vars is not None and is_tainted(i.context_expr):
                            for x in ast.walk(i.optional_vars):
                                if isinstance(x, ast.Name) and x.id not in tainted:
                                    tainted.add(x.id)
                                    changed = True
        if attr in tainted_attrs:
            hows.append('%s re-binds self.%s from the restored state' % (m, attr))
        if any(a.startswith(attr + '.') for a in tainted_attrs):
            hows.append('%s restores the state of self.%s through an attribute setter' % (m, attr))
        for n in ast.walk(fn):
            if isinstance(n, ast.Call) and isinstance(n.func, ast.Attribute) and n.func.attr in RESTORING_CALLS:
                a = _self_attr(n.func.value)
                if a == attr and any(is_tainted(x) for x in list(n.args) + [k.value for k in n.keywords]):
                    hows.append('%s calls self.%s.%s(<restored state>)' % (m, attr, n.func.attr))
    return bool(hows), hows


def obligations(dotted, cls_name):
    """[(obligation suffix, ok, detail)] for one class; [] if the class has no load() or no RNG attribute."""
    m = source.ModuleInfo.get(dotted)
    cls = m.classes[cls_name]
    if 'load' not in cls.methods:
        return []
    out = []
    for attr, (meth, line) in sorted(rng_attributes(cls).items()):
        ok, hows = load_restores(cls, attr)
        out.append((attr, ok, {'bound_in': '%s (line %d)' % (meth, line), 'restored_by': hows}))
    return out
