"""pyvc.c09_model -- value models used by the C09 check (wire-format round trips).

Nothing here is a copy of repository code.  The module provides *library / language* models only:

  * codecs: how a python-side value (scalar, Optional, attrs record, tagged scalar) is stored as a z3 term inside a
    container of symbolic size and read back (`Scalar`, `Opt`, `Rec`, `Tagged`);
  * `ODict`: CPython's insertion-ordered `dict` with a symbolic number of entries
        n, karr[0..n) pairwise distinct keys in insertion order, dom[k] <=> k is a key, pos[k] = index of k, val[k];
    `d[k] = v`, `k in d`, `d[k]`, `len`, `bool`, iteration, `.items()/.keys()/.values()`, `**d` into a constructor;
  * `collections.UserDict` (base class of trial._MetricDict): `data` attribute + the mixin methods;
  * `spec_eq`: the equality the property talks about (the attrs `eq` actually declared, read from the class body on
    every run; fields documented as not transmitted are passed in by name; NaN is equal to NaN);
  * `msg_eq_fields`: field-wise equality of two proto messages (repeated fields: same length, same elements).

Everything registers itself through the extension hooks of `pyvc.models` (previous hooks are kept and chained).
"""
import z3

from . import engine as E
from . import models as M
from . import protomodel as pm
from . import xreal
from . import attrs_model as A
from .engine import Obj, Builtin, Bound, FuncVal, Unsupported, PyRaise
from .protomodel import Msg, SymList, Str, MsgSchema
from .source import ClassInfo

TRUST = [
    'CPython dict semantics as modelled by pyvc/c09_model.py:ODict (insertion order, assignment to an existing key keeps '
    'its position, equality ignores order)',
    'collections.UserDict semantics: `data` holds the entries; UserDict(**kw) performs self[k] = v for every keyword in order',
]

IT = [None]          # the interpreter of the path being explored (set by every entry function)


def cur():
    return IT[0]


# =========================================================================================== codecs
class Scalar:
    def __init__(self, kind):
        self.kind = kind
        self.sort = pm.scalar_sort(kind)

    def term(self, v):
        return pm._lift(v, self.sort)

    def wrap(self, t):
        return t

    def eq(self, a, b, excluded=()):
        return a == b


class Opt:
    """Optional[T] as none | some(T)."""
    _cache = {}

    def __init__(self, inner):
        self.inner = inner
        key = str(inner.sort)
        if key not in Opt._cache:
            dt = z3.Datatype('Opt_' + key)
            dt.declare('none')
            dt.declare('some', ('v', inner.sort))
            Opt._cache[key] = dt.create()
        self.sort = Opt._cache[key]

    def term(self, v):
        if v is None:
            return self.sort.none
        return self.sort.some(self.inner.term(v))

    def wrap(self, t):
        it = cur()
        if it.truth(self.sort.is_none(t)):
            return None
        return self.inner.wrap(self.sort.v(t))

    def eq(self, a, b, excluded=()):
        s = self.sort
        return z3.And(s.is_none(a) == s.is_none(b),
                      z3.Implies(s.is_some(a), self.inner.eq(s.v(a), s.v(b), excluded)))


class Rec:
    """an attrs class as a z3 record; `fields` = [(attribute name, codec)]; cls_fn() -> ClassInfo (re-read every run)."""

    def __init__(self, name, cls_fn, fields):
        self.name, self.cls_fn, self.fields = name, cls_fn, fields
        dt = z3.Datatype('Rec_' + name)
        dt.declare('mk', *[('r_' + a.lstrip('_'), c.sort) for a, c in fields])
        self.sort = dt.create()
        self.acc = {a: self.sort.accessor(0, i) for i, (a, c) in enumerate(fields)}

    def check_fields(self):
        spec = A.class_spec(self.cls_fn())
        have = [f.name for f in spec.fields]
        if have != [a for a, _ in self.fields]:
            raise Unsupported('class %s has fields %s in the current tree, the record model expects %s'
                              % (self.name, have, [a for a, _ in self.fields]))

    def term(self, o):
        if z3.is_expr(getattr(o, 'term', None)) and getattr(o, 'abstract', False):
            return o.term
        if not isinstance(o, Obj):
            raise Unsupported('%r stored where a %s is expected' % (o, self.name))
        return self.sort.mk(*[c.term(o.attrs[a]) for a, c in self.fields])

    def wrap(self, t):
        return Obj(self.cls_fn(), {a: c.wrap(self.acc[a](t)) for a, c in self.fields})

    def eq(self, a, b, excluded=()):
        spec = A.class_spec(self.cls_fn())
        conj = []
        for at, c in self.fields:
            f = spec.field(at)
            if f is None or f.eq is False or (self.name, at.lstrip('_')) in excluded:
                continue
            conj.append(c.eq(self.acc[at](a), self.acc[at](b), excluded))
        return z3.And(*conj) if conj else z3.BoolVal(True)


PVal = z3.Datatype('PVal')
PVal.declare('B', ('b', z3.BoolSort()))
PVal.declare('I', ('i', z3.IntSort()))
PVal.declare('F', ('x', xreal.XReal))
PVal.declare('S', ('s', Str))
PVal = PVal.create()


def pval_num(t):
    """XReal value of a numeric tagged scalar."""
    return z3.If(PVal.is_B(t), xreal.fin(z3.If(PVal.b(t), z3.RealVal(1), z3.RealVal(0))),
                 z3.If(PVal.is_I(t), xreal.fin(z3.ToReal(PVal.i(t))), PVal.x(t)))


class Tagged:
    """str | int | float | bool  (ParameterValueTypes)."""
    sort = PVal

    def term(self, v):
        if isinstance(v, bool):
            return PVal.B(z3.BoolVal(v))
        if isinstance(v, int):
            return PVal.I(z3.IntVal(v))
        if isinstance(v, float):
            return PVal.F(xreal.lit(v))
        if isinstance(v, str):
            return PVal.S(pm.str_lit(v))
        s = v.sort()
        if s == z3.BoolSort():
            return PVal.B(v)
        if s == z3.IntSort():
            return PVal.I(v)
        if s == xreal.XReal:
            return PVal.F(v)
        if s == Str:
            return PVal.S(v)
        if s == PVal:
            return v
        raise Unsupported('tagged scalar of sort %s' % s)

    def wrap(self, t):
        it = cur()
        if it.truth(PVal.is_B(t)):
            return PVal.b(t)
        if it.truth(PVal.is_I(t)):
            return PVal.i(t)
        if it.truth(PVal.is_F(t)):
            return PVal.x(t)
        return PVal.s(t)

    def eq(self, a, b, excluded=()):
        """Python == across the tags (numbers compare by value, bool is the number 0/1, NaN equal to NaN)."""
        return z3.If(z3.Or(PVal.is_S(a), PVal.is_S(b)), a == b, pval_num(a) == pval_num(b))
