"""pyvc.c09_model -- value models used by the C09 check (wire-format round trips).

Nothing here is a copy of repository code.  The module provides *library / language* models only:

  * codecs: how a python-side value (scalar, Optional, attrs record, tagged scalar) is stored as a z3 term inside a
    container of symbolic size and read back (`Scalar`, `Opt`, `Rec`, `Tagged`);
  * `ODict`: CPython's insertion-ordered `dict` with a symbolic number of entries
        n, karr[0..n) pairwise distinct keys in insertion order, dom[k] <=> k is a key, pos[k] = index of k, val[k];
    `d[k] = v`, `k in d`, `d[k]`, `len`, `bool`, iteration, `.items()/.keys()/.values()`, `**d` into a constructor;
  * `collections.UserDict` (base class of trial._MetricDict): `data` attribute + the mixin methods;
  * `spec_eq`: the equality the property talks about (the attrs `eq` actually declared, read from the class body on
    every run; fields documented as not transmitted are passed in by name; NaN is equal to NaN);
  * `msg_eq_fields`: field-wise equality of two proto messages (repeated fields: same length, same elements).

Everything registers itself through the extension hooks of `pyvc.models` (previous hooks are kept and chained).
"""
import z3

from . import engine as E
from . import models as M
from . import protomodel as pm
from . import xreal
from . import attrs_model as A
from .engine import Obj, Builtin, Bound, FuncVal, Unsupported, PyRaise
from .protomodel import Msg, SymList, Str, MsgSchema
from .source import ClassInfo

TRUST = [
    'CPython dict semantics as modelled by pyvc/c09_model.py:ODict (insertion order, assignment to an existing key keeps '
    'its position, equality ignores order)',
    'collections.UserDict semantics: `data` holds the entries; UserDict(**kw) performs self[k] = v for every keyword in order',
]

IT = [None]          # the interpreter of the path being explored (set by every entry function)


def cur():
    return IT[0]


# =========================================================================================== codecs
class Scalar:
    def __init__(self, kind):
        self.kind = kind
        self.sort = pm.scalar_sort(kind)

    def term(self, v):
        return pm._lift(v, self.sort)

    def wrap(self, t):
        return t

    def eq(self, a, b, excluded=()):
        return a == b


class Opt:
    """Optional[T] as none | some(T)."""
    _cache = {}

    def __init__(self, inner):
        self.inner = inner
        key = str(inner.sort)
        if key not in Opt._cache:
            dt = z3.Datatype('Opt_' + key)
            dt.declare('none')
            dt.declare('some', ('v', inner.sort))
            Opt._cache[key] = dt.create()
        self.sort = Opt._cache[key]

    def term(self, v):
        if v is None:
            return self.sort.none
        return self.sort.some(self.inner.term(v))

    def wrap(self, t):
        it = cur()
        if it.truth(self.sort.is_none(t)):
            return None
        return self.inner.wrap(self.sort.v(t))

    def eq(self, a, b, excluded=()):
        s = self.sort
        return z3.And(s.is_none(a) == s.is_none(b),
                      z3.Implies(s.is_some(a), self.inner.eq(s.v(a), s.v(b), excluded)))


class Rec:
    """an attrs class as a z3 record; `fields` = [(attribute name, codec)]; cls_fn() -> ClassInfo (re-read every run)."""

    def __init__(self, name, cls_fn, fields):
        self.name, self.cls_fn, self.fields = name, cls_fn, fields
        dt = z3.Datatype('Rec_' + name)
        dt.declare('mk', *[('r_' + a.lstrip('_'), c.sort) for a, c in fields])
        self.sort = dt.create()
        self.acc = {a: self.sort.accessor(0, i) for i, (a, c) in enumerate(fields)}

    def check_fields(self):
        spec = A.class_spec(self.cls_fn())
        have = [f.name for f in spec.fields]
        if have != [a for a, _ in self.fields]:
            raise Unsupported('class %s has fields %s in the current tree, the record model expects %s'
                              % (self.name, have, [a for a, _ in self.fields]))

    def term(self, o):
        if z3.is_expr(getattr(o, 'term', None)) and getattr(o, 'abstract', False):
            return o.term
        if not isinstance(o, Obj):
            raise Unsupported('%r stored where a %s is expected' % (o, self.name))
        return self.sort.mk(*[c.term(o.attrs[a]) for a, c in self.fields])

    def wrap(self, t):
        return Obj(self.cls_fn(), {a: c.wrap(self.acc[a](t)) for a, c in self.fields})

    def eq(self, a, b, excluded=()):
        spec = A.class_spec(self.cls_fn())
        conj = []
        for at, c in self.fields:
            f = spec.field(at)
            if f is None or f.eq is False or (self.name, at.lstrip('_')) in excluded:
                continue
            conj.append(c.eq(self.acc[at](a), self.acc[at](b), excluded))
        return z3.And(*conj) if conj else z3.BoolVal(True)


PVal = z3.Datatype('PVal')
PVal.declare('B', ('b', z3.BoolSort()))
PVal.declare('I', ('i', z3.IntSort()))
PVal.declare('F', ('x', xreal.XReal))
PVal.declare('S', ('s', Str))
PVal = PVal.create()


def pval_num(t):
    """XReal value of a numeric tagged scalar."""
    return z3.If(PVal.is_B(t), xreal.fin(z3.If(PVal.b(t), z3.RealVal(1), z3.RealVal(0))),
                 z3.If(PVal.is_I(t), xreal.fin(z3.ToReal(PVal.i(t))), PVal.x(t)))


class Tagged:
    """str | int | float | bool  (ParameterValueTypes)."""
    sort = PVal

    def term(self, v):
        if isinstance(v, bool):
            return PVal.B(z3.BoolVal(v))
        if isinstance(v, int):
            return PVal.I(z3.IntVal(v))
        if isinstance(v, float):
            return PVal.F(xreal.lit(v))
        if isinstance(v, str):
            return PVal.S(pm.str_lit(v))
        s = v.sort()
        if s == z3.BoolSort():
            return PVal.B(v)
        if s == z3.IntSort():
            return PVal.I(v)
        if s == xreal.XReal:
            return PVal.F(v)
        if s == Str:
            return PVal.S(v)
        if s == PVal:
            return v
        raise Unsupported('tagged scalar of sort %s' % s)

    def wrap(self, t):
        it = cur()
        if it.truth(PVal.is_B(t)):
            return PVal.b(t)
        if it.truth(PVal.is_I(t)):
            return PVal.i(t)
        if it.truth(PVal.is_F(t)):
            return PVal.x(t)
        return PVal.s(t)

    def eq(self, a, b, excluded=()):
        """Python == across the tags (numbers compare by value, bool is the number 0/1, NaN equal to NaN)."""
        return z3.If(z3.Or(PVal.is_S(a), PVal.is_S(b)), a == b, pval_num(a) == pval_num(b))


# =========================================================================================== ordered dict of symbolic size
class ODict:
    """insertion-ordered dict with a symbolic number of entries.  Well-formedness (`wf()`) is the data-structure
    invariant of CPython's dict: it is *assumed* for symbolic inputs and *re-established as a checked loop-invariant
    clause* (`odict_wf` in the loop contracts) wherever a dict is havoced."""

    def __init__(self, kc, vc, n=None, karr=None, dom=None, pos=None, val=None):
        self.kc, self.vc = kc, vc
        ks, vs = kc.sort, vc.sort
        self.n = n if n is not None else z3.IntVal(0)
        self.karr = karr if karr is not None else z3.K(z3.IntSort(), pm._default_term(ks))
        self.dom = dom if dom is not None else z3.K(ks, z3.BoolVal(False))
        self.pos = pos if pos is not None else z3.K(ks, z3.IntVal(-1))
        self.val = val if val is not None else z3.K(ks, _default_of(vs))

    @classmethod
    def fresh(cls, run, name, kc, vc, wf=True):
        ks, vs = kc.sort, vc.sort
        d = cls(kc, vc, run.fresh(name + '_n', z3.IntSort()), run.fresh(name + '_keys', z3.ArraySort(z3.IntSort(), ks)),
                run.fresh(name + '_dom', z3.ArraySort(ks, z3.BoolSort())), run.fresh(name + '_pos', z3.ArraySort(ks, z3.IntSort())),
                run.fresh(name + '_val', z3.ArraySort(ks, vs)))
        run.assume(d.n >= 0)
        if wf:
            for ax in d.wf():
                run.axiom(ax)
        return d

    def wf(self):
        i = z3.Int('i!od')
        s = z3.Const('s!od', self.kc.sort)
        return [
            z3.ForAll([i], z3.Implies(z3.And(i >= 0, i < self.n), z3.And(self.dom[self.karr[i]], self.pos[self.karr[i]] == i))),
            z3.ForAll([s], z3.Implies(self.dom[s], z3.And(self.pos[s] >= 0, self.pos[s] < self.n, self.karr[self.pos[s]] == s))),
        ]

    def copy(self):
        return ODict(self.kc, self.vc, self.n, self.karr, self.dom, self.pos, self.val)

    def key(self, k):
        return self.kc.term(k)

    def set(self, k, v):
        """d[k] = v (no fork: the position bookkeeping is conditional on membership)."""
        kt, vt = self.key(k), self.vc.term(v)
        present = self.dom[kt]
        n0 = self.n
        self.karr = z3.If(present, self.karr, z3.Store(self.karr, n0, kt))
        self.pos = z3.If(present, self.pos, z3.Store(self.pos, kt, n0))
        self.n = z3.If(present, n0, n0 + 1)
        self.dom = z3.Store(self.dom, kt, z3.BoolVal(True))
        self.val = z3.Store(self.val, kt, vt)

    def get(self, it, k):
        kt = self.key(k)
        if not it.truth(self.dom[kt]):
            raise PyRaise(it.make_exc('KeyError', [k]))
        return self.vc.wrap(self.val[kt])

    def value_at(self, i):
        return self.val[self.karr[i]]

    # python-level protocol used by Interp.e_Call for `f(**d)`: one marker entry carrying the whole dict
    def items(self):
        return [('**', self)]

    def __repr__(self):
        return '<odict %s -> %s>' % (self.kc.sort, self.vc.sort)


def _default_of(sort):
    try:
        return pm._default_term(sort)
    except Exception:
        return z3.Const('default_' + str(sort), sort)


class PairList(SymList):
    """d.items() / d.keys() / d.values() of an ODict as an array-list (a snapshot of the dict at call time)."""

    def __init__(self, od, what):
        self.od = od.copy()
        self.what = what
        i = z3.Int('i!pl')
        if what == 'keys':
            arr = self.od.karr
        elif what == 'values':
            arr = z3.Lambda([i], self.od.val[self.od.karr[i]])
        else:
            arr = None
        SymList.__init__(self, self.od.n, arr, 'pair')

    def elem_sort(self):
        if self.what == 'keys':
            return self.od.kc.sort
        if self.what == 'values':
            return self.od.vc.sort
        raise Unsupported('items() view has no single element sort')

    def get(self, i):
        od = self.od
        k = od.kc.wrap(od.karr[i])
        if self.what == 'keys':
            return k
        v = od.vc.wrap(od.val[od.karr[i]])
        if self.what == 'values':
            return v
        return (k, v)


# declared element codecs of dict-typed locals that are still a concrete (empty) dict when a symbolic loop havocs them
DECLS = {}


def declare(module, qualname, varname, kc, vc):
    DECLS[(module, qualname, varname)] = (kc, vc)


def declared(it, name):
    for fv in reversed(it.stack):
        d = DECLS.get((fv.mod.dotted, fv.qualname, name))
        if d is not None:
            return d
    return None


def as_odict(it, v, name=None, codecs=None):
    """ODict view of a dict-valued local (a concrete empty dict is the empty ODict of the declared sorts)."""
    if isinstance(v, ODict):
        return v
    if isinstance(v, M.PyDict):
        d = codecs or declared(it, name)
        if d is None:
            raise Unsupported('dict %s reaches a symbolic loop without declared element sorts' % name)
        od = ODict(d[0], d[1])
        for k, x in v.items():
            od.set(k, x)
        return od
    raise Unsupported('%r is not a dict' % (v,))


# ------------------------------------------------------------------------------------------ hooks
def _chain(name, fn, missing=M.MISSING):
    prev = getattr(M, name)

    def hook(*a):
        r = fn(*a)
        if r is not missing:
            return r
        return prev(*a)
    setattr(M, name, hook)


def _setitem(it, base, idx, v):
    if isinstance(base, ODict):
        base.set(idx, v)
        return True
    return M.MISSING


def _subscript(it, base, idx):
    if isinstance(base, ODict):
        return base.get(it, idx)
    return M.MISSING


def _contains(it, container, x):
    if isinstance(container, ODict):
        return container.dom[container.key(x)]
    if isinstance(container, PairList) and container.what == 'keys':
        return container.od.dom[container.od.key(x)]
    return M.MISSING


def _od_getattr(it, v, a):
    if isinstance(v, ODict):
        if a in ('items', 'keys', 'values'):
            return Builtin(a, lambda it_, args, kw: PairList(v, a))
        if a == '__setitem__':
            return Builtin('__setitem__', lambda it_, args, kw: v.set(args[0], args[1]))
        if a == '__getitem__':
            return Builtin('__getitem__', lambda it_, args, kw: v.get(it_, args[0]))
        if a == '__contains__':
            return Builtin('__contains__', lambda it_, args, kw: v.dom[v.key(args[0])])
        if a == 'get':
            def get(it_, args, kw):
                kt = v.key(args[0])
                if it_.truth(v.dom[kt]):
                    return v.vc.wrap(v.val[kt])
                return args[1] if len(args) > 1 else kw.get('default')
            return Builtin('get', get)
        if a == 'copy':
            return Builtin('copy', lambda it_, args, kw: v.copy())
        raise Unsupported('method %s of a dict of symbolic size' % a)
    return M.MISSING


def _fresh_like(it, v, name):
    if isinstance(v, M.PyDict):
        d = declared(it, name)
        if d is None:
            return M.MISSING
        return ODict.fresh(it.run, name, d[0], d[1], wf=False)
    if isinstance(v, ODict):
        return ODict.fresh(it.run, name, v.kc, v.vc, wf=False)
    return M.MISSING


def _deepcopy(it, v, memo):
    if isinstance(v, ODict):
        return v.copy()
    return M.MISSING


def _iterate(it, v):
    if isinstance(v, ODict):
        pl = PairList(v, 'keys')
        r = M.try_iterate(it, pl)
        return r if r is not None else M.MISSING
    return M.MISSING


def _len(it, v):
    if isinstance(v, ODict):
        return v.n
    return M.MISSING


_chain('setitem_hook', _setitem)
_chain('subscript_hook', _subscript)
_chain('contains_hook', _contains)
_chain('value_getattr_hook', _od_getattr)
_chain('fresh_like_hook', _fresh_like)
_chain('deepcopy_hook', _deepcopy)
_chain('iterate_hook', _iterate)
_chain('len_hook', _len)

_prev_truth = M.truth_hook


def _truth(it, v):
    if isinstance(v, ODict):
        return v.n > 0
    return _prev_truth(it, v)


M.truth_hook = _truth


# =========================================================================================== collections.UserDict
_USERDICT = {'collections.UserDict'}


def is_userdict_class(cls):
    if not isinstance(cls, ClassInfo):
        return False
    for c in E.mro(cls):
        if isinstance(c, ClassInfo):
            for b in c.base_nodes:
                if A._dotted(c.mod, b) in _USERDICT:
                    return True
    return False


def _ud_setitem(it, o, k, v):
    c, m = E.find_method(o.cls, '__setitem__')
    if m is not None:
        return it.invoke(FuncVal(c.mod, m, c), [o, k, v], {})
    M.setitem(it, o.attrs['data'], k, v)


def _ud_construct(it, cls, args, kw):
    """UserDict.__init__(dict=None, /, **kwargs): data = {}; self.update(dict); self.update(kwargs) -- update performs
    self[k] = v per entry.  For a `**d` with d of symbolic size the per-entry effect of the class's own __setitem__ is
    executed once on an arbitrary entry; if it stores the entry unchanged the result holds exactly the entries of d."""
    if not is_userdict_class(cls):
        return M.MISSING
    o = Obj(cls, {'data': M.PyDict()})
    srcs = list(args[:1])
    star = kw.pop('**', None) if isinstance(kw.get('**'), ODict) else None
    for s in srcs:
        if s is None:
            continue
        if isinstance(s, ODict):
            if star is not None:
                raise Unsupported('UserDict(d, **e) with two dicts of symbolic size')
            star = s
        else:
            for k, v in _pairs(it, s):
                _ud_setitem(it, o, k, v)
    if star is not None:
        if len(o.attrs['data']) or kw:
            raise Unsupported('UserDict(**d) mixed with other entries')
        run = it.run
        k = run.fresh('ud_k', star.kc.sort)
        scratch = Obj(cls, {'data': ODict(star.kc, star.vc)})
        vt = star.val[k]
        _ud_setitem(it, scratch, star.kc.wrap(k), star.vc.wrap(vt))
        sd = scratch.attrs['data']
        run.oblige('UserDict.init.pointwise', z3.And(sd.n == 1, sd.dom[k], sd.val[k] == vt, sd.karr[0] == k))
        o.attrs['data'] = star.copy()
        return o
    for k, v in kw.items():
        _ud_setitem(it, o, k, v)
    return o


def _pairs(it, s):
    if isinstance(s, M.PyDict):
        return list(s.items())
    if isinstance(s, Obj) and 'data' in s.attrs and isinstance(s.attrs['data'], M.PyDict):
        return list(s.attrs['data'].items())
    return [tuple(M.iterate(it, kv)) for kv in M.iterate(it, s)]


_chain('construct_hook', _ud_construct)


def _ud_getattr(it, o, a):
    if not (isinstance(o, Obj) and is_userdict_class(o.cls) and 'data' in o.attrs):
        return M.MISSING
    d = o.attrs['data']
    if a in ('items', 'keys', 'values', 'get', 'copy'):
        return it.getattr(d, a)
    if a == '__contains__':
        return Builtin('__contains__', lambda it_, args, kw: M.contains(it_, d, args[0]))
    if a == '__getitem__':
        return Builtin('__getitem__', lambda it_, args, kw: M.subscript(it_, d, args[0]))
    if a == '__len__':
        return Builtin('__len__', lambda it_, args, kw: M.b_len(it_, [d], {}))
    return M.MISSING


_chain('obj_getattr', _ud_getattr)


def _ud_contains(it, container, x):
    if isinstance(container, Obj) and is_userdict_class(container.cls) and 'data' in container.attrs:
        c, m = E.find_method(container.cls, '__contains__')
        if m is None:
            return M.contains(it, container.attrs['data'], x)
    return M.MISSING


def _ud_subscript(it, base, idx):
    if isinstance(base, Obj) and is_userdict_class(base.cls) and 'data' in base.attrs:
        c, m = E.find_method(base.cls, '__getitem__')
        if m is None:
            return M.subscript(it, base.attrs['data'], idx)
    return M.MISSING


def _ud_len(it, v):
    if isinstance(v, Obj) and is_userdict_class(v.cls) and 'data' in v.attrs:
        return M.b_len(it, [v.attrs['data']], {})
    return M.MISSING


def _ud_iterate(it, v):
    if isinstance(v, Obj) and is_userdict_class(v.cls) and 'data' in v.attrs:
        r = M.try_iterate(it, v.attrs['data'])
        return r if r is not None else M.MISSING
    return M.MISSING


_chain('contains_hook', _ud_contains)
_chain('subscript_hook', _ud_subscript)
_chain('len_hook', _ud_len)
_chain('iterate_hook', _ud_iterate)

_prev_truth2 = M.truth_hook


def _truth2(it, v):
    if isinstance(v, Obj) and is_userdict_class(v.cls) and 'data' in v.attrs:
        return it.truth_term(v.attrs['data']) if not isinstance(v.attrs['data'], ODict) else v.attrs['data'].n > 0
    return _prev_truth2(it, v)


M.truth_hook = _truth2
